(** * SpecBuild: [spec_util::from_yaml_str] after the YAML text has been parsed:
    [build_node] over the [serde_yaml::Value] tree (serde_yaml 0.9).  The text layer
    (serde_yaml's parser) is exercised by the correspondence stream, not modelled. *)
From Coq Require Import String Ascii.
From Coq Require Import List ZArith NArith Bool Lia.
From Flocq Require Import IEEE754.BinarySingleNaN.
From Cambrian Require Import Base.F64 SourceFacts Syntax.
Import ListNotations.
Local Open Scope string_scope.

Inductive yaml : Type :=
| YNull
| YBool (b : bool)
| YInt (z : Z)            (* Number::PosInt(u64) / NegInt(i64) *)
| YFloat (x : f64)
| YStr (s : string)
| YSeq (l : list yaml)
| YMap (m : list (yaml * yaml))      (* insertion order *)
| YTagged (tag : string) (v : yaml).

Inductive serr : Type :=
| EValueMustBeMap | EUnsignedIntConversionFailed | EInvalidAttributeValueType | EInvalidAttributeKeyType
| EUnknownTypeName | EInitNotWithinBounds | EInitSizeNotWithinBounds | EInvalidBounds | EInvalidSizeBounds
| EArraySize | EZeroMaxSize | EMandatoryAttributeMissing | EUnexpectedAttribute | EEmptySub
| ENotEnoughVariantValues | ENotEnoughEnumValues | EInitNotAKnownValue | EEnumItemsMustBeString
| ENonFiniteNumber | EScaleMustBeStrictlyPositive | EIllegalTypeDefName.

Inductive res (A : Type) : Type := Ok (a : A) | Err (e : serr).
Arguments Ok {A} a.
Arguments Err {A} e.
Definition bind {A B} (r : res A) (f : A -> res B) : res B :=
  match r with Ok a => f a | Err e => Err e end.
Notation "'do' x <- r ; k" := (bind r (fun x => k)) (at level 200, x pattern, r at level 100, k at level 200).

(** [Value::untag_ref] *)
Fixpoint untag (y : yaml) : yaml := match y with YTagged _ v => untag v | _ => y end.

Definition as_str (y : yaml) : option string := match untag y with YStr s => Some s | _ => None end.
Definition as_bool (y : yaml) : option bool := match untag y with YBool b => Some b | _ => None end.
Definition i64_min : Z := (-9223372036854775808)%Z.
Definition i64_max : Z := 9223372036854775807%Z.
Definition as_i64 (y : yaml) : option Z :=
  match untag y with YInt z => if Z.leb i64_min z && Z.leb z i64_max then Some z else None | _ => None end.
Definition as_u64 (y : yaml) : option Z :=
  match untag y with YInt z => if Z.leb 0 z then Some z else None | _ => None end.
Definition f64_of_Z (z : Z) : f64 := binary_normalize 53 1024 eq_refl eq_refl mode_NE z 0 false.
Definition as_f64 (y : yaml) : option f64 :=
  match untag y with YInt z => Some (f64_of_Z z) | YFloat x => Some x | _ => None end.

(** [Mapping::get(&str)]: the value under the plain (untagged) string key *)
Fixpoint yget (k : string) (m : list (yaml * yaml)) : option yaml :=
  match m with
  | [] => None
  | (YStr k', v) :: r => if String.eqb k k' then Some v else yget k r
  | _ :: r => yget k r
  end.

Definition extract {T} (m : list (yaml * yaml)) (name : string) (f : yaml -> option T) (mandatory : bool)
  : res (option T) :=
  match yget name m with
  | Some v => match f v with Some t => Ok (Some t) | None => Err EInvalidAttributeValueType end
  | None => if mandatory then Err EMandatoryAttributeMissing else Ok None
  end.

Definition extract_real (m : list (yaml * yaml)) (name : string) (mandatory : bool) : res (option f64) :=
  do r <- extract m name as_f64 mandatory;
  match r with
  | Some x => if fin x then Ok (Some x) else Err ENonFiniteNumber
  | None => Ok None
  end.

Definition check_unexpected (m : list (yaml * yaml)) (allowed : list string) : res unit :=
  (fix go (l : list (yaml * yaml)) : res unit :=
     match l with
     | [] => Ok tt
     | (YStr k, _) :: r => if mem_s k allowed then go r else Err EUnexpectedAttribute
     | _ :: _ => Err EInvalidAttributeKeyType
     end) m.

Definition starts_with (pre s : string) : bool := String.prefix pre s.
Definition strip_prefix (pre s : string) : string := String.substring (String.length pre) (String.length s - String.length pre) s.

Definition opt_unwrap {T} (d : T) (o : option T) : T := match o with Some t => t | None => d end.

Definition build_real (m : list (yaml * yaml)) : res spec :=
  do _ <- check_unexpected m ["type"; "min"; "max"; "scale"; "init"];
  do mn <- extract_real m "min" false;
  do mx <- extract_real m "max" false;
  do _ <- match mn, mx with
          | Some a, Some b => if fle b a then Err EInvalidBounds else Ok tt
          | _, _ => Ok tt
          end;
  do io <- extract_real m "init" true;
  let init := opt_unwrap fzero io in
  if (match mn with Some a => flt init a | None => false end) ||
     (match mx with Some b => flt b init | None => false end)
  then Err EInitNotWithinBounds else
  do so <- extract_real m "scale" true;
  let scale := opt_unwrap fone so in
  if fle scale fzero then Err EScaleMustBeStrictlyPositive else
  Ok (SReal init scale mn mx).

Definition build_int (m : list (yaml * yaml)) : res spec :=
  do _ <- check_unexpected m ["type"; "min"; "max"; "scale"; "init"];
  do mn <- extract m "min" as_i64 false;
  do mx <- extract m "max" as_i64 false;
  do _ <- match mn, mx with
          | Some a, Some b => if Z.leb b a then Err EInvalidBounds else Ok tt
          | _, _ => Ok tt
          end;
  do io <- extract m "init" as_i64 true;
  let init := opt_unwrap 0%Z io in
  if (match mn with Some a => Z.ltb init a | None => false end) ||
     (match mx with Some b => Z.ltb b init | None => false end)
  then Err EInitNotWithinBounds else
  do so <- extract_real m "scale" true;
  let scale := opt_unwrap fone so in
  if fle scale fzero then Err EScaleMustBeStrictlyPositive else
  Ok (SInt init scale mn mx).

Definition build_bool (m : list (yaml * yaml)) : res spec :=
  do _ <- check_unexpected m ["type"; "init"];
  do b <- extract m "init" as_bool true;
  Ok (SBool (opt_unwrap false b)).

Definition build_const (m : list (yaml * yaml)) : res spec :=
  do _ <- check_unexpected m ["type"];
  Ok SConst.

Definition to_nat_opt (o : option Z) : option nat := option_map Z.to_nat o.

Definition build_enum (m : list (yaml * yaml)) : res spec :=
  do _ <- check_unexpected m ["type"; "init"; "values"];
  do io <- extract m "init" as_str true;
  let init := opt_unwrap EmptyString io in
  match yget "values" m with
  | None => Err EMandatoryAttributeMissing
  | Some (YSeq vs) =>
      if Nat.ltb (length vs) 2 then Err ENotEnoughEnumValues else
      do names <- (fix go (l : list yaml) : res (list string) :=
                     match l with
                     | [] => Ok []
                     | YStr s :: r => do t <- go r; Ok (s :: t)
                     | _ :: _ => Err EEnumItemsMustBeString
                     end) vs;
      if enum_values_checked_distinct && Nat.ltb (length (dedup_s names)) 2 then Err ENotEnoughEnumValues else
      if negb (mem_s init names) then Err EInitNotAKnownValue else
      Ok (SEnum names init)
  | Some _ => Err EInvalidAttributeValueType
  end.

Definition env := list (string * spec).
Fixpoint env_set (e : env) (k : string) (s : spec) : env :=
  match e with
  | [] => [(k, s)]
  | (k', s') :: r => if String.eqb k k' then (k, s) :: r else (k', s') :: env_set r k s
  end.

(** a sub's members, keyed by name; a later entry with the same name replaces the earlier one
    (only possible with tagged/untagged keys of equal text) *)
Fixpoint mem_set (e : list (string * spec)) (k : string) (s : spec) : list (string * spec) :=
  match e with
  | [] => [(k, s)]
  | (k', s') :: r => if String.eqb k k' then (k, s) :: r else (k', s') :: mem_set r k s
  end.

Definition usize_attr (m : list (yaml * yaml)) (name : string) (mandatory : bool) : res (option nat) :=
  do r <- extract m name as_u64 mandatory; Ok (to_nat_opt r).

(** first pass of [build_sub]: type definitions, in document order, each seeing the earlier ones *)
Fixpoint defs_loop (bn : env -> yaml -> res spec) (l : list (yaml * yaml)) (e : env) : res env :=
  match l with
  | [] => Ok e
  | (k, v) :: r =>
      match as_str k with
      | None => Err EInvalidAttributeKeyType
      | Some ks =>
          if starts_with typedef_prefix_pass1 ks then
            let name := strip_prefix typedef_strip_prefix ks in
            if mem_s name built_in_type_names then Err EIllegalTypeDefName else
            do s <- bn e v;
            defs_loop bn r (env_set e name s)
          else defs_loop bn r e
      end
  end.

(** members of a sub / options of a variant: entries whose (untagged string) key is not skipped;
    [strict] says whether a non-string key is an error (variant) or ignored (second pass of sub) *)
Fixpoint mems_loop (bn : yaml -> res spec) (skip : string -> bool) (strict : bool)
         (l : list (yaml * yaml)) (acc : list (string * spec)) : res (list (string * spec)) :=
  match l with
  | [] => Ok acc
  | (k, v) :: r =>
      match as_str k with
      | Some ks =>
          if skip ks then mems_loop bn skip strict r acc
          else do s <- bn v; mems_loop bn skip strict r (mem_set acc ks s)
      | None => if strict then Err EInvalidAttributeKeyType else mems_loop bn skip strict r acc
      end
  end.

Definition sub_skip (ks : string) : bool := String.eqb ks "type" || starts_with typedef_prefix_pass2 ks.
Definition variant_skip (ks : string) : bool := String.eqb ks "type" || String.eqb ks "init".

(** fuel-indexed: the recursion is structural in the yaml tree but goes through [yget]; the
    fuel is the size of the document and is never exhausted (see [build]) *)
Fixpoint build_node (fuel : nat) (e : env) (y : yaml) : res spec :=
  match fuel with
  | O => Err EValueMustBeMap
  | S f =>
      match y with
      | YMap m =>
          do tn <- extract m "type" as_str false;
          let type_name := opt_unwrap "sub" tn in
          let value_type :=
            match yget "valueType" m with
            | Some v => build_node f e v
            | None => Err EMandatoryAttributeMissing
            end in
          if String.eqb type_name "real" then build_real m
          else if String.eqb type_name "int" then build_int m
          else if String.eqb type_name "bool" then build_bool m
          else if String.eqb type_name "sub" then
            do e' <- defs_loop (build_node f) m e;
            do ms <- mems_loop (build_node f e') sub_skip false m [];
            match ms with
            | [] => Err EEmptySub
            | _ => Ok (SSub ms)
            end
          else if String.eqb type_name "array" then
            do _ <- check_unexpected m ["type"; "size"; "valueType"];
            do vt <- value_type;
            do sz <- usize_attr m "size" true;
            let size := opt_unwrap 0%nat sz in
            if Nat.ltb size 2 then Err EArraySize else Ok (SArray vt size)
          else if String.eqb type_name "anon map" then
            do _ <- check_unexpected m ["type"; "initSize"; "minSize"; "maxSize"; "valueType"];
            do vt <- value_type;
            do mn <- usize_attr m "minSize" false;
            do mx <- usize_attr m "maxSize" false;
            do _ <- match mn, mx with
                    | Some a, Some b => if Nat.leb b a then Err EInvalidSizeBounds else Ok tt
                    | _, _ => Ok tt
                    end;
            if (match mx with Some 0%nat => true | _ => false end) then Err EZeroMaxSize else
            do isz <- usize_attr m "initSize" true;
            let init_size := opt_unwrap 0%nat isz in
            if (match mn with Some a => Nat.ltb init_size a | None => false end) ||
               (match mx with Some b => Nat.ltb b init_size | None => false end)
            then Err EInitSizeNotWithinBounds
            else Ok (SAnonMap vt init_size mn mx)
          else if String.eqb type_name "variant" then
            do io <- extract m "init" as_str true;
            let init := opt_unwrap EmptyString io in
            do os <- mems_loop (build_node f e) variant_skip true m [];
            if Nat.ltb (length os) 2 then Err ENotEnoughVariantValues else
            if negb (mem_s init (map fst os)) then Err EInitNotAKnownValue else
            Ok (SVariant os init)
          else if String.eqb type_name "enum" then build_enum m
          else if String.eqb type_name "optional" then
            do _ <- check_unexpected m ["type"; "initPresent"; "valueType"];
            do vt <- value_type;
            do ip <- extract m "initPresent" as_bool true;
            Ok (SOptional vt (opt_unwrap false ip))
          else if String.eqb type_name "const" then build_const m
          else
            match slookup type_name e with
            | Some s => do _ <- check_unexpected m ["type"]; Ok s
            | None => Err EUnknownTypeName
            end
      | _ => Err EValueMustBeMap
      end
  end.

Fixpoint ysize (y : yaml) : nat :=
  match y with
  | YSeq l => S (fold_right (fun v a => ysize v + a) 0 l)
  | YMap m => S (fold_right (fun kv a => ysize (fst kv) + ysize (snd kv) + a) 0 m)
  | YTagged _ v => S (ysize v)
  | _ => 1
  end.

Definition build (y : yaml) : res spec := build_node (S (ysize y)) [] y.
