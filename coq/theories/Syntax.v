(** * Syntax: parameter-space specs and values (spec.rs, value.rs), structural
    induction principles, the initial value, well-formedness and conformance. *)
From Coq Require Import String.
From Coq Require Import List ZArith NArith Bool Lia.
From Flocq Require Import IEEE754.BinarySingleNaN.
From Cambrian Require Import Base.F64.
Import ListNotations.


Inductive spec : Type :=
| SReal (init scale : f64) (min max : option f64)
| SInt (init : Z) (scale : f64) (min max : option Z)
| SBool (init : bool)
| SSub (members : list (string * spec))
| SArray (vt : spec) (size : nat)
| SAnonMap (vt : spec) (init_size : nat) (min_size max_size : option nat)
| SVariant (options : list (string * spec)) (init : string)
| SEnum (values : list string) (init : string)
| SOptional (vt : spec) (init_present : bool)
| SConst.

Inductive value : Type :=
| VReal (x : f64)
| VInt (z : Z)
| VBool (b : bool)
| VSub (m : list (string * value))
| VArray (l : list value)
| VAnonMap (m : list (N * value))
| VVariant (name : string) (v : value)
| VEnum (name : string)
| VOptional (o : option value)
| VConst.

(** ** induction principles (nested through [list] and [prod]) *)
Section SpecInd.
  Variable P : spec -> Prop.
  Hypothesis Hreal : forall i s mn mx, P (SReal i s mn mx).
  Hypothesis Hint : forall i s mn mx, P (SInt i s mn mx).
  Hypothesis Hbool : forall b, P (SBool b).
  Hypothesis Hsub : forall ms, Forall (fun kv => P (snd kv)) ms -> P (SSub ms).
  Hypothesis Harr : forall vt n, P vt -> P (SArray vt n).
  Hypothesis Hmap : forall vt i mn mx, P vt -> P (SAnonMap vt i mn mx).
  Hypothesis Hvar : forall os i, Forall (fun kv => P (snd kv)) os -> P (SVariant os i).
  Hypothesis Henum : forall vs i, P (SEnum vs i).
  Hypothesis Hopt : forall vt b, P vt -> P (SOptional vt b).
  Hypothesis Hconst : P SConst.

  Fixpoint spec_ind' (s : spec) : P s :=
    match s with
    | SReal i sc mn mx => Hreal i sc mn mx
    | SInt i sc mn mx => Hint i sc mn mx
    | SBool b => Hbool b
    | SSub ms =>
        Hsub ms ((fix go (l : list (string * spec)) : Forall (fun kv => P (snd kv)) l :=
                    match l with
                    | [] => Forall_nil _
                    | kv :: r => Forall_cons kv (spec_ind' (snd kv)) (go r)
                    end) ms)
    | SArray vt n => Harr vt n (spec_ind' vt)
    | SAnonMap vt i mn mx => Hmap vt i mn mx (spec_ind' vt)
    | SVariant os i =>
        Hvar os i ((fix go (l : list (string * spec)) : Forall (fun kv => P (snd kv)) l :=
                      match l with
                      | [] => Forall_nil _
                      | kv :: r => Forall_cons kv (spec_ind' (snd kv)) (go r)
                      end) os)
    | SEnum vs i => Henum vs i
    | SOptional vt b => Hopt vt b (spec_ind' vt)
    | SConst => Hconst
    end.
End SpecInd.

(** ** association-list helpers *)
Fixpoint slookup {A} (k : string) (l : list (string * A)) : option A :=
  match l with
  | [] => None
  | (k', a) :: r => if String.eqb k k' then Some a else slookup k r
  end.
Fixpoint nlookup {A} (k : N) (l : list (N * A)) : option A :=
  match l with
  | [] => None
  | (k', a) :: r => if N.eqb k k' then Some a else nlookup k r
  end.
Fixpoint nodup_s (l : list string) : bool :=
  match l with [] => true | a :: r => negb (existsb (String.eqb a) r) && nodup_s r end.
Fixpoint nodup_n (l : list N) : bool :=
  match l with [] => true | a :: r => negb (existsb (N.eqb a) r) && nodup_n r end.
Definition mem_s (a : string) (l : list string) : bool := existsb (String.eqb a) l.
Fixpoint dedup_s (l : list string) : list string :=
  match l with [] => [] | a :: r => if existsb (String.eqb a) r then dedup_s r else a :: dedup_s r end.
Definition mem_n (a : N) (l : list N) : bool := existsb (N.eqb a) l.

(** ** initial value *)
Fixpoint init_val (s : spec) : value :=
  match s with
  | SReal i _ _ _ => VReal i
  | SInt i _ _ _ => VInt i
  | SBool b => VBool b
  | SSub ms => VSub (map (fun kv => (fst kv, init_val (snd kv))) ms)
  | SArray vt n => VArray (repeat (init_val vt) n)
  | SAnonMap vt n _ _ => VAnonMap (map (fun k => (N.of_nat k, init_val vt)) (seq 0 n))
  | SVariant os i =>
      VVariant i (match slookup i (map (fun kv => (fst kv, init_val (snd kv))) os) with
                  | Some v => v
                  | None => VConst   (* [map.get(init).unwrap()]: excluded by wf *)
                  end)
  | SEnum _ i => VEnum i
  | SOptional vt b => VOptional (if b then Some (init_val vt) else None)
  | SConst => VConst
  end.

(** ** well-formedness of a spec: what spec_util promises (C10) *)
Definition opt_le_f (a : option f64) (x : f64) : bool := match a with Some m => fle m x | None => true end.
Definition opt_ge_f (a : option f64) (x : f64) : bool := match a with Some m => fle x m | None => true end.
Definition opt_fin (a : option f64) : bool := match a with Some m => fin m | None => true end.

Fixpoint wf (s : spec) : bool :=
  match s with
  | SReal i sc mn mx =>
      fin i && fin sc && flt fzero sc && opt_fin mn && opt_fin mx &&
      opt_le_f mn i && opt_ge_f mx i &&
      match mn, mx with Some a, Some b => flt a b | _, _ => true end
  | SInt i sc mn mx =>
      fin sc && flt fzero sc &&
      match mn with Some a => Z.leb a i | None => true end &&
      match mx with Some b => Z.leb i b | None => true end &&
      match mn, mx with Some a, Some b => Z.ltb a b | _, _ => true end
  | SBool _ => true
  | SSub ms =>
      negb (match ms with [] => true | _ => false end) &&
      nodup_s (map fst ms) && forallb (fun kv => wf (snd kv)) ms
  | SArray vt n => Nat.leb 2 n && wf vt
  | SAnonMap vt i mn mx =>
      wf vt &&
      match mn with Some a => Nat.leb a i | None => true end &&
      match mx with Some b => Nat.leb i b && negb (Nat.eqb b 0) | None => true end &&
      match mn, mx with Some a, Some b => Nat.ltb a b | _, _ => true end
  | SVariant os i =>
      Nat.leb 2 (length os) && nodup_s (map fst os) && mem_s i (map fst os) &&
      forallb (fun kv => wf (snd kv)) os
  | SEnum vs i => Nat.leb 2 (length (dedup_s vs)) && mem_s i vs
  | SOptional vt _ => wf vt
  | SConst => true
  end.

(** ** conformance of a value to a spec (C01); [fr = false] drops the finiteness
    requirement on reals that have no bound on the side they could escape to *)
Fixpoint conforms_g (fr : bool) (s : spec) (v : value) {struct s} : bool :=
  match s, v with
  | SReal _ _ mn mx, VReal x =>
      (negb fr || fin x) && opt_le_f mn x && opt_ge_f mx x
  | SInt _ _ mn mx, VInt z =>
      match mn with Some a => Z.leb a z | None => true end &&
      match mx with Some b => Z.leb z b | None => true end
  | SBool _, VBool _ => true
  | SSub ms, VSub vm =>
      nodup_s (map fst vm) && Nat.eqb (length vm) (length ms) &&
      forallb (fun kv => match slookup (fst kv) vm with
                         | Some v' => conforms_g fr (snd kv) v'
                         | None => false
                         end) ms
  | SArray vt n, VArray l => Nat.eqb (length l) n && forallb (conforms_g fr vt) l
  | SAnonMap vt _ mn mx, VAnonMap m =>
      nodup_n (map fst m) &&
      match mn with Some a => Nat.leb a (length m) | None => true end &&
      match mx with Some b => Nat.leb (length m) b | None => true end &&
      forallb (fun kv => conforms_g fr vt (snd kv)) m
  | SVariant os _, VVariant name v' =>
      (fix look (l : list (string * spec)) : bool :=
         match l with
         | [] => false
         | (k, s') :: r => if String.eqb name k then conforms_g fr s' v' else look r
         end) os
  | SEnum vs _, VEnum name => mem_s name vs
  | SOptional vt _, VOptional o => match o with Some v' => conforms_g fr vt v' | None => true end
  | SConst, VConst => true
  | _, _ => false
  end.
Definition conforms := conforms_g true.

(** all real leaves are finite *)
Fixpoint reals_finite (v : value) : bool :=
  match v with
  | VReal x => fin x
  | VSub m => forallb (fun kv => reals_finite (snd kv)) m
  | VArray l => forallb reals_finite l
  | VAnonMap m => forallb (fun kv => reals_finite (snd kv)) m
  | VVariant _ v' => reals_finite v'
  | VOptional (Some v') => reals_finite v'
  | _ => true
  end.

(** ** decidable equality on values (bitwise on reals, order-sensitive on maps:
    the harness prints maps sorted by key) *)
Fixpoint veqb (a b : value) : bool :=
  match a, b with
  | VReal x, VReal y => fbits_eq x y
  | VInt x, VInt y => Z.eqb x y
  | VBool x, VBool y => Bool.eqb x y
  | VSub m1, VSub m2 =>
      (fix go (l1 l2 : list (string * value)) : bool :=
         match l1, l2 with
         | [], [] => true
         | (k1, v1) :: r1, (k2, v2) :: r2 => String.eqb k1 k2 && veqb v1 v2 && go r1 r2
         | _, _ => false
         end) m1 m2
  | VArray l1, VArray l2 =>
      (fix go (l1 l2 : list value) : bool :=
         match l1, l2 with
         | [], [] => true
         | v1 :: r1, v2 :: r2 => veqb v1 v2 && go r1 r2
         | _, _ => false
         end) l1 l2
  | VAnonMap m1, VAnonMap m2 =>
      (fix go (l1 l2 : list (N * value)) : bool :=
         match l1, l2 with
         | [], [] => true
         | (k1, v1) :: r1, (k2, v2) :: r2 => N.eqb k1 k2 && veqb v1 v2 && go r1 r2
         | _, _ => false
         end) m1 m2
  | VVariant n1 v1, VVariant n2 v2 => String.eqb n1 n2 && veqb v1 v2
  | VEnum n1, VEnum n2 => String.eqb n1 n2
  | VOptional None, VOptional None => true
  | VOptional (Some v1), VOptional (Some v2) => veqb v1 v2
  | VConst, VConst => true
  | _, _ => false
  end.
