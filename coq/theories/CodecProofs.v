(** * CodecProofs: a decoded guess conforms to the spec (C11, C01 base case). *)
From Coq Require Import String Ascii.
From Coq Require Import List Arith ZArith NArith Bool Lia.
From Flocq Require Import IEEE754.BinarySingleNaN.
From Cambrian Require Import Base.F64 Base.F64Proofs SourceFacts Syntax SpecBuild SpecProofs Codec.
Import ListNotations.
Local Open Scope string_scope.

(** what serde_json guarantees of a [Value]: floats are finite, integers fit u64/i64 (so their
    f64 image is finite) *)
Fixpoint json_ok (j : json) : bool :=
  match j with
  | JFloat x => fin x
  | JInt z => fin (f64_of_Z z)
  | JArr l => forallb json_ok l
  | JObj m => forallb (fun kv => json_ok (snd kv)) m
  | _ => true
  end.

Lemma jbind_ok {A B} (r : jres A) (f : A -> jres B) b :
  jbind r f = JOk b -> exists a, r = JOk a /\ f a = JOk b.
Proof. destruct r; cbn; [eauto | discriminate | discriminate]. Qed.

Ltac jok H :=
  let a := fresh "a" in let Ha := fresh "Ha" in
  apply jbind_ok in H; destruct H as (a & Ha & H).

Example guess_checks_present : guess_array_length_checked = true /\ guess_map_size_checked = true.
Proof. split; reflexivity. Qed.

Lemma slookup_json_ok k m j : forallb (fun kv => json_ok (snd kv)) m = true -> slookup k m = Some j -> json_ok j = true.
Proof.
  induction m as [|[k' j'] m IH]; cbn; intros H1 H2; [discriminate|].
  apply andb_prop in H1. destruct H1 as [A B]. destruct (String.eqb k k'); [inversion H2; subst; exact A | eauto].
Qed.

(** *** list loops *)
Lemma arr_loop_spec (f : json -> jres value) (P : value -> bool) :
  forall l vs, (forall x v, In x l -> f x = JOk v -> P v = true) ->
    arr_loop f l = JOk vs -> length vs = length l /\ forallb P vs = true.
Proof.
  induction l as [|x r IH]; intros vs Hf H; cbn [arr_loop] in H; [inversion H; subst; auto|].
  jok H. jok H. inversion H; subst. destruct (IH a0) as [L F]; [intros; eapply Hf; eauto; right; assumption | exact Ha0 |].
  cbn. rewrite L, F, (Hf x a); auto. left; reflexivity.
Qed.

Lemma idx_loop_spec (f : json -> jres value) (P : value -> bool) :
  forall l i m, (forall x v, In x l -> f x = JOk v -> P v = true) ->
    idx_loop f l i = JOk m ->
    length m = length l /\ forallb (fun kv => P (snd kv)) m = true /\
    map fst m = map (fun k => (i + N.of_nat k)%N) (seq 0 (length l)).
Proof.
  induction l as [|x r IH]; intros i m Hf H; cbn [idx_loop] in H; [inversion H; subst; auto|].
  jok H. jok H. inversion H; subst.
  destruct (IH (i + 1)%N a0) as (L & F & K); [intros; eapply Hf; eauto; right; assumption | exact Ha0 |].
  cbn [length map fst snd forallb seq]. rewrite L, F, (Hf x a); auto; [|left; reflexivity].
  repeat split; auto. rewrite K. f_equal; [lia|]. rewrite <- seq_shift, map_map. apply map_ext. intros; lia.
Qed.

Lemma nset_keys {A} (m : list (N * A)) k a :
  map fst (nset m k a) = if mem_n k (map fst m) then map fst m else (map fst m ++ [k])%list.
Proof.
  induction m as [|[k' a'] m IH]; cbn [nset map fst mem_n existsb app]; [reflexivity|].
  destruct (N.eqb k k') eqn:E; cbn [map fst orb].
  - apply N.eqb_eq in E. subst. reflexivity.
  - rewrite IH. unfold mem_n. destruct (existsb (N.eqb k) (map fst m)); reflexivity.
Qed.

Lemma nodup_n_snoc l k : nodup_n l = true -> mem_n k l = false -> nodup_n (l ++ [k])%list = true.
Proof.
  induction l as [|a l IH]; cbn; intros H1 H2; [reflexivity|].
  apply andb_prop in H1. destruct H1 as [A B]. apply orb_false_iff in H2. destruct H2 as [C D].
  rewrite IH by assumption. rewrite andb_true_r. apply negb_true_iff in A. apply negb_true_iff.
  rewrite existsb_app. cbn. rewrite A. cbn. rewrite orb_false_r. rewrite N.eqb_sym. exact C.
Qed.

Lemma nset_nodup {A} (m : list (N * A)) k a : nodup_n (map fst m) = true -> nodup_n (map fst (nset m k a)) = true.
Proof.
  intros H. rewrite nset_keys. destruct (mem_n k (map fst m)) eqn:E; [exact H | apply nodup_n_snoc; assumption].
Qed.

Lemma nset_forall {A} (P : A -> bool) (m : list (N * A)) k a :
  forallb (fun kv => P (snd kv)) m = true -> P a = true -> forallb (fun kv => P (snd kv)) (nset m k a) = true.
Proof.
  induction m as [|[k' a'] m IH]; cbn; intros H1 H2; [rewrite H2; reflexivity|].
  apply andb_prop in H1. destruct H1 as [A0 B]. destruct (N.eqb k k'); cbn; [rewrite H2, B; reflexivity | rewrite A0, IH; auto].
Qed.

Lemma obj_loop_spec (f : json -> jres value) (P : value -> bool) :
  forall l acc m, (forall k x v, In (k, x) l -> f x = JOk v -> P v = true) ->
    nodup_n (map fst acc) = true -> forallb (fun kv => P (snd kv)) acc = true ->
    obj_loop f l acc = JOk m ->
    nodup_n (map fst m) = true /\ forallb (fun kv => P (snd kv)) m = true.
Proof.
  induction l as [|[ks x] r IH]; intros acc m Hf N F H; cbn [obj_loop] in H; [inversion H; subst; auto|].
  destruct (parse_usize ks) as [k|]; [|discriminate]. jok H.
  eapply IH; [| | |exact H].
  - intros; eapply Hf; eauto. right; eassumption.
  - apply nset_nodup. exact N.
  - apply nset_forall; [exact F | eapply Hf; eauto; left; reflexivity].
Qed.

Lemma nodup_n_idx n : nodup_n (map (fun k => (0 + N.of_nat k)%N) (seq 0 n)) = true.
Proof.
  replace (map (fun k => (0 + N.of_nat k)%N) (seq 0 n)) with (map N.of_nat (seq 0 n)) by (apply map_ext; intros; lia).
  apply SpecProofs.nodup_n_seq.
Qed.

(** ** the theorem *)
Theorem decode_conforms : forall s j v,
  wf s = true -> json_ok j = true -> from_json s j = JOk v -> conforms s v = true.
Proof.
  unfold conforms. induction s using spec_ind'; intros j v W J Hd; cbn [wf] in W; cbn [from_json] in Hd.
  - (* real *)
    repeat (apply andb_prop in W; destruct W as [W ?]).
    assert (G : forall x, j_as_f64 j = Some x -> fin x = true).
    { intros x E. destruct j; cbn in E; try discriminate; inversion E; subst; exact J. }
    destruct j; lazy iota beta in Hd; try discriminate;
      (destruct (j_as_f64 _) as [y|] eqn:E; [|discriminate]; specialize (G y eq_refl);
       destruct (_ || _) eqn:Eb; [discriminate|]; inversion Hd; subst; apply orb_false_iff in Eb; destruct Eb as [E1 E2];
       cbn [conforms_g]; rewrite G; cbn [negb orb andb];
       apply andb_true_intro; split;
       [destruct mn as [a|]; cbn in *; [apply flt_false_fle; auto | reflexivity]
       |destruct mx as [b|]; cbn in *; [apply flt_false_fle; auto | reflexivity]]).
  - (* int *)
    destruct j; lazy iota beta in Hd; try discriminate;
      (destruct (j_as_i64 _) as [z'|] eqn:E; [|discriminate];
       destruct (_ || _) eqn:Eb; [discriminate|]; inversion Hd; subst; apply orb_false_iff in Eb; destruct Eb as [E1 E2];
       cbn [conforms_g]; apply andb_true_intro; split;
       [destruct mn as [a|]; [apply Z.leb_le; apply Z.ltb_ge in E1; lia | reflexivity]
       |destruct mx as [b'|]; [apply Z.leb_le; apply Z.ltb_ge in E2; lia | reflexivity]]).
  - destruct j; lazy iota beta in Hd; try discriminate. inversion Hd; subst. reflexivity.
  - (* sub *)
    destruct j; lazy iota beta in Hd; try discriminate. destruct (negb (forallb _ m)); [discriminate|]. jok Hd. inversion Hd; subst. clear Hd.
    apply andb_prop in W. destruct W as [W W3]. apply andb_prop in W. destruct W as [W1 W2].
    cbn [json_ok] in J.
    assert (G : forall l vs,
               Forall (fun kv : string * spec => forall j v, wf (snd kv) = true -> json_ok j = true -> from_json (snd kv) j = JOk v -> conforms_g true (snd kv) v = true) l ->
               forallb (fun kv => wf (snd kv)) l = true ->
               (fix go (l : list (string * spec)) : jres (list (string * value)) :=
                  match l with
                  | [] => JOk []
                  | (k, cs) :: r =>
                      match slookup k m with
                      | None => JErr JMandatoryValueMissing
                      | Some cj => jbind (from_json cs cj) (fun v => jbind (go r) (fun t => JOk ((k, v) :: t)))
                      end
                  end) l = JOk vs ->
               map fst vs = map fst l /\
               Forall2 (fun kv kv' => conforms_g true (snd kv) (snd kv') = true) l vs).
    { induction l as [|[k cs] r IHr]; intros vs HF HW Hg; [inversion Hg; subst; split; [reflexivity|constructor]|].
      destruct (slookup k m) as [cj|] eqn:El; [|discriminate]. jok Hg. jok Hg. inversion Hg; subst.
      inversion HF; subst. cbn in HW. apply andb_prop in HW. destruct HW as [HW1 HW2].
      destruct (IHr a1 H3 HW2 Ha1) as [K F2]. split; [cbn; rewrite K; reflexivity|].
      constructor; [|exact F2]. cbn. apply (H2 cj); auto. eapply slookup_json_ok; eauto. }
    destruct (G ms a H W3 Ha) as [K F2].
    cbn [conforms_g]. rewrite K, W2. rewrite <- (map_length fst a), K, map_length, Nat.eqb_refl. cbn [andb].
    (* every member is found under its key *)
    clear G Ha. revert a K F2.
    assert (L : forall (l : list (string * spec)) (a : list (string * value)),
               nodup_s (map fst l) = true -> map fst a = map fst l ->
               Forall2 (fun kv kv' => conforms_g true (snd kv) (snd kv') = true) l a ->
               forall k cs, In (k, cs) l -> exists v, slookup k a = Some v /\ conforms_g true cs v = true).
    { induction l as [|[k0 cs0] r IHr]; intros a N K F2 k cs Hin; [contradiction|].
      destruct a as [|[k1 v1] a]; [discriminate|]. cbn in K. inversion K; subst. inversion F2; subst.
      cbn in N. apply andb_prop in N. destruct N as [N1 N2]. cbn [slookup].
      destruct Hin as [Hin|Hin].
      - inversion Hin; subst. rewrite String.eqb_refl. eexists; split; [reflexivity | exact H4].
      - destruct (String.eqb k k0) eqn:E.
        + apply String.eqb_eq in E. subst. exfalso. apply negb_true_iff in N1.
          assert (Gx : existsb (String.eqb k0) (map fst r) = true).
          { apply existsb_exists. exists k0. split; [|apply String.eqb_refl]. apply in_map_iff. exists (k0, cs). auto. }
          congruence.
        + eapply IHr; eauto. }
    intros a K F2. apply forallb_forall. intros [k cs] Hin. cbn [fst snd].
    destruct (L ms a W2 K F2 k cs Hin) as (v0 & E1 & E2). rewrite E1. exact E2.
  - (* array *)
    destruct j; lazy iota beta in Hd; try discriminate. jok Hd. apply andb_prop in W. destruct W as [W1 W2].
    destruct guess_checks_present as [GA _]. rewrite GA in Hd. cbn [andb] in Hd.
    destruct (Nat.eqb (length a) n) eqn:El; [|discriminate]. cbn [negb] in Hd. inversion Hd; subst.
    cbn [json_ok] in J.
    destruct (arr_loop_spec (from_json s) (conforms_g true s) l a) as [L F]; [|exact Ha|].
    { intros x v0 Hin Hx. eapply IHs; eauto. rewrite forallb_forall in J. apply J. exact Hin. }
    cbn [conforms_g]. rewrite El, F. reflexivity.
  - (* anon map *)
    repeat (apply andb_prop in W; destruct W as [W ?]).
    destruct guess_checks_present as [_ GM].
    assert (Size : forall m0 : list (N * value),
               (if guess_map_size_checked &&
                   ((match mn with Some a => Nat.ltb (length m0) a | None => false end) ||
                    (match mx with Some b => Nat.ltb b (length m0) | None => false end))
                then JErr JMapSizeNotWithinBounds else JOk (VAnonMap m0)) = JOk v ->
               v = VAnonMap m0 /\
               (match mn with Some a => Nat.leb a (length m0) | None => true end) = true /\
               (match mx with Some b => Nat.leb (length m0) b | None => true end) = true).
    { intros m0. rewrite GM. cbn [andb]. destruct (_ || _) eqn:Eb; [discriminate|]. intros Hv. inversion Hv; subst.
      apply orb_false_iff in Eb. destruct Eb as [E1 E2]. split; [reflexivity|].
      split; [destruct mn; [apply Nat.leb_le; apply Nat.ltb_ge in E1; lia | reflexivity]
             |destruct mx; [apply Nat.leb_le; apply Nat.ltb_ge in E2; lia | reflexivity]]. }
    destruct j; lazy iota beta in Hd; try discriminate; cbn [json_ok] in J.
    + jok Hd. destruct (Size a Hd) as (-> & S1 & S2).
      destruct (idx_loop_spec (from_json s) (conforms_g true s) l 0%N a) as (L & F & K); [|exact Ha|].
      { intros x v0 Hin Hx. eapply IHs; eauto. rewrite forallb_forall in J. apply J. exact Hin. }
      cbn [conforms_g]. rewrite K, nodup_n_idx, S1, S2, F. reflexivity.
    + jok Hd. destruct (Size a Hd) as (-> & S1 & S2).
      destruct (obj_loop_spec (from_json s) (conforms_g true s) m [] a) as (N & F); [| reflexivity | reflexivity | exact Ha |].
      { intros k x v0 Hin Hx. eapply IHs; eauto. rewrite forallb_forall in J. apply (J (k, x)). exact Hin. }
      cbn [conforms_g]. rewrite N, S1, S2, F. reflexivity.
  - (* variant *)
    destruct j; lazy iota beta in Hd; try discriminate. destruct m as [|[name cj] [|]]; try discriminate.
    cbn [json_ok forallb snd] in J. rewrite andb_true_r in J.
    repeat (apply andb_prop in W; destruct W as [W ?]). rename H0 into Wall.
    assert (Shape : exists v', v = VVariant name v').
    { clear -Hd. revert Hd. induction os as [|[k cs] os IHos]; intros Hl; [discriminate|].
      destruct (String.eqb name k); [jok Hl; inversion Hl; subst; eauto | apply IHos; exact Hl]. }
    destruct Shape as [v' ->].
    revert H Wall Hd. clear W H1 H2.
    induction os as [|[k cs] os IHos]; intros HF Wall Hl; [discriminate|].
    inversion HF; subst. cbn in Wall. apply andb_prop in Wall. destruct Wall as [Wa Wb].
    cbn [conforms_g] in *. destruct (String.eqb name k) eqn:E.
    + jok Hl. inversion Hl; subst. eapply H1; eauto.
    + apply IHos; assumption.
  - (* enum *)
    destruct j; lazy iota beta in Hd; try discriminate. destruct (mem_s s vs) eqn:E; [|discriminate]. inversion Hd; subst. exact E.
  - (* optional *)
    destruct j; lazy iota beta in Hd; try (jok Hd; inversion Hd; subst; cbn [conforms_g]; eapply IHs; eauto; fail).
    inversion Hd; subst. reflexivity.
  - destruct j; lazy iota beta in Hd; try discriminate. inversion Hd; subst. reflexivity.
Qed.
