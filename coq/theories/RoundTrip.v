(** * RoundTrip: serialising a conforming value and reading it back as a guess succeeds and
    serialises to the same JSON again (C11, first sentence). *)
From Coq Require Import String Ascii.
From Coq Require Import List ZArith NArith Bool Lia.
From Flocq Require Import IEEE754.BinarySingleNaN.
From Cambrian Require Import Base.F64 Base.F64Proofs SourceFacts Syntax SpecBuild Codec CodecProofs MutProofs CrossProofs.
Import ListNotations.
Local Open Scope string_scope.

(** ** decimal keys: [parse::<usize>] reads back what [to_string] wrote *)
Lemma digit_of_ascii d : (d < 10)%N -> digit_of (ascii_of_N (48 + d)) = Some d.
Proof.
  intros H.
  assert (E : (d = 0 \/ d = 1 \/ d = 2 \/ d = 3 \/ d = 4 \/ d = 5 \/ d = 6 \/ d = 7 \/ d = 8 \/ d = 9)%N) by lia.
  repeat (destruct E as [->|E]; [vm_compute; reflexivity|]). subst. vm_compute. reflexivity.
Qed.

Lemma parse_N_digits : forall f n acc,
  (n < 10 ^ N.of_nat f)%N -> (n <= usize_max)%N ->
  parse_digits (N_digits f n acc) 0 = parse_digits acc n.
Proof.
  induction f as [|f IH]; intros n acc Hf Hm.
  - cbn in Hf. assert (n = 0%N) by lia. subst. reflexivity.
  - cbn [N_digits].
    assert (Hd : (n mod 10 < 10)%N) by (apply N.mod_lt; lia).
    assert (Hn : (n = 10 * (n / 10) + n mod 10)%N) by (apply N.div_mod; lia).
    destruct (N.eqb (n / 10) 0) eqn:E.
    + apply N.eqb_eq in E. cbn [parse_digits]. rewrite (digit_of_ascii _ Hd).
      replace (0 * 10 + n mod 10)%N with n by lia.
      destruct (N.leb n usize_max) eqn:El; [reflexivity|]. apply N.leb_gt in El. lia.
    + apply N.eqb_neq in E. rewrite IH.
      * cbn [parse_digits]. rewrite (digit_of_ascii _ Hd).
        replace (n / 10 * 10 + n mod 10)%N with n by lia.
        destruct (N.leb n usize_max) eqn:El; [reflexivity|]. apply N.leb_gt in El. lia.
      * rewrite Nat2N.inj_succ, N.pow_succ_r' in Hf. apply N.div_lt_upper_bound; lia.
      * assert (n / 10 <= n)%N by (apply N.div_le_upper_bound; lia). lia.
Qed.

Lemma N_digits_head : forall f n acc, exists c r, N_digits (S f) n acc = String c r /\ digit_of c <> None.
Proof.
  induction f as [|f IH]; intros n acc.
  - cbn [N_digits]. assert (Hd : (n mod 10 < 10)%N) by (apply N.mod_lt; lia).
    destruct (N.eqb (n / 10) 0); eexists; eexists; (split; [reflexivity|]); rewrite (digit_of_ascii _ Hd); discriminate.
  - cbn [N_digits]. assert (Hd : (n mod 10 < 10)%N) by (apply N.mod_lt; lia).
    destruct (N.eqb (n / 10) 0).
    + eexists; eexists; (split; [reflexivity|]); rewrite (digit_of_ascii _ Hd); discriminate.
    + destruct (IH (n / 10)%N (String (ascii_of_N (48 + n mod 10)) acc)) as (c & r & E & Hc).
      cbn [N_digits] in E. exists c, r. split; [exact E|exact Hc].
Qed.

Theorem parse_usize_N2s k : (k <= usize_max)%N -> parse_usize (N2s k) = Some k.
Proof.
  intros Hk. unfold N2s, parse_usize.
  destruct (N_digits_head 29 k "") as (c & r & E & Hc).
  change (N_digits 30 k "") with (N_digits (S 29) k ""). rewrite E.
  assert (Hplus : c <> "+"%char).
  { intros ->. apply Hc. vm_compute. reflexivity. }
  assert (Hbody : match String c r with String "+" r0 => r0 | _ => String c r end = String c r).
  { destruct c as [[] [] [] [] [] [] [] []]; try reflexivity. exfalso. apply Hplus. reflexivity. }
  rewrite Hbody. rewrite <- E.
  change (N_digits (S 29) k "") with (N_digits 30 k ""). rewrite E at 1. rewrite <- E.
  rewrite parse_N_digits; [reflexivity| |exact Hk].
  unfold usize_max in Hk. change (N.of_nat 30) with 30%N.
  assert (18446744073709551615 < 10 ^ 30)%N by (vm_compute; reflexivity). lia.
Qed.

Lemma N2s_inj a b : (a <= usize_max)%N -> (b <= usize_max)%N -> N2s a = N2s b -> a = b.
Proof.
  intros Ha Hb E. pose proof (parse_usize_N2s a Ha) as Pa. pose proof (parse_usize_N2s b Hb) as Pb.
  rewrite E in Pa. rewrite Pa in Pb. inversion Pb. reflexivity.
Qed.

(** ** the side condition the Rust types impose: integers are i64, map keys are usize *)
Fixpoint in_range (v : value) : bool :=
  match v with
  | VInt z => Z.leb i64_min z && Z.leb z i64_max
  | VSub m => forallb (fun kv => in_range (snd kv)) m
  | VArray l => forallb in_range l
  | VAnonMap m => forallb (fun kv => N.leb (fst kv) usize_max && in_range (snd kv)) m
  | VVariant _ x => in_range x
  | VOptional (Some x) => in_range x
  | _ => true
  end.

(** ** equality of JSON documents, objects compared as maps *)
Fixpoint jeq (a b : json) {struct a} : bool :=
  match a, b with
  | JNull, JNull => true
  | JBool x, JBool y => Bool.eqb x y
  | JInt x, JInt y => Z.eqb x y
  | JFloat x, JFloat y => fbits_eq x y
  | JStr x, JStr y => String.eqb x y
  | JArr l, JArr l' =>
      (fix go (l l' : list json) : bool :=
         match l, l' with [], [] => true | x :: r, y :: r' => jeq x y && go r r' | _, _ => false end) l l'
  | JObj m, JObj m' =>
      Nat.eqb (length m) (length m') && nodup_s (map fst m') &&
      (fix go (l : list (string * json)) : bool :=
         match l with [] => true | (k, x) :: r => match slookup k m' with Some y => jeq x y && go r | None => false end end) m
  | _, _ => false
  end.

Definition jeq_list (l l' : list json) : bool :=
  (fix go (l l' : list json) : bool :=
     match l, l' with [], [] => true | x :: r, y :: r' => jeq x y && go r r' | _, _ => false end) l l'.
Definition jeq_members (m' : list (string * json)) (m : list (string * json)) : bool :=
  (fix go (l : list (string * json)) : bool :=
     match l with [] => true | (k, x) :: r => match slookup k m' with Some y => jeq x y && go r | None => false end end) m.

Lemma jeq_arr l l' : jeq (JArr l) (JArr l') = jeq_list l l'.  Proof. reflexivity. Qed.
Lemma jeq_obj m m' : jeq (JObj m) (JObj m') = Nat.eqb (length m) (length m') && nodup_s (map fst m') && jeq_members m' m.
Proof. reflexivity. Qed.

Lemma jeq_list_forall2 l l' : Forall2 (fun x y => jeq x y = true) l l' -> jeq_list l l' = true.
Proof. induction 1 as [|x y l l' Hxy _ IH]; [reflexivity|]. cbn. rewrite Hxy. exact IH. Qed.

Lemma jeq_members_spec m' m :
  (forall k x, In (k, x) m -> exists y, slookup k m' = Some y /\ jeq x y = true) -> jeq_members m' m = true.
Proof.
  induction m as [|[k x] r IH]; intros H; [reflexivity|]. cbn.
  destruct (H k x (or_introl eq_refl)) as (y & Hy & Hj). rewrite Hy, Hj. cbn.
  apply IH. intros k0 x0 Hin. apply H. right. exact Hin.
Qed.

(** ** the loops of [to_json], named *)
Definition sub_to (l : list (string * value)) : jres (list (string * json)) :=
  (fix go (l : list (string * value)) : jres (list (string * json)) :=
     match l with
     | [] => JOk []
     | (k, x) :: r => jbind (to_json x) (fun j => jbind (go r) (fun t => JOk ((k, j) :: t)))
     end) l.
Definition arr_to (l : list value) : jres (list json) :=
  (fix go (l : list value) : jres (list json) :=
     match l with
     | [] => JOk []
     | x :: r => jbind (to_json x) (fun j => jbind (go r) (fun t => JOk (j :: t)))
     end) l.
Definition map_to (l : list (N * value)) : jres (list (string * json)) :=
  (fix go (l : list (N * value)) : jres (list (string * json)) :=
     match l with
     | [] => JOk []
     | (k, x) :: r => jbind (to_json x) (fun j => jbind (go r) (fun t => JOk ((N2s k, j) :: t)))
     end) l.

Lemma to_json_sub m : to_json (VSub m) = jbind (sub_to m) (fun l => JOk (JObj l)).  Proof. reflexivity. Qed.
Lemma to_json_arr l : to_json (VArray l) = jbind (arr_to l) (fun l => JOk (JArr l)).  Proof. reflexivity. Qed.
Lemma to_json_map m : to_json (VAnonMap m) = jbind (map_to m) (fun l => JOk (JObj l)).  Proof. reflexivity. Qed.

Lemma sub_to_cons k x r :
  sub_to ((k, x) :: r) = jbind (to_json x) (fun j => jbind (sub_to r) (fun t => JOk ((k, j) :: t))).
Proof. reflexivity. Qed.
Lemma arr_to_cons x r : arr_to (x :: r) = jbind (to_json x) (fun j => jbind (arr_to r) (fun t => JOk (j :: t))).
Proof. reflexivity. Qed.
Lemma map_to_cons k x r :
  map_to ((k, x) :: r) = jbind (to_json x) (fun j => jbind (map_to r) (fun t => JOk ((N2s k, j) :: t))).
Proof. reflexivity. Qed.

Lemma sub_to_spec : forall l jl, sub_to l = JOk jl ->
  Forall2 (fun kx kj => fst kx = fst kj /\ to_json (snd kx) = JOk (snd kj)) l jl.
Proof.
  induction l as [|[k x] r IH]; intros jl H; [inversion H; constructor|]. rewrite sub_to_cons in H.
  jok H. jok H. inversion H; subst. constructor; [split; [reflexivity|exact Ha]|]. apply IH. exact Ha0.
Qed.
Lemma arr_to_spec : forall l jl, arr_to l = JOk jl -> Forall2 (fun x j => to_json x = JOk j) l jl.
Proof.
  induction l as [|x r IH]; intros jl H; [inversion H; constructor|]. rewrite arr_to_cons in H.
  jok H. jok H. inversion H; subst. constructor; [exact Ha|]. apply IH. exact Ha0.
Qed.
Lemma map_to_spec : forall l jl, map_to l = JOk jl ->
  Forall2 (fun kx kj => N2s (fst kx) = fst kj /\ to_json (snd kx) = JOk (snd kj)) l jl.
Proof.
  induction l as [|[k x] r IH]; intros jl H; [inversion H; constructor|]. rewrite map_to_cons in H.
  jok H. jok H. inversion H; subst. constructor; [split; [reflexivity|exact Ha]|]. apply IH. exact Ha0.
Qed.

(** building the second serialisation from elementwise facts *)
Lemma sub_to_build : forall (vs : list (string * value)) (js : list (string * json)),
  Forall2 (fun kx kj => fst kx = fst kj /\ to_json (snd kx) = JOk (snd kj)) vs js -> sub_to vs = JOk js.
Proof.
  induction 1 as [|[k x] [k' j] vs js [Hk Hj] _ IH]; [reflexivity|]. cbn [fst snd] in *. subst k'.
  rewrite sub_to_cons, Hj. cbn. rewrite IH. reflexivity.
Qed.
Lemma arr_to_build : forall (vs : list value) (js : list json),
  Forall2 (fun x j => to_json x = JOk j) vs js -> arr_to vs = JOk js.
Proof.
  induction 1 as [|x j vs js Hj _ IH]; [reflexivity|].
  rewrite arr_to_cons, Hj. cbn. rewrite IH. reflexivity.
Qed.
Lemma map_to_build : forall (vs : list (N * value)) (js : list (string * json)),
  Forall2 (fun kx kj => N2s (fst kx) = fst kj /\ to_json (snd kx) = JOk (snd kj)) vs js -> map_to vs = JOk js.
Proof.
  induction 1 as [|[k x] [k' j] vs js [Hk Hj] _ IH]; [reflexivity|]. cbn [fst snd] in *. subst k'.
  rewrite map_to_cons, Hj. cbn. rewrite IH. reflexivity.
Qed.

(** association lists *)
Lemma slookup_In {A} k (m : list (string * A)) a : slookup k m = Some a -> In (k, a) m.
Proof.
  induction m as [|[k' a'] r IH]; cbn; [discriminate|]. destruct (String.eqb k k') eqn:E.
  - intros H. inversion H; subst. apply String.eqb_eq in E. subst. left. reflexivity.
  - intros H. right. apply IH. exact H.
Qed.
Lemma slookup_nodup_In {A} k (a : A) (m : list (string * A)) :
  nodup_s (map fst m) = true -> In (k, a) m -> slookup k m = Some a.
Proof.
  induction m as [|[k' a'] r IH]; cbn; intros N H; [contradiction|].
  apply andb_prop in N. destruct N as [N1 N2]. destruct H as [H|H].
  - inversion H; subst. rewrite String.eqb_refl. reflexivity.
  - destruct (String.eqb k k') eqn:E.
    + apply String.eqb_eq in E. subst. exfalso. apply negb_true_iff in N1.
      assert (G : existsb (String.eqb k') (map fst r) = true).
      { apply existsb_exists. exists k'. split; [|apply String.eqb_refl]. apply in_map_iff. exists (k', a). auto. }
      congruence.
    + apply IH; assumption.
Qed.

Lemma forall2_keys {A B} (R : A -> B -> Prop) (l : list (string * A)) (l' : list (string * B)) :
  Forall2 (fun a b => fst a = fst b /\ R (snd a) (snd b)) l l' -> map fst l = map fst l'.
Proof. induction 1 as [|[k a] [k' b] l l' [Hk _] _ IH]; [reflexivity|]. cbn in *. subst. rewrite IH. reflexivity. Qed.

Lemma forall2_lookup {A B} (R : A -> B -> Prop) : forall (l : list (string * A)) (l' : list (string * B)),
  Forall2 (fun a b => fst a = fst b /\ R (snd a) (snd b)) l l' ->
  forall k a, slookup k l = Some a -> exists b, slookup k l' = Some b /\ R a b.
Proof.
  induction 1 as [|[k0 a0] [k1 b0] l l' [Hk Hr] _ IH]; intros k a H; [discriminate|]. cbn in *. subst k1.
  destruct (String.eqb k k0); [inversion H; subst; eauto|]. apply IH. exact H.
Qed.

(** ** floats *)
Lemma fle_flt_false a x : fin a = true -> fin x = true -> fle a x = true -> flt x a = false.
Proof.
  intros Fa Fx H. unfold fle, flt, Bleb, Bltb, SpecFloat.SFleb, SpecFloat.SFltb in *.
  fold (Bcompare a x) in H. fold (Bcompare x a).
  rewrite (bcompare_fin a x Fa Fx) in H. rewrite (bcompare_fin x a Fx Fa).
  destruct (Raux.Rcompare_spec (B2R a) (B2R x)); try discriminate;
  destruct (Raux.Rcompare_spec (B2R x) (B2R a)); try reflexivity; exfalso; Lra.lra.
Qed.

Lemma jeq_refl_float x : jeq (JFloat x) (JFloat x) = true.  Proof. cbn. apply fbits_eq_refl. Qed.

(** [nset] appends when the key is new *)
Lemma nset_fresh {A} (acc : list (N * A)) k a : mem_n k (map fst acc) = false -> nset acc k a = (acc ++ [(k, a)])%list.
Proof.
  induction acc as [|[k' a'] r IH]; cbn; intros H; [reflexivity|].
  apply orb_false_iff in H. destruct H as [H1 H2]. rewrite H1. rewrite IH by exact H2. reflexivity.
Qed.

(** ** the theorem *)
Definition RT (s : spec) : Prop :=
  forall v j, wf s = true -> conforms_g true s v = true -> in_range v = true -> to_json v = JOk j ->
    exists v' j', from_json s j = JOk v' /\ to_json v' = JOk j' /\ jeq j j' = true.

(** arrays *)
Lemma rt_array (vt : spec) : RT vt -> wf vt = true ->
  forall l jl, forallb (conforms_g true vt) l = true -> forallb in_range l = true ->
    Forall2 (fun x j => to_json x = JOk j) l jl ->
    exists vs js, arr_loop (from_json vt) jl = JOk vs /\ Forall2 (fun x j => to_json x = JOk j) vs js /\
                  Forall2 (fun a b => jeq a b = true) jl js /\ length vs = length l.
Proof.
  intros IH W l jl Hc Hr HF. induction HF as [|x jx l jl Hx _ IHl].
  - exists [], []. repeat split; constructor.
  - cbn in Hc, Hr. apply andb_prop in Hc. destruct Hc as [Hc1 Hc2]. apply andb_prop in Hr. destruct Hr as [Hr1 Hr2].
    destruct (IH x jx W Hc1 Hr1 Hx) as (x' & j' & D & T' & E).
    destruct (IHl Hc2 Hr2) as (vs & js & L & F1 & F2 & Len).
    exists (x' :: vs), (j' :: js). cbn [arr_loop]. rewrite D. cbn. rewrite L. cbn.
    repeat split; try (constructor; assumption). cbn. rewrite Len. reflexivity.
Qed.

(** resizable maps (object encoding) *)
Lemma rt_map (vt : spec) : RT vt -> wf vt = true ->
  forall m jm, forallb (fun kv => conforms_g true vt (snd kv)) m = true ->
    forallb (fun kv => N.leb (fst kv) usize_max && in_range (snd kv)) m = true ->
    nodup_n (map fst m) = true ->
    Forall2 (fun kx kj => N2s (fst kx) = fst kj /\ to_json (snd kx) = JOk (snd kj)) m jm ->
    forall acc, (forall k, In k (map fst m) -> mem_n k (map fst acc) = false) ->
    exists m' js, obj_loop (from_json vt) jm acc = JOk (acc ++ m')%list /\ map fst m' = map fst m /\
                  Forall2 (fun kx kj => N2s (fst kx) = fst kj /\ to_json (snd kx) = JOk (snd kj)) m' js /\
                  Forall2 (fun a b => fst a = fst b /\ jeq (snd a) (snd b) = true) jm js.
Proof.
  intros IH W m jm Hc Hr Hn HF. induction HF as [|[k x] [ks jx] m jm [Hk Hx] _ IHm]; intros acc Hacc.
  - exists [], []. rewrite app_nil_r. repeat split; constructor.
  - cbn [fst snd] in *. subst ks.
    cbn in Hc, Hr, Hn. apply andb_prop in Hc. destruct Hc as [Hc1 Hc2]. apply andb_prop in Hr. destruct Hr as [Hr1 Hr2].
    apply andb_prop in Hr1. destruct Hr1 as [Hk1 Hr1]. apply N.leb_le in Hk1.
    apply andb_prop in Hn. destruct Hn as [Hn1 Hn2].
    destruct (IH x jx W Hc1 Hr1 Hx) as (x' & j' & D & T' & E).
    cbn [obj_loop]. rewrite (parse_usize_N2s k Hk1). rewrite D. cbn [jbind].
    rewrite nset_fresh by (apply Hacc; left; reflexivity).
    destruct (IHm Hc2 Hr2 Hn2 (acc ++ [(k, x')])%list) as (m' & js & L & K & F1 & F2).
    { intros k0 Hk0. rewrite map_app. unfold mem_n. rewrite existsb_app. cbn.
      rewrite orb_false_r. apply orb_false_iff. split; [apply Hacc; right; exact Hk0|].
      destruct (N.eqb k0 k) eqn:E0; [|reflexivity]. apply N.eqb_eq in E0. subst k0.
      apply negb_true_iff in Hn1. apply mem_n_In in Hk0. unfold mem_n in Hk0. congruence. }
    exists ((k, x') :: m'), ((N2s k, j') :: js). rewrite L. rewrite <- app_assoc. cbn [app].
    repeat split.
    + cbn. rewrite K. reflexivity.
    + constructor; [split; [reflexivity|exact T']|exact F1].
    + constructor; [split; [reflexivity|exact E]|exact F2].
Qed.

(** named sub-structures: the member loop of [from_json] over the spec's members *)
Lemma rt_sub (jm : list (string * json)) : forall (l : list (string * spec)),
  Forall (fun kv => RT (snd kv)) l -> forallb (fun kv => wf (snd kv)) l = true ->
  (forall k cs, In (k, cs) l -> exists x cj, slookup k jm = Some cj /\ to_json x = JOk cj /\
                                           conforms_g true cs x = true /\ in_range x = true) ->
  exists vs js,
    (fix go (l : list (string * spec)) : jres (list (string * value)) :=
       match l with
       | [] => JOk []
       | (k, cs) :: r =>
           match slookup k jm with
           | None => JErr JMandatoryValueMissing
           | Some cj => jbind (from_json cs cj) (fun v => jbind (go r) (fun t => JOk ((k, v) :: t)))
           end
       end) l = JOk vs /\
    Forall2 (fun kx kj => fst kx = fst kj /\ to_json (snd kx) = JOk (snd kj)) vs js /\
    map fst js = map fst l /\
    (forall k y, In (k, y) js -> exists cj, slookup k jm = Some cj /\ jeq cj y = true).
Proof.
  induction l as [|[k cs] r IHr]; intros HF HW Hm.
  - exists [], []. repeat split; try constructor. intros k y [].
  - inversion HF as [|? ? Hh Ht]; subst. cbn [snd] in Hh. cbn in HW. apply andb_prop in HW. destruct HW as [W1 W2].
    destruct (Hm k cs (or_introl eq_refl)) as (x & cj & Hl & Hx & Hc & Hr).
    destruct (Hh x cj W1 Hc Hr Hx) as (x' & j' & D & T' & E).
    destruct (IHr Ht W2) as (vs & js & G & F1 & K & F2).
    { intros k0 cs0 Hin. apply Hm. right. exact Hin. }
    exists ((k, x') :: vs), ((k, j') :: js). rewrite Hl, D. cbn [jbind]. rewrite G. cbn [jbind].
    repeat split.
    + constructor; [split; [reflexivity|exact T']|exact F1].
    + cbn. rewrite K. reflexivity.
    + intros k0 y [Hin|Hin]; [inversion Hin; subst; exists cj; split; assumption | apply F2; exact Hin].
Qed.

Lemma mem_s_false_notin k l : mem_s k l = false -> ~ In k l.
Proof. intros H Hin. apply mem_s_In in Hin. congruence. Qed.

(** distinct keys print to distinct strings *)
Lemma map_key_of_text (m : list (N * value)) (jm : list (string * json)) :
  Forall2 (fun kx kj => N2s (fst kx) = fst kj /\ to_json (snd kx) = JOk (snd kj)) m jm ->
  forallb (fun kv => N.leb (fst kv) usize_max && in_range (snd kv)) m = true ->
  forall s, In s (map fst jm) -> exists k0, In k0 (map fst m) /\ (k0 <= usize_max)%N /\ N2s k0 = s.
Proof.
  induction 1 as [|[k1 x1] [ks1 j1] m jm [Hk1 _] _ IH]; intros R s Hin; [destruct Hin|].
  cbn [fst snd] in *. subst ks1. cbn [forallb fst snd] in R. apply andb_prop in R. destruct R as [R1 R2].
  apply andb_prop in R1. destruct R1 as [Hle _]. apply N.leb_le in Hle.
  cbn [map fst] in Hin. destruct Hin as [Hin|Hin].
  - exists k1. split; [left; reflexivity|]. split; [exact Hle|exact Hin].
  - destruct (IH R2 s Hin) as (k0 & H0 & H1 & H2). exists k0. split; [right; exact H0|auto].
Qed.

Lemma map_text_nodup (m : list (N * value)) (jm : list (string * json)) :
  Forall2 (fun kx kj => N2s (fst kx) = fst kj /\ to_json (snd kx) = JOk (snd kj)) m jm ->
  nodup_n (map fst m) = true ->
  forallb (fun kv => N.leb (fst kv) usize_max && in_range (snd kv)) m = true ->
  nodup_s (map fst jm) = true.
Proof.
  induction 1 as [|[k x] [ks jx] m jm [Hk _] HF IHm]; intros C1 R; [reflexivity|].
  cbn [fst snd] in *. subst ks. cbn [map fst nodup_n] in C1. cbn [forallb fst snd] in R.
  apply andb_prop in C1. destruct C1 as [N1 N2]. apply andb_prop in R. destruct R as [R1 R2].
  apply andb_prop in R1. destruct R1 as [Hk1 _]. apply N.leb_le in Hk1.
  cbn [map fst nodup_s]. rewrite (IHm N2 R2), andb_true_r. apply negb_true_iff.
  destruct (existsb (String.eqb (N2s k)) (map fst jm)) eqn:E; [|reflexivity]. exfalso.
  apply existsb_exists in E. destruct E as (s0 & Hin & He). apply String.eqb_eq in He. subst s0.
  destruct (map_key_of_text m jm HF R2 _ Hin) as (k0 & H0 & H1 & H2). apply N2s_inj in H2; auto. subst k0.
  apply negb_true_iff in N1. apply mem_n_In in H0. unfold mem_n in H0. congruence.
Qed.

Theorem roundtrip : forall s, RT s.
Proof.
  induction s using spec_ind'; intros v j W C R T;
    destruct v as [x|z|bb|vm|l|m|name x|name|o|]; cbn [conforms_g] in C; try discriminate.
  - (* real *)
    cbn [wf] in W. repeat (apply andb_prop in W; destruct W as [W ?]).
    apply andb_prop in C. destruct C as [C C3]. apply andb_prop in C. destruct C as [C1 C2]. cbn [negb orb] in C1.
    cbn [to_json] in T. rewrite C1 in T. inversion T; subst j. clear T.
    exists (VReal x), (JFloat x). cbn [from_json j_as_f64].
    assert (B1 : match mn with Some a => flt x a | None => false end = false).
    { destruct mn as [a|]; [|reflexivity]. cbn in C2. apply fle_flt_false; auto. }
    assert (B2 : match mx with Some b => flt b x | None => false end = false).
    { destruct mx as [b|]; [|reflexivity]. cbn in C3. apply fle_flt_false; auto. }
    rewrite B1, B2. cbn [orb to_json]. rewrite C1. repeat split. apply jeq_refl_float.
  - (* int *)
    apply andb_prop in C. destruct C as [C1 C2]. cbn [in_range] in R.
    cbn [to_json] in T. inversion T; subst j. clear T.
    exists (VInt z), (JInt z). cbn [from_json j_as_i64]. rewrite R.
    assert (B1 : match mn with Some a => Z.ltb z a | None => false end = false).
    { destruct mn as [a|]; [|reflexivity]. apply Z.ltb_ge. apply Z.leb_le in C1. exact C1. }
    assert (B2 : match mx with Some b => Z.ltb b z | None => false end = false).
    { destruct mx as [b|]; [|reflexivity]. apply Z.ltb_ge. apply Z.leb_le in C2. exact C2. }
    rewrite B1, B2. cbn. rewrite Z.eqb_refl. repeat split.
  - (* bool *)
    cbn [to_json] in T. inversion T; subst j. exists (VBool bb), (JBool bb). cbn. rewrite eqb_reflx. repeat split.
  - (* sub *)
    rewrite to_json_sub in T. jok T. inversion T; subst j. clear T. rename a into jm.
    pose proof (sub_to_spec _ _ Ha) as F. clear Ha.
    cbn [wf] in W. apply andb_prop in W. destruct W as [W W3]. apply andb_prop in W. destruct W as [_ W2].
    apply andb_prop in C. destruct C as [C C3]. apply andb_prop in C. destruct C as [C1 C2]. apply Nat.eqb_eq in C2.
    cbn [in_range] in R. rewrite forallb_forall in R, C3.
    pose proof (forall2_keys (fun x j => to_json x = JOk j) _ _ F) as Kj.
    (* every member is present in the document *)
    assert (Hm : forall k cs, In (k, cs) ms -> exists x cj, slookup k jm = Some cj /\ to_json x = JOk cj /\
                                                        conforms_g true cs x = true /\ in_range x = true).
    { intros k cs Hin. specialize (C3 (k, cs) Hin). cbn [fst snd] in C3.
      destruct (slookup k vm) as [x|] eqn:El; [|discriminate].
      destruct (forall2_lookup (fun x j => to_json x = JOk j) _ _ F k x El) as (cj & Hcj & Hx).
      exists x, cj. repeat split; auto. apply (R (k, x)). apply slookup_In. exact El. }
    (* the document's keys are exactly the members *)
    assert (Hkeys : incl (map fst vm) (map fst ms)).
    { apply (NoDup_length_incl (l := map fst ms) (l' := map fst vm) (nodup_s_NoDup _ W2)).
      - rewrite !map_length. lia.
      - intros k Hk. apply in_keys_entry in Hk. destruct Hk as [cs Hk]. specialize (C3 (k, cs) Hk). cbn [fst snd] in C3.
        destruct (slookup k vm) as [x|] eqn:El; [|discriminate]. eapply slookup_in_keys; eauto. }
    destruct (rt_sub jm ms H W3 Hm) as (vs & js & G & F1 & K & F2).
    exists (VSub vs), (JObj js). cbn [from_json].
    assert (Hun : forallb (fun kv : string * json => mem_s (fst kv) (map fst ms)) jm = true).
    { apply forallb_forall. intros [k cj] Hin. cbn [fst]. apply mem_s_In. apply Hkeys. rewrite Kj.
      apply in_map_iff. exists (k, cj). split; [reflexivity|exact Hin]. }
    rewrite Hun. cbn [negb]. rewrite G. cbn [jbind].
    rewrite to_json_sub, (sub_to_build _ _ F1). cbn [jbind].
    split; [reflexivity|]. split; [reflexivity|].
    rewrite jeq_obj.
    assert (L1 : length jm = length js).
    { rewrite <- (map_length fst jm), <- Kj, map_length, C2, <- (map_length fst ms), <- K, map_length. reflexivity. }
    rewrite L1, Nat.eqb_refl, K, W2. cbn [andb].
    apply jeq_members_spec. intros k cj Hin.
    assert (Hk : In k (map fst ms)).
    { apply Hkeys. rewrite Kj. apply in_map_iff. exists (k, cj). split; [reflexivity|exact Hin]. }
    rewrite <- K in Hk. apply in_keys_entry in Hk. destruct Hk as [y Hy].
    destruct (F2 k y Hy) as (cj' & Hl & Hj).
    assert (Ndj : nodup_s (map fst jm) = true) by (rewrite <- Kj; exact C1).
    rewrite (slookup_nodup_In k cj jm Ndj Hin) in Hl. inversion Hl; subst cj'.
    exists y. split; [|exact Hj]. apply slookup_nodup_In; [rewrite K; exact W2|exact Hy].
  - (* array *)
    rewrite to_json_arr in T. jok T. inversion T; subst j. clear T. rename a into jl.
    pose proof (arr_to_spec _ _ Ha) as F. clear Ha.
    cbn [wf] in W. apply andb_prop in W. destruct W as [_ W].
    apply andb_prop in C. destruct C as [C1 C2]. cbn [in_range] in R.
    destruct (rt_array s IHs W l jl C2 R F) as (vs & js & L & F1 & F2 & Len).
    exists (VArray vs), (JArr js). cbn [from_json]. rewrite L. cbn [jbind].
    rewrite Len, C1. cbn [negb andb]. rewrite andb_false_r.
    rewrite to_json_arr, (arr_to_build _ _ F1). cbn [jbind].
    repeat split. rewrite jeq_arr. apply jeq_list_forall2. exact F2.
  - (* anon map *)
    rewrite to_json_map in T. jok T. inversion T; subst j. clear T. rename a into jm.
    pose proof (map_to_spec _ _ Ha) as F. clear Ha.
    cbn [wf] in W. repeat (apply andb_prop in W; destruct W as [W ?]).
    apply andb_prop in C. destruct C as [C C4]. apply andb_prop in C. destruct C as [C C3]. apply andb_prop in C. destruct C as [C1 C2].
    cbn [in_range] in R.
    destruct (rt_map s IHs W m jm C4 R C1 F []) as (m' & js & L & K & F1 & F2); [intros; reflexivity|].
    cbn [app] in L.
    exists (VAnonMap m'), (JObj js). cbn [from_json]. rewrite L. cbn [jbind].
    assert (Len : length m' = length m) by (rewrite <- (map_length fst m'), K, map_length; reflexivity).
    rewrite Len.
    assert (S1 : match mn with Some a => Nat.ltb (length m) a | None => false end = false).
    { destruct mn as [a|]; [|reflexivity]. apply Nat.ltb_ge. apply Nat.leb_le in C2. exact C2. }
    assert (S2 : match mx with Some b => Nat.ltb b (length m) | None => false end = false).
    { destruct mx as [b|]; [|reflexivity]. apply Nat.ltb_ge. apply Nat.leb_le in C3. exact C3. }
    rewrite S1, S2. cbn [orb]. rewrite andb_false_r.
    rewrite to_json_map, (map_to_build _ _ F1). cbn [jbind].
    split; [reflexivity|]. split; [reflexivity|].
    rewrite jeq_obj.
    pose proof (forall2_keys (fun a b => jeq a b = true) _ _ F2) as Kj.
    assert (L1 : length jm = length js) by (rewrite <- (map_length fst jm), Kj, map_length; reflexivity).
    rewrite L1, Nat.eqb_refl. cbn [andb].
    assert (Nds : nodup_s (map fst js) = true) by (rewrite <- Kj; exact (map_text_nodup m jm F C1 R)).
    rewrite Nds. cbn [andb].
    apply jeq_members_spec. intros k cj Hin.
    clear -F2 Nds Hin. revert Nds Hin. induction F2 as [|[k1 c1] [k2 c2] jm js [Hk Hj] _ IH]; intros Nds Hin; [destruct Hin|].
    cbn [fst snd] in *. subst k2. cbn in Nds. apply andb_prop in Nds. destruct Nds as [N1 N2].
    destruct Hin as [Hin|Hin].
    + inversion Hin; subst. exists c2. cbn. rewrite String.eqb_refl. auto.
    + destruct (IH N2 Hin) as (y & Hy & Hjy). exists y. split; [|exact Hjy]. cbn.
      destruct (String.eqb k k1) eqn:E; [|exact Hy]. apply String.eqb_eq in E. subst k1. exfalso.
      apply negb_true_iff in N1. apply slookup_in_keys in Hy.
      assert (existsb (String.eqb k) (map fst js) = true) by (apply existsb_exists; exists k; split; [exact Hy|apply String.eqb_refl]).
      congruence.
  - (* variant *)
    cbn [to_json] in T. jok T. inversion T; subst j. clear T. rename a into jx.
    cbn [in_range] in R. cbn [wf] in W. apply andb_prop in W. destruct W as [_ W].
    cbn [from_json].
    revert H W C. induction os as [|[k cs] os IHos]; intros HF W C; [discriminate|].
    inversion HF as [|? ? Hh Ht]; subst. cbn [snd] in Hh. cbn in W. apply andb_prop in W. destruct W as [W1 W2].
    destruct (String.eqb name k) eqn:E.
    + destruct (Hh x jx W1 C R Ha) as (x' & j' & D & T' & Ej).
      exists (VVariant name x'), (JObj [(name, j')]). rewrite D. cbn [jbind to_json]. rewrite T'. cbn [jbind].
      repeat split. rewrite jeq_obj. cbn. rewrite String.eqb_refl, Ej. reflexivity.
    + apply IHos; assumption.
  - (* enum *)
    cbn [to_json] in T. inversion T; subst j. exists (VEnum name), (JStr name). cbn [from_json]. rewrite C.
    cbn. rewrite String.eqb_refl. repeat split.
  - (* optional *)
    cbn [wf] in W. destruct o as [x|].
    + cbn [to_json] in T. cbn [in_range] in R. destruct (IHs x j W C R T) as (x' & j' & D & T' & Ej).
      destruct j; try (exists (VOptional (Some x')), j'; cbn [from_json]; rewrite D; cbn [jbind to_json]; repeat split; assumption).
      (* the value encodes as null: it reads back as "absent", which encodes as null again *)
      exists (VOptional None), JNull. cbn. repeat split.
    + cbn [to_json] in T. inversion T; subst j. exists (VOptional None), JNull. cbn. repeat split.
  - (* const *)
    cbn [to_json] in T. inversion T; subst j. exists VConst, JNull. cbn. repeat split.
Qed.
