(** * BestFile: the bytes of best_seen.json under [sync_launch::write_best_seen_file].
    Each rewrite opens the file with [File::create] (awaited: the truncation has happened when
    it returns) and hands the text to [write_all], which with tokio's [File] only *starts* a
    background write at offset 0 of that descriptor.  [awaited] says whether the function waits
    for that write ([flush().await], regenerated from the source) before it returns; if not,
    the write is pending and lands at any later moment, also after later rewrites.
    Bytes are an arbitrary type; [over s c] is the file [c] after writing [s] at offset 0. *)
From Coq Require Import List Arith Lia.
Import ListNotations.

Section BestFile.
  Variable A : Type.
  Definition over (s c : list A) : list A := s ++ skipn (length s) c.

  Record bstate := mkB { b_disk : list A; b_pending : list (list A) }.
  Inductive bev :=
  | BRewrite (t : list A)     (* one call of write_best_seen_file with text t *)
  | BLand (k : nat).          (* the k-th pending background write reaches the file *)

  Fixpoint remove_nth {X} (k : nat) (l : list X) : list X :=
    match l, k with
    | [], _ => []
    | _ :: r, O => r
    | x :: r, S k' => x :: remove_nth k' r
    end.

  Definition bstep (awaited : bool) (s : bstate) (e : bev) : bstate :=
    match e with
    | BRewrite t =>
        if awaited then mkB (over t []) (b_pending s)
        else mkB [] (b_pending s ++ [t])
    | BLand k =>
        match nth_error (b_pending s) k with
        | Some t => mkB (over t (b_disk s)) (remove_nth k (b_pending s))
        | None => s
        end
    end.
  Definition b0 : bstate := mkB [] [].
  Definition brun (awaited : bool) (evs : list bev) : bstate := fold_left (bstep awaited) evs b0.

  (** the text of the last rewrite ([] before the first) *)
  Definition last_text (evs : list bev) : list A :=
    fold_left (fun acc e => match e with BRewrite t => t | BLand _ => acc end) evs [].

  Lemma over_nil t : over t [] = t.
  Proof. unfold over. rewrite skipn_nil, app_nil_r. reflexivity. Qed.

  (** with the write awaited, after any history the file holds exactly the last text handed over
      and nothing is pending: never a stale text, never a mixture of two *)
  Theorem awaited_file_is_last_text evs :
    b_pending (brun true evs) = [] /\ b_disk (brun true evs) = last_text evs.
  Proof.
    unfold brun, last_text.
    assert (G : forall evs s acc, b_pending s = [] -> b_disk s = acc ->
              b_pending (fold_left (bstep true) evs s) = [] /\
              b_disk (fold_left (bstep true) evs s) =
              fold_left (fun acc e => match e with BRewrite t => t | BLand _ => acc end) evs acc).
    { clear evs. induction evs as [|e evs IH]; intros s acc Hp Hd; cbn [fold_left]; [split; assumption|].
      apply IH.
      - destruct e as [t|k]; cbn [bstep b_pending]; [exact Hp|].
        rewrite Hp. destruct k; cbn [nth_error]; exact Hp.
      - destruct e as [t|k]; cbn [bstep b_disk]; [apply over_nil|].
        rewrite Hp. destruct k; cbn [nth_error]; exact Hd. }
    apply G; reflexivity.
  Qed.
End BestFile.

(** without it: "null" then "1.0", the first write landing between the second truncation and the
    second write leaves "1.0l"; landing last it leaves the stale "null" *)
Example unawaited_write_corrupts :
  b_disk nat (brun nat false [BRewrite nat [110;117;108;108]; BRewrite nat [49;46;48]; BLand nat 0; BLand nat 0]) = [49;46;48;108] /\
  b_disk nat (brun nat false [BRewrite nat [110;117;108;108]; BRewrite nat [49;46;48]; BLand nat 1; BLand nat 0]) = [110;117;108;108] /\
  last_text nat [BRewrite nat [110;117;108;108]; BRewrite nat [49;46;48]; BLand nat 1; BLand nat 0] = [49;46;48].
Proof. vm_compute. repeat split. Qed.
