(** * OpsProofs: facts about the operator relations [mut_check] / [cross_check]. *)
From Coq Require Import String.
From Coq Require Import List ZArith NArith Bool Lia.
From Flocq Require Import IEEE754.BinarySingleNaN.
From Cambrian Require Import Base.F64 Base.F64Proofs SourceFacts Syntax Ops.
Import ListNotations.

(** ** Bernoulli at the end points *)
Lemma can_true_zero : can_true fzero = false.  Proof. vm_compute. reflexivity. Qed.
Lemma can_true_nzero : can_true fnzero = false.  Proof. vm_compute. reflexivity. Qed.
Lemma can_false_zero : can_false fzero = true.  Proof. vm_compute. reflexivity. Qed.
Lemma can_false_one : can_false fone = false.  Proof. vm_compute. reflexivity. Qed.
Lemma can_true_one : can_true fone = true.  Proof. vm_compute. reflexivity. Qed.
Lemma p_valid_zero : p_valid fzero = true.  Proof. vm_compute. reflexivity. Qed.
Lemma p_valid_one : p_valid fone = true.  Proof. vm_compute. reflexivity. Qed.

(** an invalid probability (NaN, negative, above 1) admits no outcome at all: it is the
    [Bernoulli::new(p).unwrap()] panic *)
Lemma invalid_prob_no_outcome p : p_valid p = false -> can_true p = false /\ can_false p = false.
Proof. unfold can_true, can_false. intros ->. auto. Qed.

(** ** leaves *)
Section Leaves.
  Variables ms : f64.
  Variables (p : path) (c c' : pctx).

  (** probability 0: nothing changes *)
  Lemma p0_bool i b b' : mut_check fzero ms (SBool i) p c (VBool b) (VBool b') = Some c' -> b' = b /\ c' = c.
  Proof.
    cbn [mut_check]. destruct (Bool.eqb b b') eqn:E.
    - rewrite can_false_zero. intros H; inversion H. apply eqb_prop in E. auto.
    - rewrite can_true_zero. discriminate.
  Qed.

  Lemma p0_enum vs i a b : mut_check fzero ms (SEnum vs i) p c (VEnum a) (VEnum b) = Some c' -> b = a /\ c' = c.
  Proof.
    cbn [mut_check]. destruct (String.eqb a b) eqn:E.
    - rewrite can_false_zero. intros H; inversion H. apply String.eqb_eq in E. auto.
    - rewrite can_true_zero. cbn. discriminate.
  Qed.

  Lemma p0_real i sc mn mx x x' :
    mut_check fzero ms (SReal i sc mn mx) p c (VReal x) (VReal x') = Some c' -> x' = x /\ c' = c.
  Proof.
    cbn [mut_check]. unfold real_step_ok. rewrite can_true_zero, p_valid_zero. cbn [andb orb].
    rewrite orb_false_r. destruct (fbits_eq x x') eqn:E; [|discriminate].
    intros H; inversion H. apply fbits_eq_eq in E. auto.
  Qed.

  Lemma p0_int i sc mn mx z z' :
    mut_check fzero ms (SInt i sc mn mx) p c (VInt z) (VInt z') = Some c' -> z' = z /\ c' = c.
  Proof.
    cbn [mut_check]. unfold int_step_ok. rewrite can_true_zero, p_valid_zero. cbn [andb orb].
    rewrite orb_false_r. destruct (Z.eqb z z') eqn:E; [|discriminate].
    intros H; inversion H. apply Z.eqb_eq in E. auto.
  Qed.

  (** probability 1: booleans flip, enums change *)
  Lemma p1_bool i b b' : mut_check fone ms (SBool i) p c (VBool b) (VBool b') = Some c' -> b' = negb b.
  Proof.
    cbn [mut_check]. destruct (Bool.eqb b b') eqn:E.
    - rewrite can_false_one. discriminate.
    - intros _. destruct b, b'; cbn in *; congruence.
  Qed.

  Lemma p1_enum vs i a b : mut_check fone ms (SEnum vs i) p c (VEnum a) (VEnum b) = Some c' -> b <> a /\ mem_s b vs = true.
  Proof.
    cbn [mut_check]. destruct (String.eqb a b) eqn:E.
    - rewrite can_false_one. discriminate.
    - rewrite can_true_one. cbn. destruct (mem_s b vs); [|discriminate]. intros _.
      split; [|reflexivity]. intros ->. rewrite String.eqb_refl in E. discriminate.
  Qed.

  (** any probability: a real with both bounds stays finite and inside, whatever the sample was *)
  Lemma real_both_bounds mp i sc a b x x' :
    mut_check mp ms (SReal i sc (Some a) (Some b)) p c (VReal x) (VReal x') = Some c' ->
    x' = x \/ (fle a x' = true /\ fle x' b = true).
  Proof.
    cbn [mut_check]. unfold real_step_ok. destruct (p_valid mp); [|discriminate]. cbn [andb].
    destruct (fbits_eq x x') eqn:E.
    - intros _. left. apply fbits_eq_eq in E. auto.
    - cbn [orb]. destruct (can_true mp && cauchy_ok sc ms); [|discriminate]. cbn [andb].
      destruct (fle a x'); [|discriminate]. destruct (fle x' b); [|discriminate]. intros _. right. auto.
  Qed.

  (** integers stay inside their bounds *)
  Lemma int_bounds mp i sc mn mx z z' :
    mut_check mp ms (SInt i sc mn mx) p c (VInt z) (VInt z') = Some c' ->
    z' = z \/ (match mn with Some a => (a <= z')%Z | None => True end /\
               match mx with Some b => (z' <= b)%Z | None => True end).
  Proof.
    cbn [mut_check]. unfold int_step_ok. destruct (p_valid mp); [|discriminate]. cbn [andb].
    destruct (Z.eqb z z') eqn:E.
    - intros _. left. apply Z.eqb_eq in E. auto.
    - cbn [orb]. destruct (can_true mp); [|discriminate]. cbn [andb].
      intros H. right.
      destruct mn as [a|]; [destruct (Z.leb a z') eqn:Ea; [|discriminate]|];
      (destruct mx as [b|]; [destruct (Z.leb z' b) eqn:Eb; [|discriminate]|]);
      split; auto; apply Z.leb_le; assumption.
  Qed.
End Leaves.

(** ** resizable maps: at most one key added or removed, an added key is fresh *)
Section Maps.
  Variables mp ms : f64.
  Variables (vt : spec) (isz : nat) (mn mx : option nat) (p : path) (c c' : pctx).
  Variables m m' : list (N * value).

  Definition added := filter (fun k => negb (mem_n k (keys_n m))) (keys_n m').
  Definition removed := filter (fun k => negb (mem_n k (keys_n m'))) (keys_n m).

  Lemma resize_by_one :
    mut_check mp ms (SAnonMap vt isz mn mx) p c (VAnonMap m) (VAnonMap m') = Some c' ->
    (added = [] /\ removed = []) \/ (exists k, added = [k] /\ removed = []) \/ (exists k, added = [] /\ removed = [k]).
  Proof.
    cbn [mut_check]. destruct (negb _); [discriminate|].
    fold added removed.
    destruct added as [|ka [|]]; destruct removed as [|kr [|]]; try discriminate; intros _.
    - left. auto.
    - right. right. exists kr. auto.
    - right. left. exists ka. auto.
  Qed.

  Lemma mem_n_filter_false k l : mem_n k (filter (fun x => negb (mem_n x l)) [k]) = true -> mem_n k l = false.
  Proof. cbn. destruct (mem_n k l); cbn; [discriminate|reflexivity]. Qed.

  (** by construction of [added] an added key is not a key of the input map: the element is a new one *)
  Lemma added_key_not_in_input k : In k added -> mem_n k (keys_n m) = false.
  Proof. unfold added. intros H. apply filter_In in H. destruct H as [_ H]. apply negb_true_iff in H. exact H. Qed.

  (** probability 0 never resizes; probability 1 always does *)
  Lemma p0_no_resize :
    mp = fzero ->
    mut_check mp ms (SAnonMap vt isz mn mx) p c (VAnonMap m) (VAnonMap m') = Some c' ->
    added = [] /\ removed = [].
  Proof.
    intros ->. cbn [mut_check]. destruct (negb _); [discriminate|]. fold added removed.
    rewrite can_true_zero. cbn [andb negb].
    destruct added as [|ka [|]]; destruct removed as [|kr [|]]; try discriminate; auto.
  Qed.

  Lemma p1_resizes :
    mp = fone -> map_keys_registered_before_next_key = true ->
    mut_check mp ms (SAnonMap vt isz mn mx) p c (VAnonMap m) (VAnonMap m') = Some c' ->
    (exists k, added = [k] /\ removed = []) \/ (exists k, added = [] /\ removed = [k]).
  Proof.
    intros -> Hreg. cbn [mut_check]. destruct (negb _); [discriminate|]. fold added removed.
    rewrite can_false_one.
    destruct added as [|ka [|]]; destruct removed as [|kr [|]]; try discriminate.
    - (* same key set: only the colliding addition could explain it, impossible once keys are registered *)
      unfold fresh_key. rewrite Hreg.
      destruct (mem_n (N.max (get_nk c p) (max_key m)) (keys_n m)) eqn:E; [|discriminate].
      exfalso. clear -E.
      assert (G : forall (l : list (N * value)) acc k, mem_n k (keys_n l) = true -> (k < fold_left (fun a (kv : N * value) => N.max a (fst kv + 1)) l acc)%N).
      { induction l as [|[k0 v0] l IH]; intros acc k H; cbn in *; [discriminate|].
        destruct (N.eqb k k0) eqn:E0.
        - apply N.eqb_eq in E0. subst.
          assert (M : forall (l : list (N * value)) a, (a <= fold_left (fun a (kv : N * value) => N.max a (fst kv + 1)) l a)%N).
          { clear. induction l as [|[k1 v1] l IH]; intros a; cbn; [lia|]. specialize (IH (N.max a (k1 + 1))). lia. }
          specialize (M l (N.max acc (k0 + 1))). lia.
        - cbn in H. apply IH. exact H. }
      specialize (G m 0%N _ E). unfold max_key in G. lia.
    - intros _. right. exists kr. auto.
    - intros _. left. exists ka. auto.
  Qed.
End Maps.

(** ** probability 1: a variant switches to another option, an optional flips its presence *)
Lemma p1_variant ms os i p c c' n x n' y :
  mut_check fone ms (SVariant os i) p c (VVariant n x) (VVariant n' y) = Some c' -> n' <> n.
Proof.
  cbn [mut_check]. rewrite p_valid_one. cbn [negb].
  intros H Heq. subst n'. revert H. induction os as [|[k cs] os IH]; [discriminate|].
  destruct (String.eqb n k); [|exact IH]. rewrite String.eqb_refl, can_false_one. discriminate.
Qed.

Lemma p1_optional ms vt b p c c' o o' :
  mut_check fone ms (SOptional vt b) p c (VOptional o) (VOptional o') = Some c' ->
  (o = None /\ o' <> None) \/ (o <> None /\ o' = None).
Proof.
  cbn [mut_check]. destruct o as [x|], o' as [y|]; rewrite ?can_false_one; try discriminate; intros _.
  - right. split; [discriminate|reflexivity].
  - left. split; [reflexivity|discriminate].
Qed.

(** ** crossover: one parent is returned unchanged; with equal leaves nothing is chosen *)
Lemma crossover_single cp pr s x child :
  s <> SConst -> cross_check cp pr s [x] child = true -> veqb x child = true.
Proof. intros Hs. destruct s; cbn; try congruence; auto. Qed.

Lemma crossover_const cp pr ps child : cross_check cp pr SConst ps child = true -> child = VConst.
Proof. cbn. destruct child; congruence. Qed.

(** selection at pressure 1 returns the best-ranked individual; at any pressure an index in range *)
Lemma sel_ok_pressure_one n i : sel_ok fone n i = true -> i = 0%nat.
Proof.
  unfold sel_ok. rewrite can_false_one, p_valid_one. cbn [andb]. rewrite orb_false_r.
  destruct (Nat.ltb i n); cbn; [|discriminate]. intros H. apply Nat.eqb_eq in H. exact H.
Qed.
Lemma sel_ok_in_range pr n i : sel_ok pr n i = true -> (i < n)%nat.
Proof.
  unfold sel_ok. intros H. apply andb_prop in H. destruct H as [H _]. apply andb_prop in H. destruct H as [_ H].
  apply Nat.ltb_lt in H. exact H.
Qed.
