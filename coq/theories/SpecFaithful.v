(** * SpecFaithful: "every declared parameter is present".  The members of an accepted sub are
    exactly the entries of the document whose (string) key is neither [type] nor a type
    definition, and the spec of a member is what the (last) entry under its name builds to in the
    scope of the sub; likewise the options of a variant. *)
From Coq Require Import String Ascii.
From Coq Require Import List ZArith NArith Bool Lia.
From Flocq Require Import IEEE754.BinarySingleNaN.
From Cambrian Require Import Base.F64 SourceFacts Syntax SpecBuild SpecProofs.
Import ListNotations.
Local Open Scope string_scope.

Definition str_eqb_opt (o : option string) (k : string) : bool :=
  match o with Some s => String.eqb s k | None => false end.

(** the last entry of the document declared under the name [k] (not skipped) *)
Definition last_decl (skip : string -> bool) (l : list (yaml * yaml)) (k : string) : option yaml :=
  fold_left (fun o kv => if str_eqb_opt (as_str (fst kv)) k && negb (skip k) then Some (snd kv) else o) l None.

Lemma last_decl_from (skip : string -> bool) k : forall l o,
  fold_left (fun o kv => if str_eqb_opt (as_str (fst kv)) k && negb (skip k) then Some (snd kv) else o) l o
  = match last_decl skip l k with Some v => Some v | None => o end.
Proof.
  unfold last_decl. induction l as [|[kk v] l IH]; intros o; cbn [fold_left fst snd]; [reflexivity|].
  rewrite (IH (if str_eqb_opt (as_str kk) k && negb (skip k) then Some v else o)).
  rewrite (IH (if str_eqb_opt (as_str kk) k && negb (skip k) then Some v else None)).
  destruct (fold_left _ l None); [reflexivity|]. destruct (str_eqb_opt (as_str kk) k && negb (skip k)); reflexivity.
Qed.

Lemma mem_set_lookup e k s k0 : slookup k0 (mem_set e k s) = if String.eqb k0 k then Some s else slookup k0 e.
Proof.
  induction e as [|[k' s'] e IH]; cbn [mem_set slookup].
  - destruct (String.eqb k0 k); reflexivity.
  - destruct (String.eqb k k') eqn:E; cbn [slookup].
    + apply String.eqb_eq in E. subst k'. destruct (String.eqb k0 k); reflexivity.
    + rewrite IH. destruct (String.eqb k0 k') eqn:E1; [|reflexivity].
      apply String.eqb_eq in E1. subst k'. rewrite String.eqb_sym in E. rewrite E. reflexivity.
Qed.

Definition built (bn : yaml -> res spec) (v : yaml) : option spec := match bn v with Ok s => Some s | Err _ => None end.

(** the member loop: afterwards, the member under [k] is what the last declaration of [k] builds to *)
Lemma mems_loop_lookup (bn : yaml -> res spec) (skip : string -> bool) (strict : bool) :
  forall l acc ms, mems_loop bn skip strict l acc = Ok ms ->
    forall k, slookup k ms = match last_decl skip l k with Some v => built bn v | None => slookup k acc end.
Proof.
  induction l as [|[kk v] l IH]; intros acc ms H k; cbn [mems_loop] in H.
  - inversion H; subst. reflexivity.
  - unfold last_decl. cbn [fold_left fst snd]. rewrite last_decl_from.
    destruct (as_str kk) as [ks|] eqn:Ek; cbn [str_eqb_opt].
    + destruct (skip ks) eqn:Es.
      * rewrite (IH acc ms H k). destruct (last_decl skip l k); [reflexivity|].
        destruct (String.eqb ks k) eqn:E; [apply String.eqb_eq in E; subst ks; rewrite Es|]; cbn [andb negb]; reflexivity.
      * apply bind_ok in H. destruct H as (s & Hs & H). rewrite (IH _ ms H k). rewrite mem_set_lookup.
        destruct (last_decl skip l k); [reflexivity|].
        rewrite (String.eqb_sym k ks).
        destruct (String.eqb ks k) eqn:E; cbn [andb].
        -- apply String.eqb_eq in E. subst ks. rewrite Es. cbn [negb]. unfold built. rewrite Hs. reflexivity.
        -- reflexivity.
    + destruct strict; [discriminate|]. cbn [andb]. rewrite (IH acc ms H k). destruct (last_decl skip l k); reflexivity.
Qed.

(** ** subs *)
Theorem sub_members_are_the_declared_ones f e m ms :
  build_node (S f) e (YMap m) = Ok (SSub ms) ->
  (yget "type" m = None \/ exists t, yget "type" m = Some t /\ as_str t = Some "sub") ->
  exists e',
    defs_loop (build_node f) m e = Ok e' /\
    forall k, slookup k ms = match last_decl sub_skip m k with
                             | Some v => built (build_node f e') v
                             | None => None
                             end.
Proof.
  intros H Ht. cbn [build_node] in H. apply bind_ok in H. destruct H as (tn & Htn & H).
  assert (Etn : opt_unwrap "sub" tn = "sub").
  { unfold extract in Htn. destruct Ht as [Ht|(t & Ht & Hs)]; rewrite Ht in Htn.
    - cbn in Htn. inversion Htn; subst. reflexivity.
    - rewrite Hs in Htn. inversion Htn; subst. reflexivity. }
  rewrite Etn in H. cbn [String.eqb Ascii.eqb Bool.eqb] in H.
  apply bind_ok in H. destruct H as (e' & He & H). apply bind_ok in H. destruct H as (ms' & Hm & H).
  destruct ms' as [|p r]; [discriminate|]. inversion H; subst ms.
  exists e'. split; [exact He|]. intros k. rewrite (mems_loop_lookup _ _ _ _ _ _ Hm k). reflexivity.
Qed.

(** every declaration the loop went through was built *)
Lemma mems_loop_built (bn : yaml -> res spec) (skip : string -> bool) (strict : bool) :
  forall l acc ms, mems_loop bn skip strict l acc = Ok ms ->
    forall k v, last_decl skip l k = Some v -> exists s, bn v = Ok s.
Proof.
  induction l as [|[kk v1] l IH]; intros acc ms Hl k v Hv; [discriminate|].
  cbn [mems_loop] in Hl. unfold last_decl in Hv. cbn [fold_left fst snd] in Hv. rewrite last_decl_from in Hv.
  destruct (as_str kk) as [ks|] eqn:Ek; cbn [str_eqb_opt] in Hv.
  - destruct (skip ks) eqn:Es.
    + destruct (last_decl skip l k) eqn:El; [inversion Hv; subst; eapply IH; eauto|].
      destruct (String.eqb ks k) eqn:E; [apply String.eqb_eq in E; subst ks; rewrite Es in Hv|]; cbn in Hv; discriminate.
    + apply bind_ok in Hl. destruct Hl as (s & Hs & Hl).
      destruct (last_decl skip l k) eqn:El; [inversion Hv; subst; eapply IH; eauto|].
      destruct (String.eqb ks k && negb (skip k)); [|discriminate]. inversion Hv; subst. eauto.
  - destruct strict; [discriminate|]. cbn [andb] in Hv. destruct (last_decl skip l k) eqn:El; [|discriminate].
    inversion Hv; subst. eapply IH; eauto.
Qed.

(** every declared parameter is present, and nothing else is *)
Corollary declared_iff_member f e m ms :
  build_node (S f) e (YMap m) = Ok (SSub ms) ->
  (yget "type" m = None \/ exists t, yget "type" m = Some t /\ as_str t = Some "sub") ->
  forall k, (exists s, slookup k ms = Some s) <-> (exists v, last_decl sub_skip m k = Some v).
Proof.
  intros H Ht k. destruct (sub_members_are_the_declared_ones f e m ms H Ht) as (e' & He & L).
  rewrite (L k). split.
  - intros [s Hs]. destruct (last_decl sub_skip m k); [eauto|discriminate].
  - intros [v Hv]. rewrite Hv.
    (* recover the member loop's success *)
    cbn [build_node] in H. apply bind_ok in H. destruct H as (tn & Htn & H).
    assert (Etn : opt_unwrap "sub" tn = "sub").
    { unfold extract in Htn. destruct Ht as [Ht|(t & Ht & Hs)]; rewrite Ht in Htn.
      - cbn in Htn. inversion Htn; subst. reflexivity.
      - rewrite Hs in Htn. inversion Htn; subst. reflexivity. }
    rewrite Etn in H. cbn [String.eqb Ascii.eqb Bool.eqb] in H.
    apply bind_ok in H. destruct H as (e2 & He2 & H). rewrite He in He2. inversion He2; subst e2.
    apply bind_ok in H. destruct H as (ms' & Hm & _).
    destruct (mems_loop_built _ _ _ _ _ _ Hm k v Hv) as [s Hs]. exists s. unfold built. rewrite Hs. reflexivity.
Qed.

(** ** variants: the options are the declared entries other than [type] and [init] *)
Theorem variant_options_are_the_declared_ones f e m os i :
  build_node (S f) e (YMap m) = Ok (SVariant os i) ->
  (exists t, yget "type" m = Some t /\ as_str t = Some "variant") ->
  forall k, slookup k os = match last_decl variant_skip m k with
                           | Some v => built (build_node f e) v
                           | None => None
                           end.
Proof.
  intros H (t & Ht & Hs). cbn [build_node] in H. apply bind_ok in H. destruct H as (tn & Htn & H).
  assert (Etn : opt_unwrap "sub" tn = "variant").
  { unfold extract in Htn. rewrite Ht, Hs in Htn. inversion Htn; subst. reflexivity. }
  rewrite Etn in H. cbn [String.eqb Ascii.eqb Bool.eqb] in H.
  apply bind_ok in H. destruct H as (io & _ & H). apply bind_ok in H. destruct H as (os' & Hm & H).
  destruct (Nat.ltb (length os') 2); [discriminate|]. destruct (negb _); [discriminate|]. inversion H; subst.
  intros k. rewrite (mems_loop_lookup _ _ _ _ _ _ Hm k). reflexivity.
Qed.
