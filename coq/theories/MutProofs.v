(** * MutProofs: conformance is closed under mutation, for whole spec trees (C01).
    Stated for [conforms_g false] (structure, bounds, discrete choices; reals need not be finite):
    a real without both bounds can leave the finite range when the Cauchy sample overflows, so
    finiteness is a side condition ([reals_finite]) and is monitored on every real output. *)
From Coq Require Import String.
From Coq Require Import List Arith ZArith NArith Bool Lia Permutation.
From Flocq Require Import IEEE754.BinarySingleNaN.
From Cambrian Require Import Base.F64 Base.F64Proofs SourceFacts Syntax Ops OpsProofs SpecBuild SpecProofs.
Import ListNotations.

(** ** bool <-> Prop bridges for key lists *)
Lemma mem_n_In k l : mem_n k l = true <-> In k l.
Proof.
  unfold mem_n. rewrite existsb_exists. split.
  - intros [x [H E]]. apply N.eqb_eq in E. subst. exact H.
  - intros H. exists k. split; [exact H | apply N.eqb_refl].
Qed.

Lemma nodup_n_NoDup l : nodup_n l = true -> NoDup l.
Proof.
  induction l as [|a l IH]; cbn; intros H; [constructor|].
  apply andb_prop in H. destruct H as [H1 H2]. constructor; [|apply IH; exact H2].
  intros Hin. apply mem_n_In in Hin. unfold mem_n in Hin. rewrite Hin in H1. discriminate.
Qed.

Lemma filter_length_partition {A} (f : A -> bool) l :
  length l = (length (filter f l) + length (filter (fun x => negb (f x)) l))%nat.
Proof. induction l as [|a l IH]; cbn; [reflexivity|]. destruct (f a); cbn; lia. Qed.

Lemma inter_length ks ks' :
  nodup_n ks = true -> nodup_n ks' = true ->
  length (filter (fun k => mem_n k ks) ks') = length (filter (fun k => mem_n k ks') ks).
Proof.
  intros N1 N2. apply Permutation_length. apply NoDup_Permutation.
  - apply NoDup_filter. apply nodup_n_NoDup. exact N2.
  - apply NoDup_filter. apply nodup_n_NoDup. exact N1.
  - intros x. rewrite !filter_In, !mem_n_In. tauto.
Qed.

(** sizes of the two key sets differ by |added| - |removed| *)
Lemma keyset_sizes ks ks' :
  nodup_n ks = true -> nodup_n ks' = true ->
  (length ks' + length (filter (fun k => negb (mem_n k ks')) ks) =
   length ks + length (filter (fun k => negb (mem_n k ks)) ks'))%nat.
Proof.
  intros N1 N2.
  pose proof (filter_length_partition (fun k => mem_n k ks) ks') as E1.
  pose proof (filter_length_partition (fun k => mem_n k ks') ks) as E2.
  pose proof (inter_length ks ks' N1 N2) as E3. lia.
Qed.

(** ** lookups *)
Lemma nlookup_In {A} k (m : list (N * A)) a : nlookup k m = Some a -> In (k, a) m.
Proof.
  induction m as [|[k' a'] m IH]; cbn; [discriminate|]. destruct (N.eqb k k') eqn:E.
  - intros H. inversion H; subst. apply N.eqb_eq in E. subst. left. reflexivity.
  - intros H. right. apply IH. exact H.
Qed.

Lemma nlookup_nodup_in {A} k a (m : list (N * A)) :
  nodup_n (map fst m) = true -> In (k, a) m -> nlookup k m = Some a.
Proof.
  induction m as [|[k' a'] m IH]; cbn; intros N H; [contradiction|].
  apply andb_prop in N. destruct N as [N1 N2]. destruct H as [H|H].
  - inversion H; subst. rewrite N.eqb_refl. reflexivity.
  - destruct (N.eqb k k') eqn:E.
    + apply N.eqb_eq in E. subst. exfalso. apply negb_true_iff in N1.
      assert (G : existsb (N.eqb k') (map fst m) = true).
      { apply existsb_exists. exists k'. split; [|apply N.eqb_refl]. apply in_map_iff. exists (k', a). auto. }
      congruence.
    + apply IH; assumption.
Qed.

Lemma nlookup_none_notin {A} k (m : list (N * A)) : nlookup k m = None -> mem_n k (map fst m) = false.
Proof.
  induction m as [|[k' a'] m IH]; cbn; [reflexivity|]. destruct (N.eqb k k'); [discriminate|]. exact IH.
Qed.

Lemma nlookup_remove_key {A} k ka (m : list (N * A)) : k <> ka -> nlookup k (remove_key ka m) = nlookup k m.
Proof.
  intros Hne. unfold remove_key. induction m as [|[k' a'] m IH]; cbn; [reflexivity|].
  destruct (N.eqb k' ka) eqn:E1; cbn.
  - apply N.eqb_eq in E1. subst. destruct (N.eqb k ka) eqn:E2; [apply N.eqb_eq in E2; contradiction | exact IH].
  - destruct (N.eqb k k'); [reflexivity | exact IH].
Qed.

Lemma in_remove_key {A} k ka (b : A) (m : list (N * A)) : In (k, b) m -> k <> ka -> In (k, b) (remove_key ka m).
Proof.
  intros H Hne. unfold remove_key. apply filter_In. split; [exact H|]. cbn.
  apply negb_true_iff. apply N.eqb_neq. exact Hne.
Qed.

(** ** the map-children fold *)
Lemma map_children_none (chk : path -> pctx -> value -> value -> option pctx) (p : path) (m : list (N * value)) (l : list (N * value)) :
  fold_left (fun oc kv => match oc with
                          | None => None
                          | Some c => match nlookup (fst kv) m with
                                      | Some a => chk (p ++ [PKey (fst kv)]) c a (snd kv)
                                      | None => Some c
                                      end
                          end) l None = None.
Proof. induction l as [|x l IH]; cbn; [reflexivity | exact IH]. Qed.

Lemma map_children_spec (chk : path -> pctx -> value -> value -> option pctx) p m :
  forall m' c c', map_children chk p m m' c = Some c' ->
    forall k b a, In (k, b) m' -> nlookup k m = Some a -> exists c1 c2, chk (p ++ [PKey k]) c1 a b = Some c2.
Proof.
  unfold map_children. induction m' as [|[k0 b0] m' IH]; intros c c' H k b a Hin Hl; [contradiction|].
  cbn [fold_left fst snd] in H.
  destruct (nlookup k0 m) as [a0|] eqn:E0.
  - destruct (chk (p ++ [PKey k0]) c a0 b0) as [c1|] eqn:Ec; [|rewrite map_children_none in H; discriminate].
    destruct Hin as [Hin|Hin].
    + inversion Hin; subst. rewrite E0 in Hl. inversion Hl; subst. eauto.
    + eapply IH; eauto.
  - destruct Hin as [Hin|Hin].
    + inversion Hin; subst. congruence.
    + eapply IH; eauto.
Qed.

Lemma merge_some_spec {A} (f : A -> option pctx) l b : merge_some f l = Some b -> exists a c, In a l /\ f a = Some c.
Proof.
  revert b. induction l as [|a r IH]; intros b H; cbn in H; [discriminate|].
  destruct (f a) as [c|] eqn:E.
  - exists a, c. split; [left; reflexivity|exact E].
  - destruct (IH _ H) as (a' & c' & Hin & Hf). exists a', c'. split; [right; exact Hin|exact Hf].
Qed.

Lemma first_some_spec {A B} (f : A -> option B) l b : first_some f l = Some b -> exists a, In a l /\ f a = Some b.
Proof.
  induction l as [|a l IH]; cbn; [discriminate|]. destruct (f a) eqn:E.
  - intros H. inversion H; subst. exists a. auto.
  - intros H. destruct (IH H) as (a' & H1 & H2). exists a'. auto.
Qed.

(** the key handed out for an addition is not a key of the map (keys are registered first) *)
Lemma fresh_key_not_mem (c : pctx) (p : path) (m : list (N * value)) :
  map_keys_registered_before_next_key = true -> mem_n (fresh_key c p m) (keys_n m) = false.
Proof.
  intros Hreg. unfold fresh_key. rewrite Hreg.
  destruct (mem_n (N.max (get_nk c p) (max_key m)) (keys_n m)) eqn:E; [|reflexivity]. exfalso.
  assert (G : forall (l : list (N * value)) acc k, mem_n k (keys_n l) = true -> (k < fold_left (fun a (kv : N * value) => N.max a (fst kv + 1)) l acc)%N).
  { induction l as [|[k0 v0] l IH]; intros acc k H; cbn in *; [discriminate|].
    destruct (N.eqb k k0) eqn:E0.
    - apply N.eqb_eq in E0. subst.
      assert (Mn : forall (l : list (N * value)) a, (a <= fold_left (fun a (kv : N * value) => N.max a (fst kv + 1)) l a)%N).
      { clear. induction l as [|[k1 v1] l IH]; intros a; cbn; [lia|]. specialize (IH (N.max a (k1 + 1))). lia. }
      specialize (Mn l (N.max acc (k0 + 1))). lia.
    - cbn in H. apply IH. exact H. }
  specialize (G m 0%N _ E). unfold max_key in G. lia.
Qed.

(** ** weakening / strengthening of conformance *)
Lemma conforms_weaken : forall s v, conforms_g true s v = true -> conforms_g false s v = true.
Proof.
  induction s using spec_ind'; intros v Hc; destruct v; cbn [conforms_g] in *; try discriminate; try exact Hc.
  - (* real *)
    apply andb_prop in Hc. destruct Hc as [Hc H2]. apply andb_prop in Hc. destruct Hc as [_ H1].
    rewrite H1, H2. reflexivity.
  - (* sub *)
    apply andb_prop in Hc. destruct Hc as [Hc H3]. rewrite Hc. cbn [andb].
    rewrite forallb_forall in *. intros [k cs] Hin. specialize (H3 (k, cs) Hin). cbn [fst snd] in *.
    destruct (slookup k m); [|discriminate]. rewrite Forall_forall in H. apply (H (k, cs) Hin). exact H3.
  - apply andb_prop in Hc. destruct Hc as [H1 H2]. rewrite H1. cbn [andb].
    rewrite forallb_forall in *. intros x Hx. apply IHs. apply H2. exact Hx.
  - apply andb_prop in Hc. destruct Hc as [Hc H4]. rewrite Hc. cbn [andb].
    rewrite forallb_forall in *. intros x Hx. apply IHs. apply H4. exact Hx.
  - (* variant *)
    revert H Hc. induction os as [|[k cs] os IHos]; intros HF Hc; [discriminate|].
    inversion HF; subst. destruct (String.eqb name k); [apply H1; exact Hc | apply IHos; assumption].
  - destruct o; [apply IHs; exact Hc | reflexivity].
Qed.

(** ** the array loop *)
Lemma arr_check_spec (chk : path -> pctx -> value -> value -> option pctx) (P : value -> bool) p :
  forall l l' i c c',
    (forall a b q c1 c2, In a l -> P a = true -> chk q c1 a b = Some c2 -> P b = true) ->
    forallb P l = true -> arr_check chk p l l' i c = Some c' -> forallb P l' = true.
Proof.
  induction l as [|a r IH]; intros l' i c c' Hchk Hl H; destruct l' as [|b r']; cbn [arr_check] in H; try discriminate; [reflexivity|].
  destruct (chk (p ++ [PIdx i]) c a b) as [c1|] eqn:E; [|discriminate].
  cbn in Hl. apply andb_prop in Hl. destruct Hl as [Ha Hr]. cbn.
  rewrite (Hchk a b _ _ _ (or_introl eq_refl) Ha E). cbn.
  eapply IH; [|exact Hr|exact H]. intros; eapply Hchk; eauto. right; assumption.
Qed.

(** ** main theorem *)
Theorem mutate_conforms : forall s mpr msc p c v v' c',
  map_keys_registered_before_next_key = true ->
  wf s = true -> conforms_g false s v = true -> mut_check mpr msc s p c v v' = Some c' ->
  conforms_g false s v' = true.
Proof.
  induction s using spec_ind'; intros mpr msc p c v v' c' Hreg W Hc Hm;
    destruct v; cbn [conforms_g] in Hc; try discriminate;
    destruct v'; cbn [mut_check] in Hm; try discriminate; cbn [conforms_g].
  - (* real *)
    destruct (real_step_ok mpr msc s mn mx x x0) eqn:E; [|discriminate]. unfold real_step_ok in E.
    apply andb_prop in E. destruct E as [_ E]. apply orb_prop in E. destruct E as [E|E].
    + apply fbits_eq_eq in E. subst. exact Hc.
    + apply andb_prop in E. destruct E as [E E2]. apply andb_prop in E. destruct E as [_ E1].
      cbn [negb orb andb]. unfold opt_le_f, opt_ge_f. rewrite E1, E2. reflexivity.
  - (* int *)
    destruct (int_step_ok mpr msc s mn mx z z0) eqn:E; [|discriminate]. unfold int_step_ok in E.
    apply andb_prop in E. destruct E as [_ E]. apply orb_prop in E. destruct E as [E|E].
    + apply Z.eqb_eq in E. subst. exact Hc.
    + apply andb_prop in E. destruct E as [E E2]. apply andb_prop in E. destruct E as [_ E1].
      rewrite E1, E2. reflexivity.
  - reflexivity.
  - (* sub *)
    destruct (negb _) eqn:En; [discriminate|]. apply negb_false_iff in En. apply andb_prop in En. destruct En as [En1 En2].
    cbn [wf] in W. apply andb_prop in W. destruct W as [W W3]. apply andb_prop in W. destruct W as [_ W2].
    apply andb_prop in Hc. destruct Hc as [Hc Hc3]. apply andb_prop in Hc. destruct Hc as [_ Hc2].
    rewrite En2, En1. cbn [andb].
    revert c c' Hm. rewrite forallb_forall in Hc3, W3. rewrite Forall_forall in H.
    assert (Gen : forall l c c',
               (forall kv, In kv l -> In kv ms) ->
               (fix go (l : list (string * spec)) (c : pctx) : option pctx :=
                  match l with
                  | [] => Some c
                  | (k, cs) :: r =>
                      match slookup k m, slookup k m0 with
                      | Some a, Some b => match mut_check mpr msc cs (p ++ [PName k]) c a b with Some c' => go r c' | None => None end
                      | _, _ => None
                      end
                  end) l c = Some c' ->
               forallb (fun kv : string * spec => match slookup (fst kv) m0 with Some v' => conforms_g false (snd kv) v' | None => false end) l = true).
    { induction l as [|[k cs] r IHr]; intros c c' Hsub Hg; [reflexivity|].
      destruct (slookup k m) as [a|] eqn:Ea; [|discriminate]. destruct (slookup k m0) as [b|] eqn:Eb; [|discriminate].
      destruct (mut_check mpr msc cs (p ++ [PName k]) c a b) as [c1|] eqn:Ec; [|discriminate].
      cbn [forallb fst snd]. rewrite Eb.
      assert (Hin : In (k, cs) ms) by (apply Hsub; left; reflexivity).
      assert (Hb : conforms_g false cs b = true).
      { apply (H (k, cs) Hin mpr msc (p ++ [PName k])%list c a b c1 Hreg (W3 (k, cs) Hin)); [|exact Ec].
        specialize (Hc3 (k, cs) Hin). cbn [fst snd] in Hc3. rewrite Ea in Hc3. exact Hc3. }
      rewrite Hb. cbn. eapply IHr; [|exact Hg]. intros kv Hkv. apply Hsub. right. exact Hkv. }
    intros c c' Hm. eapply Gen; [|exact Hm]. auto.
  - (* array *)
    destruct (negb _) eqn:En; [discriminate|]. apply negb_false_iff in En. apply Nat.eqb_eq in En.
    cbn [wf] in W. apply andb_prop in W. destruct W as [_ W2].
    apply andb_prop in Hc. destruct Hc as [Hc1 Hc2]. rewrite <- En, Hc1. cbn [andb].
    eapply (arr_check_spec (mut_check mpr msc s) (conforms_g false s)); [|exact Hc2|exact Hm].
    intros a b q c1 c2 _ Ha Hab. eapply IHs; eauto.
  - (* anon map *)
    destruct (negb _) eqn:En; [discriminate|]. apply negb_false_iff in En. apply andb_prop in En. destruct En as [_ Nd'].
    cbn [wf] in W. repeat (apply andb_prop in W; destruct W as [W ?]). rename H into Wb3, H0 into Wb2, H1 into Wb1.
    repeat (apply andb_prop in Hc; destruct Hc as [Hc ?]). rename H into Hch, H0 into Hmx, H1 into Hmn. rename Hc into Nd.
    pose proof (keyset_sizes (keys_n m) (keys_n m0) Nd Nd') as Hsz.
    assert (L1 : length (keys_n m) = length m) by (unfold keys_n; apply map_length).
    assert (L2 : length (keys_n m0) = length m0) by (unfold keys_n; apply map_length).
    rewrite L1, L2 in Hsz. clear L1 L2.
    set (n := length m) in *. set (n' := length m0) in *.
    set (at_min := Nat.eqb n 0 || match mn with Some a => Nat.eqb n a | None => false end) in *.
    set (at_max := match mx with Some b => Nat.eqb n b | None => false end) in *.
    set (nk := fresh_key c p m) in *.
    set (added := filter (fun k => negb (mem_n k (keys_n m))) (keys_n m0)) in *.
    set (removed := filter (fun k => negb (mem_n k (keys_n m0))) (keys_n m)) in *.
    fold added removed in Hsz.
    assert (Hnk : mem_n nk (keys_n m) = false) by (apply fresh_key_not_mem; exact Hreg).
    (* children that exist in both maps conform by induction; the added one by induction from its source *)
    assert (Hold : forall m1 m1' c1 c1', map_children (mut_check mpr msc s) p m1 m1' c1 = Some c1' ->
               (forall k a, nlookup k m1 = Some a -> conforms_g false s a = true) ->
               forall k b, In (k, b) m1' -> mem_n k (map fst m1) = true -> conforms_g false s b = true).
    { intros m1 m1' c1 c1' Hmc Hsrc k b Hin Hk.
      destruct (nlookup k m1) as [a|] eqn:El; [|apply nlookup_none_notin in El; congruence].
      destruct (map_children_spec _ _ _ _ _ _ Hmc k b a Hin El) as (q1 & q2 & Hq).
      eapply IHs; [exact Hreg | exact W | eapply Hsrc; eauto | exact Hq]. }
    assert (Hsrc : forall k a, nlookup k m = Some a -> conforms_g false s a = true).
    { intros k a El. apply nlookup_In in El. rewrite forallb_forall in Hch. apply (Hch (k, a) El). }
    assert (AddCase : forall ka,
               (if negb (can_true mpr && (at_min || negb at_max) && N.leb nk ka) then None
                else match nlookup ka m0 with
                     | None => None
                     | Some y =>
                         let c1 := set_nk c p (ka + 1) in
                         let sources := match m with [] => [init_val s] | _ => map snd m end in
                         match merge_some (fun e => mut_check mpr msc s (p ++ [PKey ka]) c1 e y) sources with
                         | None => None
                         | Some c2 => map_children (mut_check mpr msc s) p (remove_key ka m) (remove_key ka m0) c2
                         end
                     end) = Some c' ->
               mem_n ka (keys_n m) = false -> added = [ka] ->
               (at_min || negb at_max) = true /\ forallb (fun kv : N * value => conforms_g false s (snd kv)) m0 = true).
    { intros ka Ha Hka Hadd. destruct (negb (can_true mpr && (at_min || negb at_max) && N.leb nk ka)) eqn:Eg; [discriminate|]. apply negb_false_iff in Eg.
      apply andb_prop in Eg. destruct Eg as [Eg _]. apply andb_prop in Eg. destruct Eg as [_ Eg]. split; [exact Eg|].
      destruct (nlookup ka m0) as [y|] eqn:Ey; [|discriminate]. cbn zeta in Ha.
      destruct (merge_some _ _) as [c2|] eqn:Ef; [|discriminate].
      destruct (merge_some_spec _ _ _ Ef) as (e & cx & He & Hey).
      assert (Hce : conforms_g false s e = true).
      { destruct m as [|m1 mr] eqn:Em.
        - destruct He as [He|[]]. subst e. apply conforms_weaken. apply wf_init_conforms. exact W.
        - rewrite <- Em in *. apply in_map_iff in He. destruct He as [[k0 a0] [E0 Hin0]]. cbn in E0. subst a0.
          rewrite forallb_forall in Hch. apply (Hch (k0, e) Hin0). }
      assert (Hy : conforms_g false s y = true) by (eapply IHs; [exact Hreg | exact W | exact Hce | exact Hey]).
      apply forallb_forall. intros [k b] Hin. cbn [snd].
      destruct (N.eqb k ka) eqn:Ek.
      - apply N.eqb_eq in Ek. subst k. rewrite (nlookup_nodup_in ka b m0 Nd' Hin) in Ey. inversion Ey; subst. exact Hy.
      - apply N.eqb_neq in Ek.
        destruct (mem_n k (keys_n m)) eqn:Emem.
        + eapply (Hold (remove_key ka m) (remove_key ka m0) c2 c' Ha).
          * intros k1 a1 El. destruct (N.eqb k1 ka) eqn:E1.
            -- apply N.eqb_eq in E1. subst k1. apply nlookup_In in El. unfold remove_key in El. apply filter_In in El.
               destruct El as [_ El]. cbn in El. rewrite N.eqb_refl in El. discriminate.
            -- apply N.eqb_neq in E1. rewrite (nlookup_remove_key _ _ _ E1) in El. eapply Hsrc; eauto.
          * apply in_remove_key; eauto.
          * apply mem_n_In. apply mem_n_In in Emem. unfold keys_n in Emem. apply in_map_iff in Emem.
            destruct Emem as [[k1 a1] [E1 Hin1]]. cbn in E1. subst k1. apply in_map_iff. exists (k, a1). split; [reflexivity|].
            apply in_remove_key; assumption.
        + (* a key of m0 that is neither in m nor the added key: impossible, it would be a second added key *)
          exfalso.
          assert (In k added).
          { unfold added. apply filter_In. split; [unfold keys_n; apply in_map_iff; exists (k, b); auto | rewrite Emem; reflexivity]. }
          assert (In ka added).
          { unfold added. apply filter_In. split; [unfold keys_n; apply in_map_iff; exists (ka, y); split; [reflexivity | apply nlookup_In; exact Ey] | rewrite Hka; reflexivity]. }
          rewrite Hadd in H. destruct H as [H|[]]. congruence. }
    assert (NoAdded : added = [] -> forall k b, In (k, b) m0 -> mem_n k (map fst m) = true).
    { intros Hadd k b Hin. destruct (mem_n k (map fst m)) eqn:E; [reflexivity|]. exfalso.
      assert (In k added).
      { unfold added. apply filter_In. split; [unfold keys_n; apply in_map_iff; exists (k, b); auto | unfold keys_n; rewrite E; reflexivity]. }
      rewrite Hadd in H. exact H. }
    assert (Nd2 : nodup_n (map fst m0) = true) by exact Nd'.
    cbn [wf] in *.
    destruct added as [|ka [|ka2 ar]] eqn:Ead; destruct removed as [|kr [|kr2 rr]] eqn:Erm; try discriminate; cbn [length] in Hsz.
    + (* same key set *)
      assert (Hm' : map_children (mut_check mpr msc s) p m m0 c = Some c').
      { destruct (can_false mpr); [destruct (map_children (mut_check mpr msc s) p m m0 c); [inversion Hm; reflexivity|] |];
          fold nk in Hm; unfold keys_n in Hnk, Hm; rewrite Hnk in Hm; discriminate. }
      rewrite Nd2. cbn [andb]. replace n' with n by lia. rewrite Hmn, Hmx. cbn [andb].
      apply forallb_forall. intros [k b] Hin. cbn [snd]. eapply Hold; [exact Hm' | exact Hsrc | exact Hin | eapply NoAdded; eauto].
    + (* one key removed *)
      destruct (can_true mpr && negb at_min) eqn:Eg; [|discriminate]. apply andb_prop in Eg. destruct Eg as [_ Eg].
      apply negb_true_iff in Eg. unfold at_min in Eg. apply orb_false_iff in Eg. destruct Eg as [Eg0 Ega].
      apply Nat.eqb_neq in Eg0.
      rewrite Nd2. cbn [andb].
      assert (B1 : match mn with Some a => Nat.leb a n' | None => true end = true).
      { destruct mn as [a|]; [|reflexivity]. apply Nat.leb_le in Hmn. apply Nat.eqb_neq in Ega. apply Nat.leb_le. lia. }
      assert (B2 : match mx with Some b => Nat.leb n' b | None => true end = true).
      { destruct mx as [b|]; [|reflexivity]. apply Nat.leb_le in Hmx. apply Nat.leb_le. lia. }
      rewrite B1, B2. cbn [andb].
      apply forallb_forall. intros [k b] Hin. cbn [snd]. eapply Hold; [exact Hm | exact Hsrc | exact Hin | eapply NoAdded; eauto].
    + (* one key added *)
      assert (Hka : mem_n ka (keys_n m) = false).
      { assert (Hin : In ka added) by (rewrite Ead; left; reflexivity). unfold added in Hin.
        apply filter_In in Hin. destruct Hin as [_ Hin]. apply negb_true_iff in Hin. exact Hin. }
      destruct (AddCase ka Hm Hka eq_refl) as [Hroom Hall].
      rewrite Nd2, Hall. cbn [andb]. rewrite andb_true_r.
      assert (B1 : match mn with Some a => Nat.leb a n' | None => true end = true).
      { destruct mn as [a|]; [|reflexivity]. apply Nat.leb_le in Hmn. apply Nat.leb_le. lia. }
      assert (B2 : match mx with Some b => Nat.leb n' b | None => true end = true).
      { destruct mx as [b|]; [|reflexivity]. apply Nat.leb_le in Hmx. apply Nat.leb_le.
        apply andb_prop in Wb2. destruct Wb2 as [Wb2 Wnz]. apply negb_true_iff in Wnz. apply Nat.eqb_neq in Wnz.
        unfold at_min, at_max in Hroom. apply orb_prop in Hroom. destruct Hroom as [Hroom|Hroom].
        - apply orb_prop in Hroom. destruct Hroom as [Hroom|Hroom].
          + apply Nat.eqb_eq in Hroom. lia.
          + destruct mn as [a|]; [|discriminate]. apply Nat.eqb_eq in Hroom. apply Nat.ltb_lt in Wb3. lia.
        - apply negb_true_iff in Hroom. apply Nat.eqb_neq in Hroom. lia. }
      rewrite B1, B2. reflexivity.
  - (* variant *)
    destruct (negb (p_valid mpr)); [discriminate|].
    cbn [wf] in W. repeat (apply andb_prop in W; destruct W as [W ?]). rename H0 into Wall. clear W H1 H2.
    assert (Hc' : name = name0 ->
              (fix look (l : list (string * spec)) : bool :=
                 match l with
                 | [] => false
                 | (k, s') :: r => if String.eqb name k then conforms_g false s' v else look r
                 end) os = true) by (intros _; exact Hc).
    clear Hc. revert H Wall Hc' Hm.
    induction os as [|[k cs] os IHos]; intros HF Wall Hc' Hm; [discriminate|].
    inversion HF; subst. cbn in Wall. apply andb_prop in Wall. destruct Wall as [Wa Wb].
    destruct (String.eqb name0 k) eqn:E0.
    + destruct (String.eqb name name0) eqn:E1.
      * apply String.eqb_eq in E1. subst name0. destruct (can_false mpr); [|discriminate].
        specialize (Hc' eq_refl). rewrite E0 in Hc'. eapply H1; eauto.
      * destruct (can_true mpr); [|discriminate]. eapply H1; [exact Hreg | exact Wa | | exact Hm].
        apply conforms_weaken. apply wf_init_conforms. exact Wa.
    + apply IHos; auto. intros En. specialize (Hc' En). subst name0. rewrite E0 in Hc'. exact Hc'.
  - (* enum *)
    destruct (String.eqb name name0) eqn:E.
    + apply String.eqb_eq in E. subst. exact Hc.
    + destruct (can_true mpr && mem_s name0 vs) eqn:E2; [|discriminate]. apply andb_prop in E2. apply E2.
  - (* optional *)
    cbn [wf] in W.
    destruct o as [x|], o0 as [y|]; try reflexivity.
    + destruct (can_false mpr); [|discriminate]. eapply IHs; eauto.
    + destruct (can_true mpr); [|discriminate]. eapply IHs; [exact Hreg | exact W | | exact Hm].
      apply conforms_weaken. apply wf_init_conforms. exact W.
  - reflexivity.
Qed.

(** with finite reals the full conformance holds *)
Lemma conforms_upgrade : forall s v, conforms_g false s v = true -> reals_finite v = true -> conforms_g true s v = true.
Proof.
  induction s using spec_ind'; intros v Hc Hf; destruct v; cbn [conforms_g reals_finite] in *; try discriminate; try exact Hc.
  - rewrite Hf. exact Hc.
  - (* sub *)
    apply andb_prop in Hc. destruct Hc as [Hc H3]. rewrite Hc. cbn [andb].
    rewrite forallb_forall in *. intros [k cs] Hin. specialize (H3 (k, cs) Hin). cbn [fst snd] in *.
    destruct (slookup k m) as [a|] eqn:El; [|discriminate]. rewrite Forall_forall in H. apply (H (k, cs) Hin); [exact H3|].
    assert (Hina : In (k, a) m).
    { clear -El. induction m as [|[k' a'] m IH]; cbn in El; [discriminate|]. destruct (String.eqb k k') eqn:E.
      - inversion El; subst. apply String.eqb_eq in E. subst. left. reflexivity.
      - right. apply IH. exact El. }
    apply (Hf (k, a) Hina).
  - apply andb_prop in Hc. destruct Hc as [H1 H2]. rewrite H1. cbn [andb].
    rewrite forallb_forall in *. intros x Hx. apply IHs; [apply H2; exact Hx | apply Hf; exact Hx].
  - apply andb_prop in Hc. destruct Hc as [Hc H4]. rewrite Hc. cbn [andb].
    rewrite forallb_forall in *. intros x Hx. apply IHs; [apply H4; exact Hx | apply (Hf x Hx)].
  - (* variant *)
    revert H Hc. induction os as [|[k cs] os IHos]; intros HF Hc; [discriminate|].
    inversion HF; subst. destruct (String.eqb name k); [apply H1; assumption | apply IHos; assumption].
  - destruct o; [apply IHs; assumption | reflexivity].
Qed.

Corollary mutate_conforms_fin : forall s mp ms p c v v' c',
  map_keys_registered_before_next_key = true ->
  wf s = true -> conforms s v = true -> mut_check mp ms s p c v v' = Some c' -> reals_finite v' = true ->
  conforms s v' = true.
Proof.
  intros. apply conforms_upgrade; [|assumption]. eapply mutate_conforms; eauto. apply conforms_weaken. assumption.
Qed.
