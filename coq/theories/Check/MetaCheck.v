(** * MetaCheck: acceptor and monitors for meta-stream observations: direct calls of
    [meta_adapt::mutate] / [create_exploratory] and sampled frequencies of
    [SelectionImpl::select_value] (both reached through the cfg-guarded re-exports). *)
From Coq Require Import String.
From Coq Require Import List NArith ZArith QArith Bool.
From Flocq Require Import IEEE754.BinarySingleNaN.
From Cambrian Require Import Base.F64 SourceFacts MetaAdapt Selection Termination Check.OpsCheck.
Import ListNotations.

Definition quad := (Z * Z * Z * Z)%type.
Definition mp_of (q : quad) : mparams :=
  let '(a, b, c, d) := q in mkMp (of_bits a) (of_bits b) (of_bits c) (of_bits d).

Inductive meta_obs :=
| MMut (idx : N) (expl : bool) (inp : quad) (outs : list quad)
| MSel (idx : N) (pbits : Z) (n : nat) (counts : list N)
| MBench (idx : N) (prob : nat) (nc : N) (f0 fbest : Z)
| MInproc (idx : N) (nc budget peak started : N) (ok : bool)
| MTerm (idx : N) (crits : list crit) (res : option compiled)
| MInprocFail (idx : N) (nc started still_executing : N) (is_err : bool).

(** ** meta_adapt: what [mutate] can return for SOME factors in [floor, ceil] (necessary
    condition: multiplication and [min] are monotone, the input is non-negative) *)
Definition prob_between (v out : f64) : bool :=
  if rescale_prob_clamped_to_one
  then fle (fmin (fmul v mfloor) fone) out && fle out (fmin (fmul v mceil) fone)
  else fle (fmul v mfloor) out && fle out (fmul v mceil).
Definition scale_between (v out : f64) : bool := fle (fmul v mfloor) out && fle out (fmul v mceil).

Definition mut_acc (i o : mparams) : bool :=
  prob_between (m_cprob i) (m_cprob o) && prob_between (m_spress i) (m_spress o) &&
  prob_between (m_mprob i) (m_mprob o) && scale_between (m_mscale i) (m_mscale o).

(** C14/C15: probabilities stay in [0,1]; the scale stays positive and finite as long as it was
    within [2^-900, 2^900] *)
Definition mut_mon (i o : mparams) : bool :=
  m_valid o &&
  (negb (fle tame_lo (m_mscale i) && fle (m_mscale i) tame_hi) || (fin (m_mscale o) && flt fzero (m_mscale o))).

(** ** selection: observed frequencies against [sel_dist] at the exact rational value of the pressure *)
Definition f2q (x : f64) : Q :=
  match x with
  | B754_finite s m e _ =>
      let z := if s then Zneg m else Zpos m in
      if Z.leb 0 e then inject_Z (z * 2 ^ e) else Qmake z (Pos.pow 2 (Z.to_pos (- e)))
  | _ => 0
  end.

Definition qabs (q : Q) : Q := if Qle_bool 0 q then q else Qopp q.
Definition qn (n : N) : Q := inject_Z (Z.of_N n).

(** |count - K p| <= 3 + 7 sqrt(K p (1-p)), squared *)
Definition freq_ok (k : N) (p : Q) (count : N) : bool :=
  let d := Qminus (qabs (Qminus (qn count) (Qmult (qn k) p))) (3 # 1) in
  Qle_bool d 0 || Qle_bool (Qmult d d) (Qmult (49 # 1) (Qmult (qn k) (Qmult p (Qminus 1 p)))).

Definition sel_acc (pbits : Z) (n : nat) (counts : list N) : bool :=
  let p := f2q (of_bits pbits) in
  let k := fold_left N.add counts 0%N in
  let d := sel_dist p n in
  Nat.eqb (length counts) n &&
  forallb (fun cp => freq_ok k (Qred (snd cp)) (fst cp)) (combine counts d).

(** direct test of "the probability of rank i never increases with i" on the counts:
    count_j <= count_i + 3 + 7 sqrt(count_i + count_j) for i < j *)
Fixpoint mono_counts (l : list N) : bool :=
  match l with
  | [] => true
  | a :: r =>
      forallb (fun b => let d := (Z.of_N b - Z.of_N a - 3)%Z in
                        Z.leb d 0 || Z.leb (d * d) (49 * (Z.of_N a + Z.of_N b))) r && mono_counts r
  end.

Definition sel_mon (pbits : Z) (n : nat) (counts : list N) : bool :=
  mono_counts counts &&
  (* pressure 1: always the best-ranked *)
  (negb (Z.eqb pbits 0x3FF0000000000000) || forallb (N.eqb 0) (tl counts)).

(** ** benchmark battery (C17): improvement factors required of the three real-valued problems
    (sphere 1-d: 20x, sphere 5-d: 10x, badly scaled: 100x; the worst ratios seen over 120 completion
    orders on the unchanged tree were 4e-4, 2e-3 and 6e-5); the discrete problems (optimum on a
    bound, integer grid, one-max, map size, variant/enum choice) must reach the known optimum 0 *)
Definition bench_ok (prob : nat) (nc : N) (f0 fb : f64) : bool :=
  match prob with
  | 0%nat => fle fb (fmul f0 (of_bits 0x3FA999999999999A))   (* 0.05 *)
  | 1%nat => fle fb (fmul f0 (of_bits 0x3FB999999999999A))   (* 0.1 *)
  | 2%nat => fle fb (fmul f0 (if N.eqb nc 1 then of_bits 0x3F847AE147AE147B else of_bits 0x3FB999999999999A))   (* 0.01 sequential, 0.1 four at a time (worst of 400 orders: 1e-3) *)
  | 7%nat => fle fb (fmul f0 (of_bits 0x3FA999999999999A))   (* tiny length scale (1e-12): 0.05 *)
  | 10%nat => (* needs steps far below the spec scale.  Sequential runs do not depend on the completion order: 1e-16
                 (2e-24 on the unchanged tree).  Four at a time the trajectory depends on it and the distribution
                 has a heavy tail: 1e-4 (worst of 400 orders: 4e-8) *)
              fle fb (fmul f0 (if N.eqb nc 1 then of_bits 0x3C9CD2B297D889BC else of_bits 0x3F1A36E2EB1C432D))
  | 9%nat => (* optimum 1e5 step scales away.  Sequential: 1e-4 (5e-17 on the unchanged tree).  Four at a time the
                tail is too heavy for a useful threshold (worst of 400 orders: 0.42): only "no worse than the start" *)
             if N.eqb nc 1 then fle fb (fmul f0 (of_bits 0x3F1A36E2EB1C432D)) else fle fb f0
  | _ => feq fb fzero
  end.

Local Open Scope string_scope.
Definition judge_meta (o : meta_obs) : string :=
  match o with
  | MMut idx expl inp outs =>
      let i := if expl then expl_base else mp_of inp in
      let acc := forallb (fun q => mut_acc i (mp_of q)) outs in
      let mon := forallb (fun q => mut_mon i (mp_of q)) outs in
      "META idx=" ++ N2s idx ++ " acc=" ++ (if acc then "ok" else "rej/mutate") ++
      " C14=" ++ b2s mon ++ " C15=" ++ b2s mon ++ " C17=1 END"
  | MSel idx pbits n counts =>
      "META idx=" ++ N2s idx ++ " acc=" ++ (if sel_acc pbits n counts then "ok" else "rej/selection") ++
      " C14=1 C15=1 C17=" ++ b2s (sel_mon pbits n counts) ++ " END"
  | MInprocFail idx nc started still is_err =>
      (* C06, threaded in-process evaluation: the failing run returns an error, and only once the
         evaluations in flight have ended *)
      "META idx=" ++ N2s idx ++ " acc=ok C14=1 C15=1 C17=1 C06=" ++ b2s (is_err && N.eqb still 0) ++ " END"
  | MTerm idx crits res =>
      let oeq {A} (e : A -> A -> bool) (a b : option A) := match a, b with Some x, Some y => e x y | None, None => true | _, _ => false end in
      let same := match Termination.compile crits, res with
                  | Some a, Some b => oeq N.eqb (k_num a) (k_num b) && oeq Z.eqb (k_target a) (k_target b) &&
                                      oeq N.eqb (k_after a) (k_after b) && Bool.eqb (k_signal a) (k_signal b)
                  | None, None => true
                  | _, _ => false
                  end in
      (* C03: a budget that is listed (once) is the budget that is compiled, whatever else is listed *)
      let budget_kept := match res with
                         | Some b => forallb (fun c => match c with KNum n => oeq N.eqb (k_num b) (Some n) | _ => true end) crits
                         | None => true
                         end in
      "META idx=" ++ N2s idx ++ " acc=" ++ (if same then "ok" else "rej/termination") ++
      " C14=1 C15=1 C17=1 C03=" ++ b2s budget_kept ++ " C04=" ++ b2s same ++ " END"
  | MInproc idx nc budget peak started ok =>
      (* C05, threaded in-process evaluation: never more than nc at once, and nc are reached
         (the budget is a multiple of nc, so every wave can fill); exactly the budget is started *)
      "META idx=" ++ N2s idx ++ " acc=ok C14=1 C15=" ++ b2s ok ++ " C17=1 C05=" ++
      b2s (N.leb peak nc && N.eqb peak (N.min nc budget) && N.eqb started budget && ok) ++ " END"
  | MBench idx prob nc f0 fb =>
      "META idx=" ++ N2s idx ++ " acc=ok C14=1 C15=" ++ b2s (negb (fnan (of_bits fb))) ++
      " C17=" ++ b2s (bench_ok prob nc (of_bits f0) (of_bits fb)) ++ " END"
  end.
