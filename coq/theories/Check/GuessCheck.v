(** * GuessCheck: acceptor and monitors for guess-stream observations. *)
From Coq Require Import String Ascii.
From Coq Require Import List NArith ZArith Bool.
From Flocq Require Import IEEE754.BinarySingleNaN.
From Cambrian Require Import Base.F64 SourceFacts Syntax Ops SpecBuild Codec Check.OpsCheck.
Import ListNotations.
Local Open Scope string_scope.

Inductive gres := GOk (v : value) (j : json) | GErr (e : jerr) | GErrOther | GPanic.
Record guess_obs := mkGuessObs {
  go_idx : N; go_expect : N; go_spec : spec; go_guess : json; go_canon : json; go_res : gres; go_text_same : bool }.

(** equality of values / json trees with maps compared as maps *)
Fixpoint veqm (a b : value) {struct a} : bool :=
  match a, b with
  | VReal x, VReal y => fbits_eq x y
  | VInt x, VInt y => Z.eqb x y
  | VBool x, VBool y => Bool.eqb x y
  | VSub m, VSub m' =>
      Nat.eqb (length m) (length m') && nodup_s (map fst m') &&
      (fix go (l : list (string * value)) : bool :=
         match l with [] => true | (k, x) :: r => match slookup k m' with Some y => veqm x y && go r | None => false end end) m
  | VArray l, VArray l' =>
      (fix go (l l' : list value) : bool :=
         match l, l' with [], [] => true | x :: r, y :: r' => veqm x y && go r r' | _, _ => false end) l l'
  | VAnonMap m, VAnonMap m' =>
      Nat.eqb (length m) (length m') && nodup_n (map fst m') &&
      (fix go (l : list (N * value)) : bool :=
         match l with [] => true | (k, x) :: r => match nlookup k m' with Some y => veqm x y && go r | None => false end end) m
  | VVariant n x, VVariant n' y => String.eqb n n' && veqm x y
  | VEnum n, VEnum n' => String.eqb n n'
  | VOptional None, VOptional None => true
  | VOptional (Some x), VOptional (Some y) => veqm x y
  | VConst, VConst => true
  | _, _ => false
  end.

Fixpoint jeqm (a b : json) {struct a} : bool :=
  match a, b with
  | JNull, JNull => true
  | JBool x, JBool y => Bool.eqb x y
  | JInt x, JInt y => Z.eqb x y
  | JFloat x, JFloat y => fbits_eq x y
  | JStr x, JStr y => String.eqb x y
  | JArr l, JArr l' =>
      (fix go (l l' : list json) : bool :=
         match l, l' with [], [] => true | x :: r, y :: r' => jeqm x y && go r r' | _, _ => false end) l l'
  | JObj m, JObj m' =>
      Nat.eqb (length m) (length m') && nodup_s (map fst m') &&
      (fix go (l : list (string * json)) : bool :=
         match l with [] => true | (k, x) :: r => match slookup k m' with Some y => jeqm x y && go r | None => false end end) m
  | _, _ => false
  end.

Definition jerr_eqb (a b : jerr) : bool :=
  match a, b with
  | JWrongType, JWrongType | JNumberConversionFailed, JNumberConversionFailed
  | JValueNotWithinBounds, JValueNotWithinBounds | JUnexpectedKey, JUnexpectedKey
  | JMandatoryValueMissing, JMandatoryValueMissing | JInvalidAnonMapKey, JInvalidAnonMapKey
  | JUnknownVariant, JUnknownVariant | JExactlyOneVariantValueRequired, JExactlyOneVariantValueRequired
  | JUnknownEnumValue, JUnknownEnumValue | JWrongArrayLength, JWrongArrayLength
  | JMapSizeNotWithinBounds, JMapSizeNotWithinBounds => true
  | _, _ => false
  end.

Definition judge_guess (o : guess_obs) : string :=
  let model := from_json (go_spec o) (go_guess o) in
  let acc :=
    match model, go_res o with
    | JOk v, GOk v' j' =>
        if veqm v v' then
          match to_json v with
          | JOk j => if jeqm j j' then "ok" else "rej/to_json"
          | _ => "rej/to_json-panics"
          end
        else "rej/value"
    | JErr e, GErr e' => if jerr_eqb e e' then "ok" else "errkind"
    | JErr _, GErrOther => "errkind"
    | JOk _, _ => "rej/model-accepts"
    | JErr _, GOk _ _ => "rej/model-rejects"
    | JErr _, GPanic => "rej/panic"
    | JPanic, _ => "rej/model-panics"
    end in
  let mon :=
    match go_res o with
    | GPanic => false
    | GOk v j' =>
        wf (go_spec o) && conforms (go_spec o) v && negb (N.eqb (go_expect o) 2) &&
        (negb (N.eqb (go_expect o) 1) || jeqm (go_canon o) j') && go_text_same o
    | _ => negb (N.eqb (go_expect o) 1) && go_text_same o
    end in
  (* C01, base case: an accepted guess conforms to the spec *)
  let mon01 := match go_res o with GOk v _ => conforms (go_spec o) v | _ => true end in
  ("GUESS idx=" ++ N2s (go_idx o) ++ " acc=" ++ acc ++ " C11=" ++ OpsCheck.b2s mon ++ " C01=" ++ OpsCheck.b2s mon01 ++
   " C15=" ++ OpsCheck.b2s (match go_res o with GPanic => false | _ => true end) ++
   " accepted=" ++ OpsCheck.b2s (match go_res o with GOk _ _ => true | _ => false end) ++ " END").
