(** * AlgoCheck: acceptor and monitors for algo-stream observations: operation sequences on the
    real [algorithm::AlgoContext] ([next_individual] / [process_individual_eval]) with the
    population read back after every operation (cfg-guarded read-only views).  The acceptor
    replays the same operations on the model's algorithm context ([Ctl.next_individual],
    [Ctl.process] over binary64 with [fcmp]/[fmean]) and compares the whole population — ids in
    order, ordering keys, states, sample vectors — the id counter and the best-seen final. *)
From Coq Require Import String.
From Coq Require Import List NArith ZArith Bool.
From Flocq Require Import IEEE754.BinarySingleNaN.
From Cambrian Require Import Base.F64 SourceFacts Syntax Ctl Check.OpsCheck.
Import ListNotations.

(** population entry as read back: id, ordering-key objective (bits), kind 0/1/2, samples (bits) *)
Definition pent := (N * Z * N * list Z)%type.

Inductive aop :=
(* [ids]: ids of the population in order, after the operation; [snap]: the full population, every
   few operations and at the end (large literals are slow to read) *)
| ANext (id : N) (val : N) (ids : list N) (snap : option (list pent)) (next_id : N)          (* next_individual returned this id / interned value *)
| ADone (id : N) (res : option Z) (ids : list N) (snap : option (list pent)) (next_id : N) (best : option (Z * N)).   (* process_individual_eval *)

Record algo_obs := mkAlgoObs { ao_idx : N; ao_ss : nat; ao_init : N; ao_ops : list aop }.

Definition aalgo := Ctl.algo N unit f64.
Definition aind := Ctl.ind N unit f64.

Definition st_kind (s : istate f64) : N := match s with PendingEval _ => 0 | Ready _ => 1 | Final _ => 2 end%N.
Definition st_vals (s : istate f64) : list f64 := match s with PendingEval vs | Ready vs => vs | Final x => [x] end.

Definition ent_eqb (e : (key f64 * aind)) (p : pent) : bool :=
  let '(id, kb, kind, vals) := p in
  (* compared on the bit patterns: [to_bits] is cheap, [of_bits] is not *)
  N.eqb (i_id (snd e)) id && Z.eqb (to_bits (fst (fst e))) kb && N.eqb (snd (fst e)) id &&
  N.eqb (st_kind (i_st (snd e))) kind &&
  (fix go (a : list f64) (b : list Z) : bool :=
     match a, b with [], [] => true | x :: r, y :: s => Z.eqb (to_bits x) y && go r s | _, _ => false end)
    (st_vals (i_st (snd e))) vals.

Fixpoint pop_eqb (p : list (key f64 * aind)) (s : list pent) : bool :=
  match p, s with
  | [], [] => true
  | e :: r, x :: t => ent_eqb e x && pop_eqb r t
  | _, _ => false
  end.
Fixpoint ids_eqb (p : list (key f64 * aind)) (s : list N) : bool :=
  match p, s with
  | [], [] => true
  | e :: r, x :: t => N.eqb (i_id (snd e)) x && ids_eqb r t
  | _, _ => false
  end.
Definition snap_eqb (p : list (key f64 * aind)) (ids : list N) (s : option (list pent)) : bool :=
  ids_eqb p ids && match s with Some l => pop_eqb p l | None => true end.

Section Replay.
  Variable ss : nat.
  Variable init : N.

  (** held = individuals handed out and not yet processed *)
  Record rst := mkRst { r_algo : aalgo; r_held : list aind }.

  Fixpoint take_held (id : N) (l : list aind) : option (aind * list aind) :=
    match l with
    | [] => None
    | i :: r => if N.eqb (i_id i) id then Some (i, r)
                else match take_held id r with Some (j, r') => Some (j, i :: r') | None => None end
    end.

  Definition step_aop (st : rst) (x : aop) : option rst :=
    match x with
    | ANext id val ids snap nid =>
        let a := r_algo st in
        (* the re-evaluation draw is read off the result: an id below the counter is a re-evaluation *)
        let o := mkOrc (N.ltb id (a_next_id a)) val tt in
        let '(i, a') := Ctl.next_individual min_pop_size_for_reeval ss init a o in
        if N.eqb (i_id i) id && N.eqb (i_val i) val && snap_eqb (a_pop a') ids snap && N.eqb (a_next_id a') nid
        then Some (mkRst a' (r_held st ++ [i])) else None
    | ADone id res ids snap nid best =>
        match take_held id (r_held st) with
        | None => None
        | Some (i, held') =>
            match Ctl.process fcmp fmean max_pop_size ss (r_algo st) i (option_map of_bits res) with
            | None => None
            | Some a' =>
                if snap_eqb (a_pop a') ids snap && N.eqb (a_next_id a') nid &&
                   match Ctl.best_seen_final (a_pop a'), best with
                   | Some (x, v), Some (xb, vb) => Z.eqb (to_bits x) xb && N.eqb v vb
                   | None, None => true
                   | _, _ => false
                   end
                then Some (mkRst a' held') else None
            end
        end
    end.

  Fixpoint sim (l : list aop) (st : rst) (k : N) : option N :=
    match l with
    | [] => None
    | x :: r => match step_aop st x with Some st' => sim r st' (k + 1)%N | None => Some k end
    end.
End Replay.

Definition accept (o : algo_obs) : option N :=
  sim (ao_ss o) (ao_init o) (ao_ops o) (mkRst (mkAlgo [] false 0%N) []) 0%N.

(** ** monitors on the implementation's snapshots alone *)
Definition snap_of (x : aop) : list pent := match x with ANext _ _ _ (Some s) _ | ADone _ _ _ (Some s) _ _ => s | _ => [] end.
Definition ids_of (x : aop) : list N := match x with ANext _ _ l _ _ | ADone _ _ l _ _ _ => l end.

(** C08: ids in the population are pairwise distinct; nobody holds more than ss samples; the
    population never holds a pending individual; never more than max_pop_size individuals *)
Definition snap_ok08 (ss : nat) (s : list pent) : bool :=
  nodup_n (map (fun p => fst (fst (fst p))) s) &&
  forallb (fun p => let '(_, _, kind, vals) := p in
                    negb (N.eqb kind 0) && Nat.leb (length vals) ss &&
                    (negb (N.eqb kind 1) || Nat.ltb (length vals) ss)) s &&
  Nat.leb (length s) max_pop_size.
Definition mon_C08 (o : algo_obs) : bool :=
  forallb (fun x => snap_ok08 (ao_ss o) (snap_of x) && nodup_n (ids_of x) && Nat.leb (length (ids_of x)) max_pop_size) (ao_ops o).

(** C02: the population is ordered by (objective, id); the best-seen final is the first final entry *)
(** numeric order of finite binary64 values read off their bit patterns (sign-magnitude; the two
    zeros are equal) *)
Definition bits_val (b : Z) : Z :=
  let m := (b mod 0x8000000000000000)%Z in if Z.ltb b 0x8000000000000000 then m else (- m)%Z.
Fixpoint sorted_snap (s : list pent) : bool :=
  match s with
  | a :: ((b :: _) as r) =>
      let '(ia, ka, _, _) := a in let '(ib, kb, _, _) := b in
      (Z.ltb (bits_val ka) (bits_val kb) || (Z.eqb (bits_val ka) (bits_val kb) && N.ltb ia ib)) && sorted_snap r
  | _ => true
  end.
Definition first_final (s : list pent) : option Z :=
  match filter (fun p => N.eqb (snd (fst p)) 2) s with
  | (_, _, _, [x]) :: _ => Some x
  | _ => None
  end.
Definition mon_C02 (o : algo_obs) : bool :=
  forallb (fun x => sorted_snap (snap_of x) &&
                    match x with
                    | ADone _ _ _ (Some s) _ best =>
                        match first_final s, best with
                        | Some x, Some (xb, _) => Z.eqb x xb
                        | None, None => true
                        | _, _ => false
                        end
                    | _ => true
                    end) (ao_ops o).

Local Open Scope string_scope.
Definition judge_algo (o : algo_obs) : string :=
  "ALGO idx=" ++ N2s (ao_idx o) ++ " acc=" ++ match accept o with None => "ok" | Some k => "rej@" ++ N2s k end ++
  " C02=" ++ b2s (mon_C02 o) ++ " C08=" ++ b2s (mon_C08 o) ++ " END".
