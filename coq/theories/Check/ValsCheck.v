(** * ValsCheck: every parameter set a run handed to the objective function (and the reported
    best-seen) conforms to the spec (C01 at run level). *)
From Coq Require Import String.
From Coq Require Import List NArith ZArith Bool.
From Cambrian Require Import Base.F64 Syntax Codec Check.OpsCheck.
Import ListNotations.

Definition conforming_json (s : spec) (j : json) : bool :=
  match from_json s j with JOk v => conforms s v | _ => false end.

Definition judge_vals (idx : N) (s : spec) (vals : list json) : string :=
  ("VALS idx=" ++ N2s idx ++ " acc=ok C01=" ++ b2s (wf s && forallb (conforming_json s) vals) ++
   " n=" ++ N2s (N.of_nat (length vals)) ++ " END")%string.
