(** * SpecCheck: acceptor and monitors for spec-stream observations. *)
From Coq Require Import String Ascii.
From Coq Require Import List NArith ZArith Bool.
From Flocq Require Import IEEE754.BinarySingleNaN.
From Cambrian Require Import Base.F64 SourceFacts Syntax Ops SpecBuild Check.OpsCheck.
Import ListNotations.
Local Open Scope string_scope.

Inductive sres := ROk (s : spec) | RErr (e : serr) | RErrOther | RPanic.
Record spec_obs := mkSpecObs { so_idx : N; so_expect : N; so_yaml : yaml; so_res : sres }.

Definition of_eqb (a b : option f64) : bool :=
  match a, b with Some x, Some y => fbits_eq x y | None, None => true | _, _ => false end.
Definition oz_eqb (a b : option Z) : bool :=
  match a, b with Some x, Some y => Z.eqb x y | None, None => true | _, _ => false end.
Definition on_eqb (a b : option nat) : bool :=
  match a, b with Some x, Some y => Nat.eqb x y | None, None => true | _, _ => false end.
Fixpoint ls_eqb (a b : list string) : bool :=
  match a, b with [] , [] => true | x :: r, y :: s => String.eqb x y && ls_eqb r s | _, _ => false end.

(** equality of specs; sub members and variant options compared as maps *)
Fixpoint spec_eqb (a b : spec) {struct a} : bool :=
  match a, b with
  | SReal i s mn mx, SReal i' s' mn' mx' => fbits_eq i i' && fbits_eq s s' && of_eqb mn mn' && of_eqb mx mx'
  | SInt i s mn mx, SInt i' s' mn' mx' => Z.eqb i i' && fbits_eq s s' && oz_eqb mn mn' && oz_eqb mx mx'
  | SBool x, SBool y => Bool.eqb x y
  | SSub ms, SSub ms' =>
      Nat.eqb (length ms) (length ms') && nodup_s (map fst ms') &&
      (fix go (l : list (string * spec)) : bool :=
         match l with
         | [] => true
         | (k, s) :: r => match slookup k ms' with Some s' => spec_eqb s s' && go r | None => false end
         end) ms
  | SArray v n, SArray v' n' => Nat.eqb n n' && spec_eqb v v'
  | SAnonMap v i mn mx, SAnonMap v' i' mn' mx' => Nat.eqb i i' && on_eqb mn mn' && on_eqb mx mx' && spec_eqb v v'
  | SVariant os i, SVariant os' i' =>
      String.eqb i i' && Nat.eqb (length os) (length os') && nodup_s (map fst os') &&
      (fix go (l : list (string * spec)) : bool :=
         match l with
         | [] => true
         | (k, s) :: r => match slookup k os' with Some s' => spec_eqb s s' && go r | None => false end
         end) os
  | SEnum vs i, SEnum vs' i' => ls_eqb vs vs' && String.eqb i i'
  | SOptional v b, SOptional v' b' => Bool.eqb b b' && spec_eqb v v'
  | SConst, SConst => true
  | _, _ => false
  end.

Definition serr_eqb (a b : serr) : bool :=
  match a, b with
  | EValueMustBeMap, EValueMustBeMap | EUnsignedIntConversionFailed, EUnsignedIntConversionFailed
  | EInvalidAttributeValueType, EInvalidAttributeValueType | EInvalidAttributeKeyType, EInvalidAttributeKeyType
  | EUnknownTypeName, EUnknownTypeName | EInitNotWithinBounds, EInitNotWithinBounds
  | EInitSizeNotWithinBounds, EInitSizeNotWithinBounds | EInvalidBounds, EInvalidBounds
  | EInvalidSizeBounds, EInvalidSizeBounds | EArraySize, EArraySize | EZeroMaxSize, EZeroMaxSize
  | EMandatoryAttributeMissing, EMandatoryAttributeMissing | EUnexpectedAttribute, EUnexpectedAttribute
  | EEmptySub, EEmptySub | ENotEnoughVariantValues, ENotEnoughVariantValues
  | ENotEnoughEnumValues, ENotEnoughEnumValues | EInitNotAKnownValue, EInitNotAKnownValue
  | EEnumItemsMustBeString, EEnumItemsMustBeString | ENonFiniteNumber, ENonFiniteNumber
  | EScaleMustBeStrictlyPositive, EScaleMustBeStrictlyPositive | EIllegalTypeDefName, EIllegalTypeDefName => true
  | _, _ => false
  end.

(** every entry of a sub that is not "type" and not a type definition ("typeDef <name>") is a
    declared parameter and must be a member of the resulting sub; checked along inline types only *)
Definition is_typedef_key (k : string) : bool := String.prefix "typeDef " k.
Fixpoint members_present (fuel : nat) (y : yaml) (s : spec) : bool :=
  match fuel with
  | O => true
  | S f =>
      match y, s with
      | YMap m, SSub ms =>
          match yget "type" m with
          | None | Some (YStr "sub") =>
              forallb (fun kv =>
                         match fst kv with
                         | YStr k =>
                             if String.eqb k "type" || is_typedef_key k then true
                             else match slookup k ms with
                                  | Some s' => members_present f (snd kv) s'
                                  | None => false
                                  end
                         | _ => true
                         end) m
          | _ => true
          end
      | YMap m, SArray vt _ | YMap m, SAnonMap vt _ _ _ | YMap m, SOptional vt _ =>
          match yget "valueType" m with Some v => members_present f v vt | None => true end
      | YMap m, SVariant os _ =>
          forallb (fun kv => match fst kv with
                             | YStr k => match slookup k os with Some s' => members_present f (snd kv) s' | None => true end
                             | _ => true
                             end) m
      | _, _ => true
      end
  end.

Definition judge_spec (o : spec_obs) : string :=
  let model := build (so_yaml o) in
  let acc :=
    match model, so_res o with
    | Ok s, ROk s' => if spec_eqb s s' then "ok" else "rej/spec"
    | Err e, RErr e' => if serr_eqb e e' then "ok" else "errkind"
    | Err _, RErrOther => "errkind"
    | Ok _, _ => "rej/model-accepts"
    | Err _, ROk _ => "rej/model-rejects"
    | Err _, RPanic => "rej/panic"
    end in
  let mon :=
    match so_res o with
    | RPanic => false
    | ROk s =>
        wf s && conforms s (init_val s) && members_present 50 (so_yaml o) s && negb (N.eqb (so_expect o) 2)
    | _ => negb (N.eqb (so_expect o) 1)
    end in
  ("SPEC idx=" ++ N2s (so_idx o) ++ " acc=" ++ acc ++ " C10=" ++ b2s mon ++
   " C15=" ++ b2s (match so_res o with RPanic => false | _ => true end) ++
   " accepted=" ++ b2s (match so_res o with ROk _ => true | _ => false end) ++ " END").
