(** * CliCheck: acceptor and monitors for CLI-stream observations (the real binary with
    generated options, spec files and objective scripts). *)
From Coq Require Import String Ascii.
From Coq Require Import List NArith ZArith Bool.
From Flocq Require Import IEEE754.BinarySingleNaN.
From Cambrian Require Import Base.F64 SourceFacts Syntax Ops SpecBuild Codec RoundTrip Cli Check.OpsCheck.
Import ListNotations.
Local Open Scope string_scope.

Inductive kclass := KAccept | KReject | KSeq | KSeqNull | KFail.
Inductive guess_mode := GNone | GInit | GOther | GBigKey | GBadJson | GNonConforming.
Record child := mkChild { ch_name : string; ch_user_args : list string; ch_json : option json; ch_seed : string }.

Record cli_obs := mkCliObs {
  c_idx : N; c_spec : nat; c_user_args : list string; c_n : N; c_nc : option N; c_ss : option N;
  c_target : option f64; c_has_terminate_after : bool; c_has_kill_after : bool; c_outdir : outdir_mode;
  c_invalid : option string; c_guess : guess_mode; c_behaviours : list (kclass * bool);
  c_code : Z; c_stdout_lines : nat; c_best : option json; c_children : list child; c_files : list string;
  c_sentinel_ok : option bool; c_rows : list (N * N * json * option f64); c_rows_ok : bool;
  c_bestfile : option json; c_summary : option (f64 * N * N); c_survivors : nat; c_panicked : bool;
  c_timed_out : bool; c_verbose_same : bool; c_has_failed_stdout : bool;
  c_wall_ms : N; c_limit_ms : option N; c_all_fast_ok : bool; c_guess_json : option json; c_failed_to_reap : bool; c_deadline_ms : option N; c_sigint : bool; c_gaveup : nat; c_values : list (option f64) }.

(** the spec files of tools/clistream.py *)
Definition cli_spec (i : nat) : spec :=
  match i with
  | 0%nat => SSub [("x", SReal (of_bits 0x3FF8000000000000) fone (Some (of_bits 0xC024000000000000)) (Some (of_bits 0x4024000000000000)))]
  | 1%nat => SSub [("a b", SEnum ["p q"; "it's"; "semi;colon"; "$HOME"; bs [98;97;99;107;92;115;108;97;115;104]] "it's");
                   (bs [113;117;111;34;116;101], SBool true);
                   ("m", SAnonMap (SInt 3 fone (Some 0%Z) (Some 9%Z)) 2 None (Some 3%nat))]
  | 2%nat => SSub [("v", SVariant [("a", SConst); ("b", SReal (of_bits 0x3FD0000000000000) (of_bits 0x3FE0000000000000) (Some fzero) None)] "a");
               ("o", SOptional (SArray (SBool false) 2) false)]
  | 4%nat => (* a root that is not a sub: the guess [null] is valid and differs from the initial value *)
         SOptional (SReal fone fone None None) true
  | _ => (* member names: "x" / "xy" followed by 40 times U+00E4 (bytes 195 164) *)
         let tail := fold_right (fun _ s => String (Ascii.ascii_of_nat 195) (String (Ascii.ascii_of_nat 164) s)) EmptyString (seq 0 40) in
         SSub [(String "x" tail, SReal (of_bits 0x3FF8000000000000) fone None None);
               (String "x" (String "y" tail), SBool true)]
  end.

Definition opt_is {A} (o : option A) : bool := match o with Some _ => true | None => false end.
Definition nc_of (o : cli_obs) : N := match c_nc o with Some n => n | None => 1%N end.
Definition ss_of (o : cli_obs) : N := match c_ss o with Some n => n | None => default_ind_sample_size end.

Definition opts_of (o : cli_obs) : cli_opts :=
  let inv s := match c_invalid o with Some x => String.eqb x s | None => false end in
  mkOpts (inv "nc0") (inv "ss0") (inv "bad_terminate_after") (c_outdir o)
         (negb (inv "bad_spec" || inv "missing_spec")) (inv "bad_kill_after")
         (negb (inv "bad_guess_json")) (negb (inv "nonconforming_guess")).

Definition conforming_json (s : spec) (j : json) : bool :=
  match from_json s j with JOk v => conforms s v | _ => false end.

(** class of the k-th evaluation's scripted behaviour (the last one repeats) *)
Definition beh_at (o : cli_obs) (k : nat) : kclass * bool :=
  nth k (c_behaviours o) (last (c_behaviours o) (KAccept, false)).
Definition class_to_model (k : kclass) : child_class :=
  match k with
  | KAccept => classify_child true (DocJson (JObj [("objFuncVal", JInt 3)]))
  | KReject => classify_child true (DocJson (JObj []))
  | KSeq => classify_child true (DocJson (JArr [JFloat (of_bits 0x3FE0000000000000)]))
  | KSeqNull => classify_child true (DocJson (JArr [JNull]))
  | KFail => CFail
  end.

(** ** what the model predicts for sequential, untimed runs *)
Fixpoint seq_run (o : cli_obs) (k n : nat) (accepted : bool) : option bool :=
  (* Some true: exit 0; Some false: non-zero; evaluations are processed in seed order *)
  match n with
  | O => Some accepted
  | S n' =>
      match class_to_model (fst (beh_at o k)) with
      | CFail => Some false
      | CAccept _ => seq_run o (S k) n' true
      | CReject => seq_run o (S k) n' accepted
      end
  end.

Definition model_exit_zero (o : cli_obs) : option bool :=
  match pre_launch (opts_of o) with
  | PreError _ => Some false
  | PreLaunch =>
      if negb (co_guess_conforms (opts_of o)) then Some false
      else if match c_invalid o with Some _ => true | None => false end then Some false   (* unlaunchable program *)
      else if N.eqb (nc_of o) 1 && N.eqb (ss_of o) 1 && negb (opt_is (c_target o)) &&
              negb (c_has_terminate_after o) && negb (c_has_kill_after o)
      then seq_run o 0 (N.to_nat (c_n o)) false
      else None
  end.

Definition exit_zero (o : cli_obs) : bool := Z.eqb (c_code o) 0.
Definition pre_error (o : cli_obs) : bool :=
  match pre_launch (opts_of o) with PreError _ => true | PreLaunch => negb (co_guess_conforms (opts_of o)) end.

Definition n_started (o : cli_obs) : nat := length (c_children o).
Definition any_class (o : cli_obs) (p : kclass -> bool) : bool :=
  existsb (fun k => p (fst (beh_at o k))) (seq 0 (n_started o)).

Fixpoint nodup_str (l : list string) : bool :=
  match l with [] => true | a :: r => negb (existsb (String.eqb a) r) && nodup_str r end.
Fixpoint ls_eqb (a b : list string) : bool :=
  match a, b with [], [] => true | x :: r, y :: s => String.eqb x y && ls_eqb r s | _, _ => false end.

(** ** C16 *)
Definition mon_argv (o : cli_obs) : bool :=
  forallb (fun c => ls_eqb (ch_user_args c) (c_user_args o) &&
                    match ch_json c with Some j => conforming_json (cli_spec (c_spec o)) j | None => false end &&
                    String.eqb (ch_seed c) (ch_name c) &&
                    match parse_usize (ch_seed c) with Some _ => true | None => false end) (c_children o) &&
  nodup_str (map ch_seed (c_children o)).

Definition mon_C16 (o : cli_obs) : bool :=
  negb (c_timed_out o) && mon_argv o &&
  (* invalid options: rejected, nothing printed, nothing evaluated *)
  (negb (pre_error o) || (negb (exit_zero o) && Nat.eqb (c_stdout_lines o) 0 && Nat.eqb (n_started o) 0)) &&
  (* an existing output directory is left untouched without --force *)
  match c_outdir o, c_sentinel_ok o with
  | ODExisting, Some ok => ok && Nat.eqb (length (c_files o)) 1
  | ODExisting, None => Nat.eqb (length (c_files o)) 0      (* existed and was empty: still empty *)
  | ODExistingForce, Some ok => pre_error o || negb ok      (* --force: what was there is gone *)
  | _, _ => true
  end &&
  (* success: one stdout line, conforming JSON, files present *)
  (negb (exit_zero o) ||
   (Nat.eqb (c_stdout_lines o) 1 &&
    match c_best o with Some j => conforming_json (cli_spec (c_spec o)) j | None => false end &&
    match c_outdir o with
    | ODNone => true
    | _ => existsb (String.eqb "summary_report.txt") (c_files o) && existsb (String.eqb "detailed_report.csv") (c_files o) &&
           existsb (String.eqb "best_seen.json") (c_files o) &&
           (* the best-seen file is one JSON document conforming to the spec *)
           match c_bestfile o with Some j => conforming_json (cli_spec (c_spec o)) j | None => false end
    end)) &&
  (* failure: nothing on stdout *)
  (exit_zero o || Nat.eqb (c_stdout_lines o) 0) &&
  (* a child result that is neither an accepted value nor a rejection ends the run with an error
     (and dump files when there is an output directory) *)
  (negb (any_class o (fun k => match k with KFail | KSeq | KSeqNull => true | _ => false end)) ||
   (negb (exit_zero o) && (match c_outdir o with ODNone => true | _ => c_has_failed_stdout o end))) &&
  (* only accepted / rejected results, sequential, sample size 1, budget only: success iff something was accepted *)
  match model_exit_zero o with
  | Some b => if any_class o (fun k => match k with KSeq | KSeqNull => true | _ => false end) then true
              else Bool.eqb b (exit_zero o)
  | None => true
  end.

(** a case with a deadline: evaluations in flight would run for 8 s by themselves; the run must be
    over long before that (they were killed: at the per-evaluation limit, or on the abort) *)
Definition within_deadline (o : cli_obs) : bool :=
  match c_deadline_ms o with Some d => negb (c_timed_out o) && N.leb (c_wall_ms o) d | None => true end.

(** ** C03 through the binary: with a budget and nothing else that can end the run (no target, no
    failing or slow child; a time limit, if any, that cannot fire), exactly N children are started *)
Definition mon_C03 (o : cli_obs) : bool :=
  pre_error o || opt_is (c_target o) || opt_is (c_limit_ms o) || c_has_kill_after o || negb (c_all_fast_ok o) ||
  negb (N.eqb (ss_of o) 1) || opt_is (c_invalid o) ||
  N.eqb (N.of_nat (n_started o)) (c_n o).

(** ** C04 through the binary: a time limit that fires while a long evaluation (8 s) is in flight
    ends the run within 4 s of the limit (the child is aborted, with or without -k) *)
(** sequential run with a target and nothing else that can end it early: evaluations are processed
    in seed order; the run stops with the first accepted value at or below the target *)
Definition val_at (o : cli_obs) (k : nat) : option f64 :=
  nth k (c_values o) (last (c_values o) None).
Fixpoint first_hit (o : cli_obs) (t : f64) (k n : nat) : nat * bool :=
  (* number of evaluations started, and whether the target was reached *)
  match n with
  | O => (k, false)
  | S n' =>
      match fst (beh_at o k), val_at o k with
      | KAccept, Some v => if fle v t then (S k, true) else first_hit o t (S k) n'
      | _, _ => first_hit o t (S k) n'
      end
  end.
Definition target_stop_ok (o : cli_obs) : bool :=
  match c_target o with
  | Some t =>
      if N.eqb (nc_of o) 1 && N.eqb (ss_of o) 1 && negb (c_has_terminate_after o) && negb (c_has_kill_after o) &&
         negb (pre_error o) && negb (opt_is (c_invalid o)) && negb (c_sigint o) &&
         negb (any_class o (fun k => match k with KFail | KSeq | KSeqNull => true | _ => false end)) &&
         negb (existsb (fun b => match b with (KFail, _) | (KSeq, _) | (KSeqNull, _) => true | _ => false end) (c_behaviours o))
      then let '(k, hit) := first_hit o t 0 (N.to_nat (c_n o)) in
           Nat.eqb (n_started o) k && (negb hit || exit_zero o)
      else true
  | None => true
  end.

Definition mon_C04 (o : cli_obs) : bool :=
  match c_limit_ms o with
  | Some l => negb (c_timed_out o) && (pre_error o || N.leb (c_wall_ms o) (l + 4000))
  | None => true
  end &&
  (* an interrupt while long evaluations are in flight (the first, fast one was accepted): the run is over
     within the deadline counted from the interrupt, reports that result, and has started no more than
     the evaluations that were in flight *)
  target_stop_ok o &&
  (negb (c_sigint o) ||
   (within_deadline o && exit_zero o && Nat.eqb (c_stdout_lines o) 1 &&
    Nat.leb (n_started o) (S (N.to_nat (nc_of o))))).

(** ** C06 through the binary: a child that fails (non-zero exit, killed by a signal, output that
    is not a result) ends the run with an error, whatever it printed before *)
Definition mon_C06 (o : cli_obs) : bool :=
  (negb (any_class o (fun k => match k with KFail => true | _ => false end)) || negb (exit_zero o)) &&
  (* ... and the evaluations in flight were told to abort: the run does not wait for them to end by themselves *)
  within_deadline o.

(** ** C11 through the binary: reading a guess never crashes; the spec's own initial value is
    accepted (evaluations start); bad JSON and non-conforming guesses are rejected before any
    evaluation *)
Definition mon_C11_base (o : cli_obs) : bool :=
  negb (c_panicked o) && negb (c_timed_out o) &&
  match c_guess o with
  | GNone => true
  | GInit | GOther | GBigKey => Nat.ltb 0 (n_started o) || N.eqb (c_n o) 0
  | GBadJson | GNonConforming => negb (exit_zero o) && Nat.eqb (n_started o) 0 && Nat.eqb (c_stdout_lines o) 0
  end.

(** ** C08 through the binary: the evaluation with seed 0 is the first individual; it receives the
    explicit initial guess when one is given (and accepted), the spec's initial value otherwise *)
Definition first_expected (o : cli_obs) : option json :=
  match c_guess_json o with
  | Some g => Some g
  | None => match to_json (init_val (cli_spec (c_spec o))) with JOk j => Some j | _ => None end
  end.
Definition mon_C08 (o : cli_obs) : bool :=
  pre_error o || opt_is (c_invalid o) ||
  match find (fun c => String.eqb (ch_seed c) "0") (c_children o) with
  | None => true
  | Some c => match ch_json c, first_expected o with
              | Some j, Some e => RoundTrip.jeq e j
              | _, _ => false
              end
  end.

(** C11: ... and an accepted guess is the value the run starts from (a reported best-seen seeds
    the next run) *)
Definition mon_C11 (o : cli_obs) : bool :=
  mon_C11_base o && match c_guess o with GInit | GOther => mon_C08 o | _ => true end.

(** ** C05 through the binary: the children of the first wave wait for one another (rendezvous
    with a 10 s give-up): none gives up, i.e. min(num_concurrent, N) children ran at the same time *)
Definition mon_C05 (o : cli_obs) : bool := negb (c_timed_out o) && Nat.eqb (c_gaveup o) 0.

(** ** C07 *)
(** no survivor; and an evaluation over its time limit is rejected and the run goes on: with a
    per-evaluation limit, no target, no time limit for the run, only accepted/rejected scripted
    results and a fast accepted one among the started evaluations, the run ends with a report *)
Definition continues_after_timeout (o : cli_obs) : bool :=
  negb (c_has_kill_after o) || c_has_terminate_after o || opt_is (c_target o) || pre_error o || opt_is (c_invalid o) ||
  negb (N.eqb (ss_of o) 1) ||
  any_class o (fun k => match k with KFail | KSeq | KSeqNull => true | _ => false end) ||
  negb (existsb (fun k => match beh_at o k with (KAccept, false) => true | _ => false end) (seq 0 (n_started o))) ||
  exit_zero o.
Definition mon_C07 (o : cli_obs) : bool :=
  negb (c_timed_out o) && Nat.eqb (c_survivors o) 0 && continues_after_timeout o && within_deadline o &&
  (* a run ended by its time limit with evaluations in flight does not turn into a failure to reap them *)
  negb (c_failed_to_reap o).

(** ** C15 *)
Definition mon_C15 (o : cli_obs) : bool := negb (c_panicked o) && negb (c_timed_out o) && c_verbose_same o && within_deadline o.

(** ** C14 (files) *)
Definition row_val (r : N * N * json * option f64) : option f64 := snd r.
Definition row_json (r : N * N * json * option f64) : json := snd (fst r).
Definition min_row (rows : list (N * N * json * option f64)) : option f64 :=
  fold_left (fun m r => match row_val r, m with
                        | Some x, None => Some x
                        | Some x, Some y => if flt x y then Some x else Some y
                        | None, _ => m
                        end) rows None.
Fixpoint jeq (a b : json) {struct a} : bool :=
  match a, b with
  | JNull, JNull => true
  | JBool x, JBool y => Bool.eqb x y
  | JInt x, JInt y => Z.eqb x y
  | JFloat x, JFloat y => feq x y
  | JInt x, JFloat y => feq (f64_of_Z x) y
  | JFloat x, JInt y => feq x (f64_of_Z y)
  | JStr x, JStr y => String.eqb x y
  | JArr l, JArr l' =>
      (fix go (l l' : list json) : bool :=
         match l, l' with [], [] => true | x :: r, y :: r' => jeq x y && go r r' | _, _ => false end) l l'
  | JObj m, JObj m' =>
      Nat.eqb (length m) (length m') &&
      (fix go (l : list (string * json)) : bool :=
         match l with [] => true | (k, x) :: r => match slookup k m' with Some y => jeq x y && go r | None => false end end) m
  | _, _ => false
  end.

(** every child that was started and whose scripted result is an accepted value or a rejection is a
    processed evaluation unless the run stopped at its target (evaluations in flight are then
    dropped): whatever ended the run -- budget, time limit, a failing evaluation -- the detailed
    report has exactly one record with its seed, carrying the parameter set it received *)
Definition rows_cover (o : cli_obs) : bool :=
  forallb (fun c =>
             match parse_usize (ch_seed c) with
             | Some sd =>
                 match fst (beh_at o (N.to_nat sd)) with
                 | KAccept | KReject =>
                     match filter (fun r => N.eqb (snd (fst (fst r))) sd) (c_rows o), ch_json c with
                     | [r], Some j => jeq (row_json r) j
                     | _, _ => false
                     end
                 | _ => true
                 end
             | None => false
             end) (c_children o).

Definition mon_C14 (o : cli_obs) : bool :=
  c_rows_ok o &&
  (c_timed_out o || opt_is (c_target o) || pre_error o || opt_is (c_invalid o) ||
   match c_outdir o with ODNone => true | _ => false end || rows_cover o) &&
  (* every record's parameter set conforms, seeds are distinct *)
  forallb (fun r => conforming_json (cli_spec (c_spec o)) (row_json r)) (c_rows o) &&
  nodup_n (map (fun r => snd (fst (fst r))) (c_rows o)) &&
  (* the best-seen file holds the parameter set of a minimum-objective record *)
  match c_bestfile o, min_row (c_rows o) with
  | Some bj, Some m => true
  | None, Some _ => match c_outdir o with ODNone => true | _ => negb (existsb (String.eqb "detailed_report.csv") (c_files o)) end
  | Some _, None => false     (* a best-seen file although no record has a value (e.g. left over from an earlier run) *)
  | None, None => negb (existsb (String.eqb "best_seen.json") (c_files o)) || pre_error o
  end &&
  match c_bestfile o, min_row (c_rows o) with
  | Some bj, Some m => existsb (fun r => match row_val r with Some x => feq x m && jeq (row_json r) bj | None => false end) (c_rows o)
  | _, _ => true
  end &&
  (* summary: counts = records with / without a value; with sample size 1 its objective is the minimum *)
  match c_summary o with
  | Some (obj, acc, rej) =>
      N.eqb acc (N.of_nat (length (filter (fun r => opt_is (row_val r)) (c_rows o)))) &&
      N.eqb rej (N.of_nat (length (filter (fun r => negb (opt_is (row_val r))) (c_rows o)))) &&
      (negb (N.eqb (ss_of o) 1) || match min_row (c_rows o) with Some m => feq m obj | None => false end)
  | None => true
  end.

(** C16, files: on success the best-seen file holds the parameter set of a minimum-objective record
    of the detailed report (sample size 1) *)
Definition mon_C16_files (o : cli_obs) : bool :=
  negb (exit_zero o) || negb (N.eqb (ss_of o) 1) || negb (c_rows_ok o) ||
  match c_bestfile o, min_row (c_rows o) with
  | Some bj, Some m => existsb (fun r => match row_val r with Some x => feq x m && jeq (row_json r) bj | None => false end) (c_rows o)
  | _, _ => true
  end.

Definition judge_cli (o : cli_obs) : string :=
  let acc := match model_exit_zero o with
             | Some b => if Bool.eqb b (exit_zero o) then "ok" else "rej/exit"
             | None => "ok"
             end in
  ("CLI idx=" ++ N2s (c_idx o) ++ " acc=" ++ acc ++
   " C07=" ++ OpsCheck.b2s (mon_C07 o) ++ " C14=" ++ OpsCheck.b2s (mon_C14 o) ++ " C15=" ++ OpsCheck.b2s (mon_C15 o) ++
   " C16=" ++ OpsCheck.b2s (mon_C16 o && mon_C16_files o) ++ " C03=" ++ OpsCheck.b2s (mon_C03 o) ++ " C04=" ++ OpsCheck.b2s (mon_C04 o) ++ " C06=" ++ OpsCheck.b2s (mon_C06 o) ++ " C11=" ++ OpsCheck.b2s (mon_C11 o) ++ " C08=" ++ OpsCheck.b2s (mon_C08 o) ++ " C05=" ++ OpsCheck.b2s (mon_C05 o) ++ " code=" ++ (if exit_zero o then "0" else "nz") ++
   " kids=" ++ N2s (N.of_nat (n_started o)) ++ " END").
