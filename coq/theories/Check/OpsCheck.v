(** * OpsCheck: acceptor and monitors for ops-stream observations (chains of real
    [mutate]/[crossover] calls sharing one PathContext). *)
From Coq Require Import String Ascii.
From Coq Require Import List NArith ZArith Bool.
From Flocq Require Import IEEE754.BinarySingleNaN.
From Cambrian Require Import Base.F64 SourceFacts Syntax Ops.
Import ListNotations.

Definition fb (z : Z) : f64 := of_bits z.
Definition bs (l : list nat) : string :=
  fold_right (fun n s => String (ascii_of_nat n) s) EmptyString l.

Inductive op :=
| OMut (src : nat) (mp ms : f64) (out : value)
| OCross (srcs : list nat) (cp pr : f64) (out : value)
| OPanic.
Record ops_obs := mkOpsObs { oo_idx : N; oo_spec : spec; oo_v0 : value; oo_ops : list op }.

Definition half : f64 := of_bits 0x3FE0000000000000.

(** provenance only: [cross_check] with parameters under which every draw can go either way *)
Definition from_parents (s : spec) (ps : list value) (child : value) : bool :=
  cross_check half half s ps child.

(** ** monitors *)
Section MutMon.
  Variable p0 p1 : bool.    (* mutation probability is exactly 0 / exactly 1 *)
  Variable msc : f64.       (* mutation scale of the call *)

  (** a real leaf that a Cauchy step with probability 1 changes except with negligible
      probability (< 1e-10): strictly inside its bounds, finite positive step scale not absorbed
      by the magnitude of the value (scale * mutation_scale >= |x| * 2^-20) *)
  Definition lively (sc : f64) (mn mx : option f64) (x : f64) : bool :=
    let s := fmul sc msc in
    fin s && flt fzero s && fin x &&
    match mn with Some a => flt a x | None => true end &&
    match mx with Some b => flt x b | None => true end &&
    fle (fmul (fmax x (Bopp x)) (of_bits 0x3EB0000000000000)) s.

  Definition keyset_delta {A B} (m : list (N * A)) (m' : list (N * B)) : nat * nat :=
    (length (filter (fun k => negb (mem_n k (map fst m))) (map fst m')),
     length (filter (fun k => negb (mem_n k (map fst m'))) (map fst m))).

  (** C13 locality (and the discrete part of C17 when [p1]) *)
  Fixpoint mon_mut (strict17 : bool) (s : spec) (v v' : value) {struct s} : bool :=
    match s, v, v' with
    | SReal _ sc mn mx, VReal x, VReal x' =>
        negb (strict17 && p1) || negb (lively sc mn mx x) || negb (fbits_eq x x')
    | SBool _, VBool b, VBool b' => negb (strict17 && p1) || negb (Bool.eqb b b')
    | SEnum _ _, VEnum a, VEnum b => negb (strict17 && p1) || negb (String.eqb a b)
    | SSub ms, VSub m, VSub m' =>
        (fix go (l : list (string * spec)) : bool :=
           match l with
           | [] => true
           | (k, cs) :: r =>
               match slookup k m, slookup k m' with
               | Some a, Some b => mon_mut strict17 cs a b && go r
               | _, _ => false
               end
           end) ms
    | SArray vt _, VArray l, VArray l' =>
        Nat.eqb (length l) (length l') &&
        forallb (fun ab => mon_mut strict17 vt (fst ab) (snd ab)) (combine l l')
    | SAnonMap vt _ _ _, VAnonMap m, VAnonMap m' =>
        let '(na, nr) := keyset_delta m m' in
        Nat.leb (na + nr) 1 && (negb p1 || Nat.eqb (na + nr) 1) &&
        forallb (fun kv => match nlookup (fst kv) m with
                           | Some a => mon_mut strict17 vt a (snd kv)
                           | None => true
                           end) m'
    | SVariant os _, VVariant n x, VVariant n' y =>
        (negb (strict17 && p1) || negb (String.eqb n n')) &&
        (fix look (l : list (string * spec)) : bool :=
           match l with
           | [] => false
           | (k, cs) :: r =>
               if String.eqb n' k
               then mon_mut strict17 cs (if String.eqb n n' then x else init_val cs) y
               else look r
           end) os
    | SOptional vt _, VOptional o, VOptional o' =>
        (negb (strict17 && p1) ||
         negb (Bool.eqb (match o with Some _ => true | None => false end)
                        (match o' with Some _ => true | None => false end))) &&
        match o, o' with
        | Some x, Some y => mon_mut strict17 vt x y
        | None, Some y => mon_mut strict17 vt (init_val vt) y
        | _, _ => true
        end
    | _, _, _ => true
    end.
End MutMon.

Definition is_zero (x : f64) : bool := feq x fzero.
Definition is_one (x : f64) : bool := feq x fone.

Record ost := mkOst { os_pool : list value; os_ctx : pctx }.

(** equality of values, subs and anonymous maps compared as maps (the implementation holds
    them in hash tables) *)
Fixpoint vsame (a b : value) {struct a} : bool :=
  match a, b with
  | VReal x, VReal y => fbits_eq x y
  | VInt x, VInt y => Z.eqb x y
  | VBool x, VBool y => Bool.eqb x y
  | VSub m, VSub m' =>
      Nat.eqb (length m) (length m') && nodup_s (map fst m') &&
      (fix go (l : list (string * value)) : bool :=
         match l with [] => true | (k, x) :: r => match slookup k m' with Some y => vsame x y && go r | None => false end end) m
  | VArray l, VArray l' =>
      (fix go (l l' : list value) : bool :=
         match l, l' with [], [] => true | x :: r, y :: r' => vsame x y && go r r' | _, _ => false end) l l'
  | VAnonMap m, VAnonMap m' =>
      Nat.eqb (length m) (length m') && nodup_n (map fst m') &&
      (fix go (l : list (N * value)) : bool :=
         match l with [] => true | (k, x) :: r => match nlookup k m' with Some y => vsame x y && go r | None => false end end) m
  | VVariant n x, VVariant n' y => String.eqb n n' && vsame x y
  | VEnum n, VEnum n' => String.eqb n n'
  | VOptional None, VOptional None => true
  | VOptional (Some x), VOptional (Some y) => vsame x y
  | VConst, VConst => true
  | _, _ => false
  end.

Section Judge.
  Variable o : ops_obs.
  Let s := oo_spec o.

  Definition step_op (st : ost) (x : op) : option ost :=
    match x with
    | OMut src mp ms out =>
        match nth_error (os_pool st) src with
        | Some v =>
            match mut_check mp ms s [] (os_ctx st) v out with
            | Some c' => Some (mkOst (os_pool st ++ [out]) c')
            | None => None
            end
        | None => None
        end
    | OCross srcs cp pr out =>
        match Ops.all_some (map (fun i => nth_error (os_pool st) i) srcs) with
        | Some ps => if cross_check cp pr s ps out then Some (mkOst (os_pool st ++ [out]) (os_ctx st)) else None
        | None => None
        end
    | OPanic => None
    end.

  Fixpoint sim (l : list op) (st : ost) (k : N) : option (N * N) :=
    match l with
    | [] => None
    | x :: r =>
        match step_op st x with
        | Some st' => sim r st' (k + 1)
        | None => Some (k, match x with OMut _ _ _ _ => 1 | OCross _ _ _ _ => 2 | OPanic => 3 end)%N
        end
    end.

  (** the value every chain starts from is [Spec::initial_value()]: it must be the model's
      [init_val] (rejection kind 4) *)
  Definition accept : option (N * N) :=
    if vsame (init_val s) (oo_v0 o)
    then sim (oo_ops o) (mkOst [oo_v0 o] (add_nodes (oo_v0 o) [] [])) 0
    else Some (0, 4)%N.

  (** pool as produced by the implementation (independent of the acceptor) *)
  Fixpoint pool_of (l : list op) (acc : list value) : list value :=
    match l with
    | [] => acc
    | OMut _ _ _ out :: r => pool_of r (acc ++ [out])
    | OCross _ _ _ out :: r => pool_of r (acc ++ [out])
    | OPanic :: r => pool_of r acc
    end.
  Definition pool := pool_of (oo_ops o) [oo_v0 o].

  (** structure and bounds always; finiteness of reals where it is expected: the source values
      are finite and the mutation scale is one a run can reach (<= 1e18; spec scales are <= 1e50,
      the Cauchy factor is below 2^54) *)
  Definition tame_scale (ms : f64) : bool := fle ms (of_bits 0x43ABC16D674EC800).   (* 1e18 *)
  Fixpoint finite_expected (l : list op) (acc : list bool) : list bool :=
    match l with
    | [] => acc
    | OMut src _ ms _ :: r => finite_expected r (acc ++ [nth src acc false && tame_scale ms])
    | OCross srcs _ _ _ :: r => finite_expected r (acc ++ [forallb (fun i => nth i acc false) srcs])
    | OPanic :: r => finite_expected r acc
    end.
  Definition mon_C01 : bool :=
    wf s && forallb (conforms_g false s) pool &&
    forallb (fun vb => negb (snd vb) || conforms s (fst vb)) (combine pool (finite_expected (oo_ops o) [true])).

  Fixpoint walk (f : list value -> op -> bool) (l : list op) (acc : list value) : bool :=
    match l with
    | [] => true
    | x :: r =>
        f acc x &&
        walk f r (match x with OMut _ _ _ out | OCross _ _ _ out => acc ++ [out] | OPanic => acc end)
    end.

  Definition mon_C12 : bool :=
    walk (fun acc x =>
            match x with
            | OCross srcs _ _ out =>
                match Ops.all_some (map (fun i => nth_error acc i) srcs) with
                | Some ps =>
                    from_parents s ps out &&
                    match ps with
                    | [] => false
                    | p0 :: _ => negb (forallb (veqb p0) ps) || veqb p0 out
                    end
                | None => false
                end
            | _ => true
            end) (oo_ops o) [oo_v0 o].

  Definition mon_C13 : bool :=
    walk (fun acc x =>
            match x with
            | OMut src mp _ out =>
                match nth_error acc src with
                | Some v =>
                    (negb (is_zero mp) || veqb v out) &&
                    mon_mut (is_one mp) fone false s v out
                | None => false
                end
            | _ => true
            end) (oo_ops o) [oo_v0 o].

  Definition mon_C17 : bool :=
    walk (fun acc x =>
            match x with
            | OMut src mp ms out =>
                match nth_error acc src with
                | Some v => mon_mut (is_one mp) ms true s v out
                | None => false
                end
            | _ => true
            end) (oo_ops o) [oo_v0 o].

  Definition mon_C15 : bool :=
    negb (existsb (fun x => match x with OPanic => true | _ => false end) (oo_ops o)).
End Judge.

Definition b2s (b : bool) : string := if b then "1" else "0".
Fixpoint N_digits (fuel : nat) (n : N) (acc : string) : string :=
  match fuel with
  | O => acc
  | S f =>
      let d := String (ascii_of_N (48 + n mod 10)) acc in
      if N.eqb (n / 10) 0 then d else N_digits f (n / 10) d
  end.
Definition N2s (n : N) : string := N_digits 30 n "".

Definition judge_ops (o : ops_obs) : string :=
  ("OPS idx=" ++ N2s (oo_idx o) ++
   " acc=" ++ match accept o with None => "ok" | Some (k, kind) => "rej@" ++ N2s k ++ "/" ++ N2s kind end ++
   " C01=" ++ b2s (mon_C01 o) ++ " C12=" ++ b2s (mon_C12 o) ++ " C13=" ++ b2s (mon_C13 o) ++
   " C17=" ++ b2s (mon_C17 o) ++ " C15=" ++ b2s (mon_C15 o) ++ " END")%string.
