(** * RunCheck: executable acceptor and monitors for run-stream observations.

    [accept] replays an observed log of [async_launch::launch] through the
    controller model [Ctl] (instantiated with binary64 objective values) and says
    whether the model can produce it; the [mon_*] functions evaluate, on the same
    log and without the model, the predicates the property theorems are about.
    Everything here is evaluated with [vm_compute] on harness output. *)
From Coq Require Import String Ascii.
From Coq Require Import List NArith ZArith Bool.
From Flocq Require Import IEEE754.BinarySingleNaN.
From Cambrian Require Import Base.F64 SourceFacts Ctl.
Import ListNotations.
Local Open Scope N_scope.

(** ** observation format (printed by harness/src/runstream.rs) *)
Inductive rawout := RVal (bits : Z) | RNone | RErrTag (tag : N).
Record oitem := mkOItem {
  oi_id : N; oi_seed : N; oi_val : N; oi_res : option Z;
  oi_meta : option (N * Z * Z * Z * Z) }.
Inductive ores := OROk (obj : Z) (v : N) (acc rej : N) | ORErr (kind tag : N).
Inductive ev :=
| EPoll | EStart (id seed v : N) | EReturned (seed : N) (o : rawout) | EItems (l : list oitem)
| EPending | EReady (r : ores) | EHang | ETerminate | ECloseCmd | ECloseReports | EReplayMismatch
| ECsvMismatch.   (* [DetailedReportItem::to_csv_row] of a received item does not read back as its fields *)
Record run_obs := mkRunObs {
  ro_idx : N; ro_nc : N; ro_budget : option N; ro_target : option Z; ro_ss : N; ro_init : N;
  ro_events : list ev }.

(** ** instantiation of the model *)
Definition T := f64.
Definition hit_of (t : option Z) (x : T) : bool :=
  match t with Some b => fle x (of_bits b) | None => false end.

Definition classify (o : rawout) : outcome T :=
  match o with
  | RVal b => let x := of_bits b in if fin x then OVal x else OFail EMustBeFinite
  | RNone => OReject
  | RErrTag t => OFail (EObjFunc t)
  end.

Definition mctl := ctl N unit T.

(** oracle stream read off the start log: the k-th start (seed k) is a
    re-evaluation iff its id has been seen before *)
Fixpoint starts_of (es : list ev) : list (N * N * N) :=
  match es with
  | [] => []
  | EStart id seed v :: r => (id, seed, v) :: starts_of r
  | _ :: r => starts_of r
  end.

Fixpoint mk_orcs (sts : list (N * N * N)) (seen : list N) : list (orc N unit) :=
  match sts with
  | [] => []
  | (id, _, v) :: r =>
      mkOrc (existsb (N.eqb id) seen) v tt :: mk_orcs r (id :: seen)
  end.

Definition os_of (l : list (orc N unit)) (seed : N) : orc N unit :=
  nth (N.to_nat seed) l (mkOrc false 0 tt).

Section Replay.
  Variable o : run_obs.
  Let orcs := mk_orcs (starts_of (ro_events o)) [].
  Let ss := N.to_nat (ro_ss o).
  Let budget := ro_budget o.
  Let hit := hit_of (ro_target o).

  Definition m_step : mctl -> label T -> status N unit T :=
    step fcmp fmean hit max_pop_size min_pop_size_for_reeval ss budget (ro_init o) (os_of orcs).
  Definition m_init : mctl :=
    init T min_pop_size_for_reeval ss (ro_nc o) budget (ro_init o) (os_of orcs).

  (** acceptor state: one possible model configuration *)
  Record ast := mkAst {
    a_c : mctl;
    a_ret : option (result N T);
    a_pend : bool;         (* Terminate sent, abort turn not yet placed *)
    a_q : nat;             (* starts matched so far *)
    a_items : nat;         (* report items matched so far *)
    a_cmd_closed : bool;
    a_rep_closed : bool;
    a_fired : bool;        (* the oneshot towards the controller has fired *)
  }.

  Definition with_c (a : ast) (c : mctl) : ast :=
    mkAst c (a_ret a) (a_pend a) (a_q a) (a_items a) (a_cmd_closed a) (a_rep_closed a) (a_fired a).
  Definition with_ret (a : ast) (c : mctl) (r : result N T) : ast :=
    mkAst c (Some r) (a_pend a) (a_q a) (a_items a) (a_cmd_closed a) (a_rep_closed a) (a_fired a).

  (** after a turn: an empty in-flight set makes the next [try_next] yield [Ok(None)] *)
  Definition settle (a : ast) (s : status N unit T) : list ast :=
    match s with
    | Cont c =>
        match c_infl c with
        | [] => match m_step c LEmpty with
                | Ret c' r => [with_ret a c' r]
                | _ => []
                end
        | _ => [with_c a c]
        end
    | Ret c r => [with_ret a c r]
    | Stuck | Panic => []
    end.

  (** the unguarded abort branch is ready forever once the oneshot fired: with something in
      flight that is not ready the select loop never yields *)
  Definition spins (a : ast) : bool :=
    negb abort_branch_guarded && a_fired a && negb (a_pend a) &&
    match a_ret a with
    | None => match c_infl (a_c a) with [] => false | _ => true end
    | Some _ => false
    end.

  Definition clear_pend (a : ast) : ast :=
    mkAst (a_c a) (a_ret a) false (a_q a) (a_items a) (a_cmd_closed a) (a_rep_closed a) (a_fired a).

  Definition do_abort (a : ast) : list ast :=
    match a_ret a with
    | Some _ => []
    | None => settle (clear_pend a) (m_step (a_c a) LAbort)
    end.

  Definition do_done (seed : N) (oc : outcome T) (a : ast) : list ast :=
    match a_ret a with
    | Some _ => []
    | None => settle a (m_step (a_c a) (LDone seed oc (negb (a_rep_closed a))))
    end.

  Definition item_eq (m : item N unit T) (x : oitem) : bool :=
    N.eqb (it_id m) (oi_id x) && N.eqb (it_seed m) (oi_seed x) && N.eqb (it_val m) (oi_val x) &&
    match it_res m, oi_res x with
    | Some a, Some b => feq a (of_bits b) || (Z.eqb (to_bits a) b)
    | None, None => true
    | _, _ => false
    end &&
    match it_meta m, oi_meta x with
    | None, None => true
    | Some _, Some _ => true
    | _, _ => false
    end.

  Fixpoint items_match (ms : list (item N unit T)) (xs : list oitem) : bool :=
    match ms, xs with
    | _, [] => true
    | m :: ms', x :: xs' => item_eq m x && items_match ms' xs'
    | [], _ :: _ => false
    end.

  Definition res_eq (r : result N T) (x : ores) : bool :=
    match r, x with
    | ROk a v acc rej, OROk b v' acc' rej' =>
        feq a (of_bits b) && N.eqb v v' && N.eqb acc acc' && N.eqb rej rej'
    | RErr ENoIndividuals, ORErr 0 _ => true
    | RErr EClientHungUp, ORErr 1 _ => true
    | RErr EMustBeFinite, ORErr 2 _ => true
    | RErr (EObjFunc t), ORErr 3 t' => N.eqb t t'
    | _, _ => false
    end.

  (** one event against one state *)
  Definition on_event (e : ev) (a : ast) : list ast :=
    match e with
    | EPoll => [a]
    | EStart id seed v =>
        match nth_error (c_started (a_c a)) (a_q a) with
        | Some (id', seed', v') =>
            if N.eqb id id' && N.eqb seed seed' && N.eqb v v'
            then [mkAst (a_c a) (a_ret a) (a_pend a) (S (a_q a)) (a_items a) (a_cmd_closed a) (a_rep_closed a) (a_fired a)]
            else []
        | None => []
        end
    | EReturned seed ro =>
        let oc := classify ro in
        do_done seed oc a ++
        (if a_pend a then flat_map (do_done seed oc) (do_abort a) else [])
    | EItems l =>
        if items_match (skipn (a_items a) (c_items (a_c a))) l
        then [mkAst (a_c a) (a_ret a) (a_pend a) (a_q a) (a_items a + length l)%nat (a_cmd_closed a) (a_rep_closed a) (a_fired a)]
        else []
    | EPending =>
        let finals := if a_pend a then do_abort a else [a] in
        filter (fun a' => negb (spins a') &&
                          negb (a_cmd_closed a') &&
                          match a_ret a' with
                          | None => Nat.eqb (a_q a') (length (c_started (a_c a')))
                          | Some _ => false
                          end) finals
    | EReady r =>
        let finals := a :: (if a_pend a then do_abort a else []) in
        let finals := flat_map (fun a' => match a_ret a' with
                                          | None => if a_cmd_closed a' then [with_ret a' (a_c a') (RErr EClientHungUp)] else []
                                          | Some _ =>
                                              (* launch's own select may take the closed command channel first *)
                                              if a_cmd_closed a' then [a'; with_ret a' (a_c a') (RErr EClientHungUp)] else [a']
                                          end) finals in
        filter (fun a' => match a_ret a' with
                          | Some r' => res_eq r' r && Nat.leb (a_q a') (length (c_started (a_c a')))
                          | None => false
                          end) finals
    | EHang =>
        let finals := a :: (if a_pend a then do_abort a else []) in
        filter spins finals
    | ETerminate =>
        [mkAst (a_c a) (a_ret a) (negb (a_cmd_closed a) || a_pend a) (a_q a) (a_items a) (a_cmd_closed a) (a_rep_closed a) (negb (a_cmd_closed a) || a_fired a)]
    | ECloseCmd =>
        [mkAst (a_c a) (a_ret a) (a_pend a) (a_q a) (a_items a) true (a_rep_closed a) (a_fired a)]
    | ECloseReports =>
        [mkAst (a_c a) (a_ret a) (a_pend a) (a_q a) (a_items a) (a_cmd_closed a) true (a_fired a)]
    | EReplayMismatch => [a]
    | ECsvMismatch => [a]
    end.

  Definition ev_kind (e : ev) : N :=
    match e with
    | EPoll => 0 | EStart _ _ _ => 1 | EReturned _ _ => 2 | EItems _ => 3 | EPending => 4
    | EReady _ => 5 | EHang => 6 | ETerminate => 7 | ECloseCmd => 8 | ECloseReports => 9 | EReplayMismatch => 10 | ECsvMismatch => 11
    end.

  (** NFA simulation; on rejection: index and kind of the event that emptied the state set *)
  Fixpoint sim (es : list ev) (sts : list ast) (k : N) : option (N * N) :=
    match es with
    | [] => None
    | e :: r =>
        let sts' := flat_map (on_event e) sts in
        match sts' with
        | [] => Some (k, ev_kind e)
        | _ => sim r (firstn 64 sts') (k + 1)
        end
    end.

  Definition start_states : list ast :=
    settle (mkAst m_init None false 0 0 false false false) (Cont m_init).

  Definition accept : option (N * N) :=
    match start_states with
    | [] => Some (0, 99)
    | sts => sim (ro_events o) sts 0
    end.
End Replay.

(** ** monitors: the property predicates evaluated on the log itself *)
Section Monitors.
  Variable o : run_obs.
  Let es := ro_events o.

  Definition starts := starts_of es.

  Fixpoint returns_of (l : list ev) : list (N * rawout) :=
    match l with
    | [] => []
    | EReturned s r :: t => (s, r) :: returns_of t
    | _ :: t => returns_of t
    end.
  Definition returns := returns_of es.

  Fixpoint items_of (l : list ev) : list oitem :=
    match l with
    | [] => []
    | EItems x :: t => x ++ items_of t
    | _ :: t => items_of t
    end.
  Definition items := items_of es.

  Fixpoint final_of (l : list ev) : option ores :=
    match l with
    | [] => None
    | EReady r :: _ => Some r
    | _ :: t => final_of t
    end.
  Definition final := final_of es.

  Definition has (p : ev -> bool) : bool := existsb p es.
  Definition terminated := has (fun e => match e with ETerminate | ECloseCmd | ECloseReports => true | _ => false end).
  Definition hung := has (fun e => match e with EHang => true | _ => false end).

  Definition is_fail (r : rawout) : bool :=
    match classify r with OFail _ => true | _ => false end.
  Definition is_val (r : rawout) : bool :=
    match classify r with OVal _ => true | _ => false end.
  Definition failed := existsb (fun sr => is_fail (snd sr)) returns.

  Definition nstarts : N := N.of_nat (length starts).
  Definition nacc : N := N.of_nat (length (filter (fun sr => is_val (snd sr)) returns)).
  Definition nrej : N := N.of_nat (length (filter (fun sr => match classify (snd sr) with OReject => true | _ => false end) returns)).

  (** C03 *)
  Definition mon_C03 : bool :=
    match ro_budget o with
    | None => true
    | Some n =>
        N.leb nstarts n &&
        match final, ro_target o with
        | Some (OROk _ _ acc rej), None =>
            if terminated || failed then true
            else N.eqb nstarts n && N.eqb (acc + rej) n
        | Some (ORErr 0 _), None =>
            if terminated || failed then true else N.eqb nstarts n
        | _, _ => true
        end
    end.

  (** C05: walk the log keeping the set of evaluations in progress *)
  Fixpoint walk05 (l : list ev) (live : list (N * N)) (nret : N) (stopping : bool) : bool :=
    match l with
    | [] => true
    | e :: t =>
        match e with
        | EStart id seed _ =>
            negb (existsb (fun x => N.eqb (fst x) id) live) &&
            N.ltb (N.of_nat (length live)) (ro_nc o) &&
            walk05 t ((id, seed) :: live) nret stopping
        | EReturned seed r =>
            walk05 t (filter (fun x => negb (N.eqb (snd x) seed)) live) (nret + 1)
                   (stopping || is_fail r)
        | ETerminate | ECloseCmd | ECloseReports => walk05 t live nret true
        | EPending =>
            (stopping ||
             N.eqb (N.of_nat (length live))
                   (match ro_budget o with Some n => N.min (ro_nc o) (n - nret) | None => ro_nc o end)) &&
            walk05 t live nret stopping
        | _ => walk05 t live nret stopping
        end
    end.
  Definition mon_C05 : bool := walk05 es [] 0 false.

  (** C08 *)
  Fixpoint seeds_seq (l : list (N * N * N)) (k : N) : bool :=
    match l with
    | [] => true
    | (_, s, _) :: t => N.eqb s k && seeds_seq t (k + 1)
    end.
  Definition same_id_same_val : bool :=
    forallb (fun a => forallb (fun b =>
      match a, b with (ia, _, va), (ib, _, vb) => negb (N.eqb ia ib) || N.eqb va vb end) starts) starts.
  Definition evals_le_ss : bool :=
    forallb (fun a => match a with (ia, _, _) =>
      N.leb (N.of_nat (length (filter (fun b => match b with (ib, _, _) => N.eqb ia ib end) starts))) (ro_ss o) end) starts.
  Definition first_is_init : bool :=
    match starts with
    | [] => true
    | (id, s, v) :: _ => N.eqb id 0 && N.eqb s 0 && N.eqb v (ro_init o)
    end.
  (** ids of *individuals*: a start whose id was not seen before must carry the next fresh id *)
  Fixpoint ids_fresh (l : list (N * N * N)) (next : N) : bool :=
    match l with
    | [] => true
    | (id, _, _) :: t =>
        if N.ltb id next then ids_fresh t next
        else N.eqb id next && ids_fresh t (next + 1)
    end.
  Definition mon_C08 : bool :=
    seeds_seq starts 0 && same_id_same_val && evals_le_ss && first_is_init && ids_fresh starts 0.

  (** C02 *)
  Definition start_of_seed (s : N) : option (N * N * N) :=
    find (fun x => match x with (_, s', _) => N.eqb s s' end) starts.
  Definition acc_vals : list (N * T) :=    (* (seed, value) of accepted returns, completion order *)
    flat_map (fun sr => match classify (snd sr) with OVal x => [(fst sr, x)] | _ => [] end) returns.
  Definition id_of_seed (s : N) : N := match start_of_seed s with Some (i, _, _) => i | None => 0 end.
  Definition val_of_seed (s : N) : N := match start_of_seed s with Some (_, _, v) => v | None => 0 end.
  Definition vals_of_id (i : N) : list T :=
    map snd (filter (fun sx => N.eqb (id_of_seed (fst sx)) i) acc_vals).
  Definition mon_C02 : bool :=
    match final with
    | Some (OROk b v _ _) =>
        let x := of_bits b in
        if N.eqb (ro_ss o) 1 then
          (* some accepted evaluation returned exactly x for value v, and x is a minimum *)
          existsb (fun sx => feq (snd sx) x && N.eqb (val_of_seed (fst sx)) v) acc_vals &&
          forallb (fun sx => fle x (snd sx)) acc_vals
        else
          existsb (fun sx =>
            if N.eqb (val_of_seed (fst sx)) v then
              let vs := vals_of_id (id_of_seed (fst sx)) in
              if N.eqb (N.of_nat (length vs)) (ro_ss o) then feq (fmean vs) x else false
            else false) acc_vals
    | Some (ORErr 0 _) =>
        (* NoIndividuals: with sample size 1 only if nothing was accepted *)
        if N.eqb (ro_ss o) 1 then match acc_vals with [] => true | _ => false end else true
    | _ => true
    end.

  (** polls: split the log at EPoll *)
  Fixpoint starts_after_poll (l : list ev) (polls_after_mark : N) (marked : bool) : bool :=
    (* true iff no EStart occurs in a poll strictly after the first poll that follows the mark *)
    match l with
    | [] => true
    | e :: t =>
        match e with
        | EPoll => starts_after_poll t (if marked then polls_after_mark + 1 else 0) marked
        | EStart _ _ _ => negb (marked && N.leb 2 polls_after_mark) && starts_after_poll t polls_after_mark marked
        | _ => starts_after_poll t polls_after_mark marked
        end
    end.

  (** C04: mark = ETerminate *)
  Fixpoint no_start_after (mark : ev -> bool) (l : list ev) : bool :=
    match l with
    | [] => true
    | e :: t => if mark e then starts_after_poll t 0 true else no_start_after mark t
    end.
  Definition min_acc : option T :=
    fold_left (fun m sx => match m with None => Some (snd sx) | Some y => if flt (snd sx) y then Some (snd sx) else Some y end)
              acc_vals None.
  (** the run neither hung inside a poll nor stalled: a poll that ends Pending with nothing in
      flight (nothing the harness could still complete) can never make progress again *)
  Fixpoint stalled (l : list ev) (live : N) : bool :=
    match l with
    | [] => false
    | EStart _ _ _ :: t => stalled t (live + 1)
    | EReturned _ _ :: t => stalled t (live - 1)
    | EPending :: t => N.eqb live 0 || stalled t live
    | _ :: t => stalled t live
    end.
  (** target: the turn that completes a sample whose mean meets the target must be the last one
      (checked only while no eviction can have happened: at most [max_pop_size] individuals accepted) *)
  Fixpoint walk_target (l : list ev) (accs : list (N * T)) (hit_seen : bool) : bool :=
    match l with
    | [] => true
    | e :: t =>
        match e with
        | EReturned seed r =>
            negb hit_seen &&
            match classify r, ro_target o with
            | OVal x, Some tb =>
                let i := id_of_seed seed in
                let accs' := (accs ++ [(i, x)])%list in
                let vs := map snd (filter (fun a => N.eqb (fst a) i) accs') in
                let nids := length accs' in   (* >= number of individuals: conservative *)
                let h := N.eqb (N.of_nat (length vs)) (ro_ss o) && fle (fmean vs) (of_bits tb) &&
                         Nat.leb nids max_pop_size in
                walk_target t accs' h
            | OVal x, None => walk_target t (accs ++ [(id_of_seed seed, x)])%list false
            | _, _ => walk_target t accs false
            end
        | EStart _ _ _ | EPending => negb hit_seen && walk_target t accs hit_seen
        | _ => walk_target t accs hit_seen
        end
    end.

  Definition mon_C04 : bool :=
    negb hung && negb (stalled es 0) && walk_target es [] false &&
    no_start_after (fun e => match e with ETerminate => true | _ => false end) es &&
    match final, ro_target o with
    | Some (OROk b _ _ _), Some t =>
        (* returned by whatever cause: if the best is <= target fine; a target return must satisfy it *)
        if terminated || failed then true
        else match ro_budget o with
             | Some n => fle (of_bits b) (of_bits t) || N.eqb (nacc + nrej) n
             | None => fle (of_bits b) (of_bits t)
             end
    | _, _ => true
    end &&
    (* a terminated run without failure still reports the best seen (sample size 1) *)
    match final with
    | Some (ORErr 0 _) => if N.eqb (ro_ss o) 1 then match acc_vals with [] => true | _ => false end else true
    | Some (ORErr 1 _) => has (fun e => match e with ECloseCmd | ECloseReports => true | _ => false end)
    | _ => true
    end.

  (** C06 *)
  Fixpoint first_fail (l : list ev) (term_seen : bool) : option (rawout * bool) :=
    match l with
    | [] => None
    | ETerminate :: t | ECloseCmd :: t | ECloseReports :: t => first_fail t true
    | EReturned _ r :: t => if is_fail r then Some (r, term_seen) else first_fail t term_seen
    | _ :: t => first_fail t term_seen
    end.
  (** evaluations in progress at the moment the run returned *)
  Fixpoint live_at_ready (l : list ev) (live : N) : N :=
    match l with
    | [] => 0
    | EStart _ _ _ :: t => live_at_ready t (live + 1)
    | EReturned _ _ :: t => live_at_ready t (live - 1)
    | EReady _ :: _ => live
    | _ :: t => live_at_ready t live
    end.

  Definition mon_C06 : bool :=
    match first_fail es false with
    | Some (r, false) =>
        (* the run waits for the in-flight evaluations unless another criterion (a result that meets
           the target, which returns at once - C04) ends it first *)
        (has (fun e => match e with ECloseCmd | ECloseReports | EHang => true | _ => false end) ||
         match ro_target o with Some _ => true | None => false end ||
         N.eqb (live_at_ready es 0) 0) &&
        no_start_after (fun e => match e with EReturned _ r' => is_fail r' | _ => false end) es &&
        match final with
        | Some (OROk _ _ _ _) => false
        | Some (ORErr k t) =>
            has (fun e => match e with ECloseCmd | ECloseReports => true | _ => false end) ||
            match classify r with
            | OFail EMustBeFinite => N.eqb k 2
            | OFail (EObjFunc t') => N.eqb k 3 && N.eqb t t'
            | _ => false
            end
        | None => true
        end
    | _ => true
    end.

  (** C14 *)
  Definition prob_ok (b : Z) : bool :=
    let x := of_bits b in fle fzero x && fle x fone.
  Definition scale_ok (b : Z) : bool :=
    let x := of_bits b in fin x && flt fzero x.
  Definition meta_ok (it : oitem) : bool :=
    match oi_meta it with
    | None => true
    | Some (_, cp, sp, mp, msc) => prob_ok cp && prob_ok sp && prob_ok mp && scale_ok msc
    end.
  Fixpoint items_vs_returns (its : list oitem) (rs : list (N * rawout)) : bool :=
    match rs with
    | [] => match its with [] => true | _ => false end
    | (s, r) :: rt =>
        if is_fail r then items_vs_returns its rt
        else match its with
             | [] => false
             | it :: itt =>
                 N.eqb (oi_seed it) s && N.eqb (oi_id it) (id_of_seed s) && N.eqb (oi_val it) (val_of_seed s) &&
                 match classify r, oi_res it with
                 | OVal x, Some b => Z.eqb (to_bits x) b || feq x (of_bits b)
                 | OReject, None => true
                 | _, _ => false
                 end && items_vs_returns itt rt
             end
    end.
  (* the last processed evaluation's item may be missing only when the report channel was closed *)
  Definition mon_C14 : bool :=
    forallb meta_ok items && negb (has (fun e => match e with ECsvMismatch => true | _ => false end)) &&
    (has (fun e => match e with ECloseReports | EHang => true | _ => false end) || items_vs_returns items returns) &&
    match final with
    | Some (OROk _ _ acc rej) => N.eqb acc nacc && N.eqb rej nrej
    | _ => true
    end.

  (** C15 (controller part): the run ended, or is still going, but never hung *)
  Definition mon_C15 : bool := negb hung && negb (stalled es 0).
End Monitors.

(** ** verdict line *)
Definition b2s (b : bool) : string := if b then "1" else "0".

Fixpoint N_digits (fuel : nat) (n : N) (acc : string) : string :=
  match fuel with
  | O => acc
  | S f =>
      let d := String (ascii_of_N (48 + n mod 10)) acc in
      if N.eqb (n / 10) 0 then d else N_digits f (n / 10) d
  end.
Definition N2s (n : N) : string := N_digits 30 n "".

Definition judge_run (o : run_obs) : string :=
  ("RUN idx=" ++ N2s (ro_idx o) ++
   " acc=" ++ match accept o with None => "ok" | Some (k, kind) => "rej@" ++ N2s k ++ "/" ++ N2s kind end ++
   " C02=" ++ b2s (mon_C02 o) ++ " C03=" ++ b2s (mon_C03 o) ++ " C04=" ++ b2s (mon_C04 o) ++
   " C05=" ++ b2s (mon_C05 o) ++ " C06=" ++ b2s (mon_C06 o) ++ " C08=" ++ b2s (mon_C08 o) ++
   " C14=" ++ b2s (mon_C14 o) ++ " C15=" ++ b2s (mon_C15 o) ++
   " starts=" ++ N2s (nstarts o) ++ " acc_n=" ++ N2s (nacc o) ++ " rej_n=" ++ N2s (nrej o) ++
   " hung=" ++ b2s (hung o) ++ " END")%string.

(** ** twins (C09): the same actions again must give the same observable run; the same completion
    order with a different spacing must give the same evaluations, report items and result *)
Definition raw_eqb (a b : rawout) : bool :=
  match a, b with
  | RVal x, RVal y => Z.eqb x y
  | RNone, RNone => true
  | RErrTag x, RErrTag y => N.eqb x y
  | _, _ => false
  end.
Definition oz_eqb (a b : option Z) : bool :=
  match a, b with Some x, Some y => Z.eqb x y | None, None => true | _, _ => false end.
Definition meta_eqb (a b : option (N * Z * Z * Z * Z)) : bool :=
  match a, b with
  | Some (s, c, p, m, k), Some (s', c', p', m', k') => N.eqb s s' && Z.eqb c c' && Z.eqb p p' && Z.eqb m m' && Z.eqb k k'
  | None, None => true
  | _, _ => false
  end.
Definition oitem_eqb (a b : oitem) : bool :=
  N.eqb (oi_id a) (oi_id b) && N.eqb (oi_seed a) (oi_seed b) && N.eqb (oi_val a) (oi_val b) &&
  oz_eqb (oi_res a) (oi_res b) && meta_eqb (oi_meta a) (oi_meta b).
Definition ores_eqb (a b : option ores) : bool :=
  match a, b with
  | Some (OROk x v a1 r1), Some (OROk y w a2 r2) => Z.eqb x y && N.eqb v w && N.eqb a1 a2 && N.eqb r1 r2
  | Some (ORErr k t), Some (ORErr k' t') => N.eqb k k' && N.eqb t t'
  | None, None => true
  | _, _ => false
  end.
Fixpoint list_eqb {A} (f : A -> A -> bool) (a b : list A) : bool :=
  match a, b with [], [] => true | x :: r, y :: s => f x y && list_eqb f r s | _, _ => false end.

Fixpoint list_prefix {A} (f : A -> A -> bool) (a b : list A) : bool :=
  match a, b with [], _ => true | x :: r, y :: s => f x y && list_prefix f r s | _ :: _, [] => false end.

(** an evaluation created in the very poll in which the run returns may never be polled, hence
    never seen by the objective function: when both runs have returned, one start log may be a
    prefix of the other *)
Definition same_run (a b : run_obs) : bool :=
  let st_eq := fun x y : N * N * N => match x, y with (i, s, v), (i', s', v') => N.eqb i i' && N.eqb s s' && N.eqb v v' end in
  (list_eqb st_eq (starts a) (starts b) ||
   (match final a, final b with Some _, Some _ => true | _, _ => false end &&
    (list_prefix st_eq (starts a) (starts b) || list_prefix st_eq (starts b) (starts a)))) &&
  list_eqb (fun x y => N.eqb (fst x) (fst y) && raw_eqb (snd x) (snd y)) (returns a) (returns b) &&
  list_eqb oitem_eqb (items a) (items b) &&
  ores_eqb (final a) (final b).
Definition same_shape (a b : run_obs) : bool :=
  list_eqb N.eqb (map ev_kind (ro_events a)) (map ev_kind (ro_events b)).
Definition no_mismatch (a : run_obs) : bool :=
  negb (existsb (fun e => match e with EReplayMismatch => true | _ => false end) (ro_events a)).

Definition judge_twin (a b c : run_obs) : string :=
  let again := same_run a b && same_shape a b && no_mismatch b in
  let respaced := same_run a c in
  ("TWIN idx=" ++ N2s (ro_idx a) ++ " acc=ok C09=" ++ b2s (again && (respaced || negb (no_mismatch c))) ++
   " again=" ++ b2s again ++ " respaced=" ++ b2s respaced ++ " replayable=" ++ b2s (no_mismatch c) ++
   " starts=" ++ N2s (nstarts a) ++ " END")%string.

(** C11, last clause of its first sentence: the spec's own initial value supplied as the guess
    gives the same run (same actions replayed) as supplying none *)
Definition judge_guess_twin (a d : run_obs) : string :=
  let same := same_run a d && same_shape a d && no_mismatch d in
  ("GTWIN idx=" ++ N2s (ro_idx a) ++ " acc=ok C11=" ++ b2s same ++ " starts=" ++ N2s (nstarts a) ++ " END")%string.
