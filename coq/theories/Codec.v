(** * Codec: [value::Node::to_json] and [value_util::from_json_value] over the
    [serde_json::Value] tree (serde_json 1.0, objects are BTreeMaps). *)
From Coq Require Import String Ascii.
From Coq Require Import List ZArith NArith Bool Lia.
From Flocq Require Import IEEE754.BinarySingleNaN.
From Cambrian Require Import Base.F64 SourceFacts Syntax SpecBuild.
Import ListNotations.
Local Open Scope string_scope.

Inductive json : Type :=
| JNull
| JBool (b : bool)
| JInt (z : Z)           (* Number::PosInt(u64) / NegInt(i64) *)
| JFloat (x : f64)       (* finite *)
| JStr (s : string)
| JArr (l : list json)
| JObj (m : list (string * json)).   (* keys distinct; order not significant *)

Inductive jerr : Type :=
| JWrongType | JNumberConversionFailed | JValueNotWithinBounds | JUnexpectedKey | JMandatoryValueMissing
| JInvalidAnonMapKey | JUnknownVariant | JExactlyOneVariantValueRequired | JUnknownEnumValue
| JWrongArrayLength | JMapSizeNotWithinBounds.

Inductive jres (A : Type) : Type := JOk (a : A) | JErr (e : jerr) | JPanic.
Arguments JOk {A} a.
Arguments JErr {A} e.
Arguments JPanic {A}.
Definition jbind {A B} (r : jres A) (f : A -> jres B) : jres B :=
  match r with JOk a => f a | JErr e => JErr e | JPanic => JPanic end.

(** ** decimal text of usize keys *)
Fixpoint N_digits (fuel : nat) (n : N) (acc : string) : string :=
  match fuel with
  | O => acc
  | S f =>
      let d := String (ascii_of_N (48 + n mod 10)) acc in
      if N.eqb (n / 10) 0 then d else N_digits f (n / 10) d
  end.
Definition N2s (n : N) : string := N_digits 30 n "".

Definition digit_of (c : ascii) : option N :=
  let n := N_of_ascii c in if N.leb 48 n && N.leb n 57 then Some (n - 48)%N else None.
Definition usize_max : N := 18446744073709551615%N.
(** [str::parse::<usize>]: optional leading '+', then one or more ASCII digits, no overflow *)
Fixpoint parse_digits (s : string) (acc : N) : option N :=
  match s with
  | EmptyString => Some acc
  | String c r =>
      match digit_of c with
      | Some d => let a := (acc * 10 + d)%N in if N.leb a usize_max then parse_digits r a else None
      | None => None
      end
  end.
Definition parse_usize (s : string) : option N :=
  let body := match s with String "+" r => r | _ => s end in
  match body with EmptyString => None | _ => parse_digits body 0 end.

(** ** to_json *)
Fixpoint to_json (v : value) : jres json :=
  match v with
  | VReal x => if fin x then JOk (JFloat x) else JPanic        (* Number::from_f64(x).unwrap() *)
  | VInt z => JOk (JInt z)
  | VBool b => JOk (JBool b)
  | VSub m =>
      jbind ((fix go (l : list (string * value)) : jres (list (string * json)) :=
                match l with
                | [] => JOk []
                | (k, x) :: r => jbind (to_json x) (fun j => jbind (go r) (fun t => JOk ((k, j) :: t)))
                end) m) (fun l => JOk (JObj l))
  | VArray l =>
      jbind ((fix go (l : list value) : jres (list json) :=
                match l with
                | [] => JOk []
                | x :: r => jbind (to_json x) (fun j => jbind (go r) (fun t => JOk (j :: t)))
                end) l) (fun l => JOk (JArr l))
  | VAnonMap m =>
      jbind ((fix go (l : list (N * value)) : jres (list (string * json)) :=
                match l with
                | [] => JOk []
                | (k, x) :: r => jbind (to_json x) (fun j => jbind (go r) (fun t => JOk ((N2s k, j) :: t)))
                end) m) (fun l => JOk (JObj l))
  | VVariant name x => jbind (to_json x) (fun j => JOk (JObj [(name, j)]))
  | VEnum name => JOk (JStr name)
  | VOptional (Some x) => to_json x
  | VOptional None => JOk JNull
  | VConst => JOk JNull
  end.

(** ** from_json *)
Definition j_as_f64 (j : json) : option f64 :=
  match j with JInt z => Some (f64_of_Z z) | JFloat x => Some x | _ => None end.
Definition j_as_i64 (j : json) : option Z :=
  match j with JInt z => if Z.leb i64_min z && Z.leb z i64_max then Some z else None | _ => None end.

Fixpoint nset {A} (m : list (N * A)) (k : N) (a : A) : list (N * A) :=
  match m with
  | [] => [(k, a)]
  | (k', a') :: r => if N.eqb k k' then (k, a) :: r else (k', a') :: nset r k a
  end.

(** list combinators of [from_json] (each gets its own lemma in CodecProofs) *)
Fixpoint arr_loop (f : json -> jres value) (l : list json) : jres (list value) :=
  match l with
  | [] => JOk []
  | x :: r => jbind (f x) (fun v => jbind (arr_loop f r) (fun t => JOk (v :: t)))
  end.
Fixpoint idx_loop (f : json -> jres value) (l : list json) (i : N) : jres (list (N * value)) :=
  match l with
  | [] => JOk []
  | x :: r => jbind (f x) (fun v => jbind (idx_loop f r (i + 1)%N) (fun t => JOk ((i, v) :: t)))
  end.
Fixpoint obj_loop (f : json -> jres value) (l : list (string * json)) (acc : list (N * value)) : jres (list (N * value)) :=
  match l with
  | [] => JOk acc
  | (ks, x) :: r =>
      match parse_usize ks with
      | None => JErr JInvalidAnonMapKey
      | Some k => jbind (f x) (fun v => obj_loop f r (nset acc k v))
      end
  end.
Fixpoint sub_loop (f : spec -> json -> jres value) (jm : list (string * json)) (l : list (string * spec))
  : jres (list (string * value)) :=
  match l with
  | [] => JOk []
  | (k, cs) :: r =>
      match slookup k jm with
      | None => JErr JMandatoryValueMissing
      | Some cj => jbind (f cs cj) (fun v => jbind (sub_loop f jm r) (fun t => JOk ((k, v) :: t)))
      end
  end.
Fixpoint var_look (f : spec -> json -> jres value) (name : string) (cj : json) (l : list (string * spec)) : jres value :=
  match l with
  | [] => JErr JUnknownVariant
  | (k, cs) :: r => if String.eqb name k then jbind (f cs cj) (fun v => JOk (VVariant name v)) else var_look f name cj r
  end.

Fixpoint from_json (s : spec) (j : json) {struct s} : jres value :=
  match s with
  | SReal _ _ mn mx =>
      match j with
      | JInt _ | JFloat _ =>
          match j_as_f64 j with
          | None => JErr JNumberConversionFailed
          | Some x =>
              if (match mn with Some a => flt x a | None => false end) ||
                 (match mx with Some b => flt b x | None => false end)
              then JErr JValueNotWithinBounds else JOk (VReal x)
          end
      | _ => JErr JWrongType
      end
  | SInt _ _ mn mx =>
      match j with
      | JInt _ | JFloat _ =>
          match j_as_i64 j with
          | None => JErr JNumberConversionFailed
          | Some z =>
              if (match mn with Some a => Z.ltb z a | None => false end) ||
                 (match mx with Some b => Z.ltb b z | None => false end)
              then JErr JValueNotWithinBounds else JOk (VInt z)
          end
      | _ => JErr JWrongType
      end
  | SBool _ => match j with JBool b => JOk (VBool b) | _ => JErr JWrongType end
  | SSub members =>
      match j with
      | JObj jm =>
          if negb (forallb (fun kv => mem_s (fst kv) (map fst members)) jm) then JErr JUnexpectedKey else
          jbind ((fix go (l : list (string * spec)) : jres (list (string * value)) :=
                    match l with
                    | [] => JOk []
                    | (k, cs) :: r =>
                        match slookup k jm with
                        | None => JErr JMandatoryValueMissing
                        | Some cj => jbind (from_json cs cj) (fun v => jbind (go r) (fun t => JOk ((k, v) :: t)))
                        end
                    end) members) (fun l => JOk (VSub l))
      | _ => JErr JWrongType
      end
  | SArray vt size =>
      match j with
      | JArr l =>
          jbind (arr_loop (from_json vt) l)
                (fun vs => if guess_array_length_checked && negb (Nat.eqb (length vs) size)
                           then JErr JWrongArrayLength else JOk (VArray vs))
      | _ => JErr JWrongType
      end
  | SAnonMap vt _ mn mx =>
      let size_ok (m : list (N * value)) : jres value :=
        if guess_map_size_checked &&
           ((match mn with Some a => Nat.ltb (length m) a | None => false end) ||
            (match mx with Some b => Nat.ltb b (length m) | None => false end))
        then JErr JMapSizeNotWithinBounds else JOk (VAnonMap m) in
      match j with
      | JArr l =>
          jbind (idx_loop (from_json vt) l 0%N) size_ok
      | JObj jm =>
          jbind (obj_loop (from_json vt) jm []) size_ok
      | _ => JErr JWrongType
      end
  | SVariant os _ =>
      match j with
      | JObj [(name, cj)] =>
          (fix look (l : list (string * spec)) : jres value :=
             match l with
             | [] => JErr JUnknownVariant
             | (k, cs) :: r => if String.eqb name k then jbind (from_json cs cj) (fun v => JOk (VVariant name v)) else look r
             end) os
      | JObj _ => JErr JExactlyOneVariantValueRequired
      | _ => JErr JWrongType
      end
  | SEnum vs _ =>
      match j with
      | JStr name => if mem_s name vs then JOk (VEnum name) else JErr JUnknownEnumValue
      | _ => JErr JWrongType
      end
  | SOptional vt _ =>
      match j with
      | JNull => JOk (VOptional None)
      | _ => jbind (from_json vt j) (fun v => JOk (VOptional (Some v)))
      end
  | SConst => match j with JNull => JOk VConst | _ => JErr JWrongType end
  end.
