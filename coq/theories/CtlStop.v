(** * CtlStop: stopping behaviour of the controller model — abort flag, error
    recording, target criterion (C04, C06). *)
From Coq Require Import List Arith NArith Bool Lia.
From RecordUpdate Require Import RecordSet.
From Cambrian Require Import Ctl CtlProofs.
Import ListNotations.

Section Stop.
  Variables V M T : Type.
  Variable tcmp : T -> T -> comparison.
  Variable mean : list T -> T.
  Variable hit : T -> bool.
  Variables max_pop min_reeval ss : nat.
  Variable nc : N.
  Variable budget : option N.
  Variable init_val : V.
  Variable os : N -> orc V M.

  Notation ctl := (Ctl.ctl V M T).
  Notation push := (Ctl.push (T:=T) min_reeval ss init_val os).
  Notation push_n := (Ctl.push_n (T:=T) min_reeval ss init_val os).
  Notation init := (Ctl.init T min_reeval ss nc budget init_val os).
  Notation step := (Ctl.step tcmp mean hit max_pop min_reeval ss budget init_val os).
  Notation exec := (Ctl.exec tcmp mean hit max_pop min_reeval ss budget init_val os).
  Notation process := (Ctl.process tcmp mean max_pop ss).
  Notation finish := (Ctl.finish (V:=V) (M:=M) (T:=T)).
  Notation hit_now := (Ctl.hit_now (V:=V) (M:=M) hit).

  (** ** once the abort flag is set nothing is started any more, and the in-flight set only shrinks *)
  Definition Ab (s0 : list (N * N * V)) (p0 : N) (n0 : nat) (c : ctl) : Prop :=
    c_aborted c = true /\ c_started c = s0 /\ c_pushed c = p0 /\ (length (c_infl c) <= n0)%nat.

  Lemma aborted_step s0 p0 n0 c l :
    Ab s0 p0 n0 c -> match step c l with Cont c' | Ret c' _ => Ab s0 p0 n0 c' | _ => True end.
  Proof.
    revert c l. apply step_inv; unfold Ab.
    - intros c (A & B & C & D). cbn. auto.
    - intros c seed i rest e (A & B & C & D) Ht. apply take_len in Ht. unfold Ctl.fail_turn. cbn.
      rewrite A. cbn. repeat split; auto; lia.
    - intros c seed i rest (A & B & C & D) Ht. apply take_len in Ht. cbn. repeat split; auto; lia.
    - intros c seed i rest o a' (A & B & C & D) Ht _ _. apply take_len in Ht.
      destruct o; cbn; repeat split; auto; lia.
    - intros c (A & B & C & D) _ _ Hab. congruence.
  Qed.

  Theorem no_start_after_abort ls : forall c,
    c_aborted c = true ->
    match exec c ls with
    | Cont c' | Ret c' _ =>
        c_aborted c' = true /\ c_started c' = c_started c /\ c_pushed c' = c_pushed c /\
        (length (c_infl c') <= length (c_infl c))%nat
    | _ => True
    end.
  Proof.
    intros c Ha.
    pose proof (exec_lift V M T tcmp mean hit max_pop min_reeval ss budget init_val os
                  (Ab (c_started c) (c_pushed c) (length (c_infl c)))
                  (fun c' _ => Ab (c_started c) (c_pushed c) (length (c_infl c)) c')) as G.
    assert (G2 : match exec c ls with
                 | Cont c' => Ab (c_started c) (c_pushed c) (length (c_infl c)) c'
                 | Ret c' r => (fun c' _ => Ab (c_started c) (c_pushed c) (length (c_infl c)) c') c' r
                 | _ => True end).
    { apply G.
      - intros c1 l H1. pose proof (aborted_step _ _ _ c1 l H1) as K. destruct (step c1 l); exact K.
      - unfold Ab. repeat split; auto. }
    destruct (exec c ls); exact G2.
  Qed.

  (** draining: after the abort, [n] in flight, any [n] completions of evaluations in flight end the run *)
  Lemma drained_returns c :
    c_infl c = [] -> exists r, step c LEmpty = Ret c r /\ r = finish c.
  Proof. intros H. cbn. rewrite H. eexists; split; reflexivity. Qed.

  (** ** error recording *)
  Definition ErrInv (c : ctl) : Prop := c_err c <> None -> c_aborted c = true.

  Lemma ErrInv_of_ErrAb c : ErrAb V M T c -> ErrInv c.
  Proof.
    unfold ErrAb, ErrInv. intros H Hn. destruct (c_aborted c) eqn:E; [reflexivity|].
    exfalso. apply Hn. apply H. reflexivity.
  Qed.

  Lemma err_sticky_step c l e :
    ErrInv c -> c_err c = Some e ->
    match step c l with Cont c' | Ret c' _ => c_err c' = Some e | _ => True end.
  Proof.
    intros HI He.
    assert (Ha : c_aborted c = true) by (apply HI; rewrite He; discriminate).
    pose proof (step_inv V M T tcmp mean hit max_pop min_reeval ss budget init_val os
                 (fun c => c_err c = Some e /\ c_aborted c = true)) as G.
    assert (G2 : match step c l with Cont c' | Ret c' _ => c_err c' = Some e /\ c_aborted c' = true | _ => True end).
    { apply G.
      - intros c0 [H1 H2]. cbn. auto.
      - intros c0 seed i rest e0 [H1 H2] _. unfold Ctl.fail_turn. cbn. rewrite H2. cbn. auto.
      - intros c0 seed i rest [H1 H2] _. cbn. auto.
      - intros c0 seed i rest o a' [H1 H2] _ _ _. destruct o; cbn; auto.
      - intros c0 [H1 H2] _ _ Hab. congruence.
      - auto. }
    destruct (step c l); try exact I; apply G2.
  Qed.

  (** a failure processed while no abort is in force is recorded *)
  Lemma failure_recorded c seed e ok c' :
    c_aborted c = false -> step c (LDone seed (OFail e) ok) = Cont c' ->
    c_err c' = Some e /\ c_aborted c' = true /\ c_started c' = c_started c.
  Proof.
    intros Ha H. cbn [Ctl.step] in H. destruct (take seed (c_infl c)) as [[i rest]|]; [|discriminate].
    cbn in H. unfold Ctl.fail_turn in H. cbn in H. rewrite Ha in H. inversion H; subst. cbn. auto.
  Qed.

  Lemma finish_err c e : c_err c = Some e -> finish c = RErr e.
  Proof. intros H. unfold Ctl.finish. rewrite H. reflexivity. Qed.

  Theorem first_failure_wins_lemma ls : forall c e,
    ErrAb V M T c -> c_err c = Some e ->
    match exec c ls with
    | Cont c' => c_err c' = Some e
    | Ret c' r => r = RErr e \/ (r = RErr EClientHungUp /\ (0 < c_failed c')%N)
    | _ => True
    end.
  Proof.
    induction ls as [|l ls IH]; intros c e HA He; cbn [Ctl.exec]; [exact He|].
    pose proof (err_sticky_step c l e (ErrInv_of_ErrAb c HA) He) as Hs.
    pose proof (ErrAb_step V M T tcmp mean hit max_pop min_reeval ss budget init_val os c l HA) as Ha.
    destruct (step c l) as [c1|c1 r| |] eqn:Est; try exact I.
    - apply IH; assumption.
    - pose proof (ret_shape V M T tcmp mean hit max_pop min_reeval ss budget init_val os [l] c) as Hr.
      cbn [Ctl.exec] in Hr. rewrite Est in Hr. destruct Hr as [Hr|Hr]; [|right; exact Hr].
      left. rewrite Hr. apply finish_err. exact Hs.
  Qed.

  (** ** the target criterion: a running controller never sits on a best-seen <= target *)
  Lemma bsf_extract (p : pop_t V M T) i p' :
    extract_best_ready p = Some (i, p') -> best_seen_final p' = best_seen_final p.
  Proof.
    revert i p'. induction p as [|[k j] p IH]; intros i p' H; cbn [extract_best_ready] in H; [discriminate|].
    destruct (is_ready j) eqn:Er.
    - inversion H; subst. cbn. unfold is_ready in Er. destruct (i_st i); try discriminate. reflexivity.
    - destruct (extract_best_ready p) as [[j' r']|] eqn:E; [|discriminate].
      inversion H; subst. cbn. rewrite (IH _ _ eq_refl). reflexivity.
  Qed.

  Lemma push_bsf c : best_seen_final (a_pop (c_algo (push c))) = best_seen_final (a_pop (c_algo c)).
  Proof.
    unfold Ctl.push. destruct (Ctl.next_individual _ _ _ _ _) as [i a'] eqn:En. cbn.
    unfold Ctl.next_individual in En.
    assert (Hf : Ctl.fresh init_val (c_algo c) (os (c_next_seed c)) = (i, a') -> a_pop a' = a_pop (c_algo c)).
    { unfold Ctl.fresh. destruct (a_init_used (c_algo c)); intros H; inversion H; reflexivity. }
    destruct (Ctl.try_reeval _ _ _ _); [|rewrite (Hf En); reflexivity].
    destruct (extract_best_ready (a_pop (c_algo c))) as [[j p']|] eqn:Ex; [|rewrite (Hf En); reflexivity].
    inversion En; subst. cbn. eapply bsf_extract; eauto.
  Qed.

  Lemma no_hit_step c l :
    hit_now c = false -> match step c l with Cont c' => hit_now c' = false | _ => True end.
  Proof.
    intros Hh.
    pose proof (step_inv3 V M T tcmp mean hit max_pop min_reeval ss budget init_val os
                  (fun c => hit_now c = false) (fun _ => True) (fun _ _ => True)) as G.
    assert (G2 : match step c l with Cont c' => hit_now c' = false | Ret c' r => (fun _ _ => True) c' r | _ => True end).
    { apply G; auto.
      - intros c0 seed i rest e H0 _. unfold Ctl.fail_turn. cbn. destruct (c_aborted c0); exact H0.
      - intros c0 _ H0 _ _ _. unfold Ctl.hit_now in *. rewrite push_bsf. exact H0. }
    destruct (step c l); auto.
  Qed.

  Lemma push_n_bsf k : forall c, best_seen_final (a_pop (c_algo (push_n k c))) = best_seen_final (a_pop (c_algo c)).
  Proof. induction k as [|k IH]; intros c; cbn [Ctl.push_n]; [reflexivity|]. rewrite IH. apply push_bsf. Qed.

  Theorem running_not_hit ls :
    match exec init ls with Cont c => hit_now c = false | _ => True end.
  Proof.
    pose proof (exec_lift V M T tcmp mean hit max_pop min_reeval ss budget init_val os
                  (fun c => hit_now c = false) (fun _ _ => True)) as G.
    apply G.
    - intros c l Hc. pose proof (no_hit_step c l Hc) as K. destruct (step c l); auto.
    - unfold Ctl.hit_now, Ctl.init. rewrite push_n_bsf. reflexivity.
  Qed.

  (** a run that returns while its best-seen meets the target returns it (or the recorded failure) *)
  Theorem target_return ls c r :
    exec init ls = Ret c r -> hit_now c = true -> c_failed c = 0%N ->
    match r with
    | ROk x _ _ _ => hit x = true
    | RErr e => c_err c = Some e
    end.
  Proof.
    intros He Hh Hf.
    pose proof (ret_shape V M T tcmp mean hit max_pop min_reeval ss budget init_val os ls init) as Hr.
    rewrite He in Hr. destruct Hr as [Hr|[_ Hr]]; [|lia].
    subst r. unfold Ctl.finish. unfold Ctl.hit_now in Hh.
    destruct (c_err c) as [e|]; [reflexivity|].
    destruct (best_seen_final _) as [[x v]|]; [exact Hh|discriminate].
  Qed.
End Stop.
