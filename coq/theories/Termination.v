(** * Termination: [termination::compile] — the list of termination criteria a caller passes is
    folded into one record; a second criterion of a kind already seen is a conflict.
    Proved: compilation succeeds exactly when no kind occurs twice; every criterion of the list
    is in the record and nothing else; the result does not depend on the order of the list. *)
From Coq Require Import List NArith ZArith Bool Permutation Lia.
Import ListNotations.

Inductive crit := KNum (n : N) | KTarget (bits : Z) | KAfter (millis : N) | KSignal.
Record compiled := mkComp { k_num : option N; k_target : option Z; k_after : option N; k_signal : bool }.
Definition empty : compiled := mkComp None None None false.

Definition cstep (acc : option compiled) (c : crit) : option compiled :=
  match acc with
  | None => None
  | Some a =>
      match c with
      | KNum n => match k_num a with None => Some (mkComp (Some n) (k_target a) (k_after a) (k_signal a)) | Some _ => None end
      | KTarget t => match k_target a with None => Some (mkComp (k_num a) (Some t) (k_after a) (k_signal a)) | Some _ => None end
      | KAfter d => match k_after a with None => Some (mkComp (k_num a) (k_target a) (Some d) (k_signal a)) | Some _ => None end
      | KSignal => if k_signal a then None else Some (mkComp (k_num a) (k_target a) (k_after a) true)
      end
  end.
Definition compile_from (a : option compiled) (l : list crit) : option compiled := fold_left cstep l a.
Definition compile (l : list crit) : option compiled := compile_from (Some empty) l.

Definition kind (c : crit) : nat := match c with KNum _ => 0 | KTarget _ => 1 | KAfter _ => 2 | KSignal => 3 end.

Lemma compile_none l : compile_from None l = None.
Proof. induction l as [|c l IH]; [reflexivity|exact IH]. Qed.

(** what a successful compilation from [a] contains *)
Definition has_kind (a : compiled) (k : nat) : bool :=
  match k with
  | 0 => match k_num a with Some _ => true | None => false end
  | 1 => match k_target a with Some _ => true | None => false end
  | 2 => match k_after a with Some _ => true | None => false end
  | 3 => k_signal a
  | _ => false
  end.
Definition holds (a : compiled) (c : crit) : Prop :=
  match c with
  | KNum n => k_num a = Some n
  | KTarget t => k_target a = Some t
  | KAfter d => k_after a = Some d
  | KSignal => k_signal a = true
  end.

Lemma cstep_ok a c a' : cstep (Some a) c = Some a' ->
  has_kind a (kind c) = false /\ holds a' c /\
  (forall c0, kind c0 <> kind c -> (holds a' c0 <-> holds a c0)) /\
  (forall k, has_kind a' k = if Nat.eqb k (kind c) then true else has_kind a k).
Proof.
  destruct a as [n t d s]. destruct c as [n0|t0|d0|]; cbn; intros H;
    [destruct n; [discriminate|] | destruct t; [discriminate|] | destruct d; [discriminate|] | destruct s; [discriminate|]];
    inversion H; subst; (split; [reflexivity|]); (split; [reflexivity|]); split;
    try (intros c0 Hk; destruct c0; cbn in *; try tauto; exfalso; apply Hk; reflexivity);
    intros [|[|[|[|k]]]]; reflexivity.
Qed.

Lemma cstep_fails a c : has_kind a (kind c) = true -> cstep (Some a) c = None.
Proof. destruct a as [n t d s], c; cbn; intros H; [destruct n|destruct t|destruct d|rewrite H]; congruence. Qed.

(** success iff no kind twice (and none already present) *)
Lemma compile_from_ok : forall l a,
  (exists a', compile_from (Some a) l = Some a') <->
  (NoDup (map kind l) /\ forall c, In c l -> has_kind a (kind c) = false).
Proof.
  induction l as [|c l IH]; intros a; cbn [compile_from fold_left map].
  - split; [intros _; split; [constructor|intros c []]|intros _; eauto].
  - split.
    + intros [a' H]. destruct (cstep (Some a) c) as [a1|] eqn:E; [|fold (compile_from None l) in H; rewrite compile_none in H; discriminate].
      destruct (cstep_ok _ _ _ E) as (H1 & _ & _ & H4).
      destruct (proj1 (IH a1) (ex_intro _ a' H)) as [Nd Hf]. split.
      * constructor; [|exact Nd]. intros Hin. apply in_map_iff in Hin. destruct Hin as (c0 & Hk & Hin).
        specialize (Hf c0 Hin). rewrite H4, Hk, Nat.eqb_refl in Hf. discriminate.
      * intros c0 [<-|Hin]; [exact H1|]. specialize (Hf c0 Hin). rewrite H4 in Hf.
        destruct (Nat.eqb (kind c0) (kind c)); [discriminate|exact Hf].
    + intros [Nd Hf]. inversion Nd as [|? ? Hn Nd']; subst.
      destruct (cstep (Some a) c) as [a1|] eqn:E.
      * destruct (cstep_ok _ _ _ E) as (_ & _ & _ & H4). apply (IH a1). split; [exact Nd'|].
        intros c0 Hin. rewrite H4. destruct (Nat.eqb (kind c0) (kind c)) eqn:Ek.
        -- exfalso. apply Hn. apply Nat.eqb_eq in Ek. rewrite <- Ek. apply in_map. exact Hin.
        -- apply Hf. right. exact Hin.
      * exfalso. destruct a as [n t d s], c; cbn in E; specialize (Hf _ (or_introl eq_refl)); cbn in Hf;
          [destruct n|destruct t|destruct d|rewrite Hf in E]; discriminate.
Qed.

Theorem compile_succeeds_iff_no_kind_twice l : (exists c, compile l = Some c) <-> NoDup (map kind l).
Proof.
  unfold compile. rewrite compile_from_ok. split; [intros [H _]; exact H|].
  intros H. split; [exact H|]. intros c _. destruct c; reflexivity.
Qed.

(** every criterion of the list is in the record, and the record holds nothing else *)
Lemma holds_has a c : holds a c -> has_kind a (kind c) = true.
Proof. destruct a as [n t d s], c; cbn; intros ->; reflexivity. Qed.

Lemma holds_same_kind a c c' : holds a c -> holds a c' -> kind c = kind c' -> c = c'.
Proof. destruct a as [n t d s], c, c'; cbn; intros H1 H2 Hk; try discriminate; congruence. Qed.

Lemma compile_from_keeps : forall l a a' c, compile_from (Some a) l = Some a' -> holds a c -> holds a' c.
Proof.
  induction l as [|c1 l IH]; intros a a' c H Hh; cbn [compile_from fold_left] in H; [inversion H; subst; exact Hh|].
  destruct (cstep (Some a) c1) as [a1|] eqn:E; [|fold (compile_from None l) in H; rewrite compile_none in H; discriminate].
  destruct (cstep_ok _ _ _ E) as (H1 & _ & H3 & _).
  apply (IH a1 a' c H). apply H3; [|exact Hh].
  intros Ek. apply holds_has in Hh. rewrite Ek, H1 in Hh. discriminate.
Qed.

Lemma compile_from_holds : forall l a a', compile_from (Some a) l = Some a' ->
  (forall c, In c l -> holds a' c) /\
  (forall c, holds a' c -> In c l \/ holds a c).
Proof.
  induction l as [|c1 l IH]; intros a a' H; cbn [compile_from fold_left] in H.
  - inversion H; subst. split; [intros c []|auto].
  - destruct (cstep (Some a) c1) as [a1|] eqn:E; [|fold (compile_from None l) in H; rewrite compile_none in H; discriminate].
    destruct (cstep_ok _ _ _ E) as (H1 & H2 & H3 & _).
    destruct (IH a1 a' H) as [I1 I2]. split.
    + intros c [<-|Hin]; [eapply compile_from_keeps; eauto | apply I1; exact Hin].
    + intros c Hh. destruct (I2 c Hh) as [Hin|Ha1]; [left; right; exact Hin|].
      destruct (Nat.eq_dec (kind c) (kind c1)) as [Ek|Ek].
      * left. left. symmetry. eapply holds_same_kind; eauto.
      * right. apply H3; assumption.
Qed.

Theorem compile_keeps_every_criterion l c0 :
  compile l = Some c0 ->
  (forall c, In c l -> holds c0 c) /\ (forall c, holds c0 c -> In c l).
Proof.
  intros H. destruct (compile_from_holds l empty c0 H) as [H1 H2]. split; [exact H1|].
  intros c Hc. destruct (H2 c Hc) as [Hin|He]; [exact Hin|]. destruct c; cbn in He; discriminate.
Qed.

(** a record is determined by what it holds *)
Lemma holds_ext a b : (forall c, holds a c <-> holds b c) -> a = b.
Proof.
  destruct a as [n t d s], b as [n' t' d' s']. intros H. f_equal.
  - destruct n as [x|], n' as [y|]; try reflexivity.
    + symmetry. apply (proj1 (H (KNum x)) eq_refl).
    + pose proof (proj1 (H (KNum x)) eq_refl) as E. discriminate.
    + pose proof (proj2 (H (KNum y)) eq_refl) as E. discriminate.
  - destruct t as [x|], t' as [y|]; try reflexivity.
    + symmetry. apply (proj1 (H (KTarget x)) eq_refl).
    + pose proof (proj1 (H (KTarget x)) eq_refl) as E. discriminate.
    + pose proof (proj2 (H (KTarget y)) eq_refl) as E. discriminate.
  - destruct d as [x|], d' as [y|]; try reflexivity.
    + symmetry. apply (proj1 (H (KAfter x)) eq_refl).
    + pose proof (proj1 (H (KAfter x)) eq_refl) as E. discriminate.
    + pose proof (proj2 (H (KAfter y)) eq_refl) as E. discriminate.
  - destruct s, s'; try reflexivity.
    + pose proof (proj1 (H KSignal) eq_refl) as E. discriminate.
    + pose proof (proj2 (H KSignal) eq_refl) as E. discriminate.
Qed.

(** the order in which the criteria are listed does not matter *)
Theorem compile_order_independent l l' : Permutation l l' -> compile l = compile l'.
Proof.
  intros P.
  destruct (compile l) as [a|] eqn:Ea, (compile l') as [b|] eqn:Eb.
  - f_equal. apply holds_ext. intros c.
    destruct (compile_keeps_every_criterion l a Ea) as [A1 A2]. destruct (compile_keeps_every_criterion l' b Eb) as [B1 B2].
    split; intros H.
    + apply B1. apply (Permutation_in _ P). apply A2. exact H.
    + apply A1. apply (Permutation_in _ (Permutation_sym P)). apply B2. exact H.
  - exfalso. assert (N : NoDup (map kind l)) by (apply compile_succeeds_iff_no_kind_twice; eauto).
    assert (N' : NoDup (map kind l')) by (eapply Permutation_NoDup; [apply Permutation_map; exact P|exact N]).
    apply compile_succeeds_iff_no_kind_twice in N'. destruct N' as [c Hc]. congruence.
  - exfalso. assert (N : NoDup (map kind l')) by (apply compile_succeeds_iff_no_kind_twice; eauto).
    assert (N' : NoDup (map kind l)) by (eapply Permutation_NoDup; [apply Permutation_map; apply Permutation_sym; exact P|exact N]).
    apply compile_succeeds_iff_no_kind_twice in N'. destruct N' as [c Hc]. congruence.
  - reflexivity.
Qed.
