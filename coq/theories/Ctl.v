(** * Ctl: turn-level model of [controller::start_controller] and of the part of
    [algorithm::AlgoContext] the controller talks to.

    One [label] = one turn of the controller's [loop { tokio::select! {..} }].
    Everything the environment can do to the controller is a label; everything
    random inside [next_individual] comes from the oracle stream [os], indexed
    by the seed of the evaluation being created.  No proofs in this file. *)
From Coq Require Import List NArith Bool Lia.
From RecordUpdate Require Import RecordSet.
Import ListNotations RecordSetNotations.
Set Implicit Arguments.

(** Error kinds the controller itself can return or pass through. *)
Inductive err : Type :=
| ENoIndividuals
| EClientHungUp
| EMustBeFinite                (* Error::ObjFuncValMustBeFinite *)
| EObjFunc (tag : N).          (* any Err(_) returned by AsyncObjectiveFunction::evaluate *)

Section Model.
  Variable V : Type.           (* parameter sets (value::Value) *)
  Variable M : Type.           (* meta parameters (MetaParamsWrapper) *)
  Variable T : Type.           (* FiniteF64 *)
  Variable tcmp : T -> T -> comparison.    (* FiniteF64::cmp *)
  Variable mean : list T -> T.             (* summary_obj_func_val *)
  Variable hit : T -> bool.                (* fun x => x <= target ; constantly false without target *)

  (** STATIC_PARAMS (values come from SourceFacts at instantiation) *)
  Variable max_pop : nat.
  Variable min_reeval : nat.

  (** run configuration *)
  Variable ss : nat.                       (* individual_sample_size *)
  Variable nc : N.                         (* num_concurrent *)
  Variable budget : option N.              (* max_num_eval *)
  Variable init_val : V.                   (* explicit guess, else spec.initial_value() *)

  Inductive istate := PendingEval (vs : list T) | Ready (vs : list T) | Final (x : T).

  Record ind := mkInd { i_id : N; i_val : V; i_meta : option M; i_st : istate }.

  (** per-call oracle of [next_individual]: the Bernoulli(prob_reeval) draw and
      whatever [create_offspring] produces *)
  Record orc := mkOrc { o_reeval : bool; o_val : V; o_meta : M }.
  Variable os : N -> orc.

  (** ** Algorithm context *)
  Definition key := (T * N)%type.
  Definition kcmp (k1 k2 : key) : comparison :=
    match tcmp (fst k1) (fst k2) with
    | Eq => N.compare (snd k1) (snd k2)
    | c => c
    end.

  Definition pop_t := list (key * ind).

  Record algo := mkAlgo { a_pop : pop_t; a_init_used : bool; a_next_id : N }.

  Fixpoint insert (k : key) (i : ind) (p : pop_t) : pop_t :=
    match p with
    | [] => [(k, i)]
    | (k', i') :: r =>
        match kcmp k k' with
        | Lt => (k, i) :: p
        | Eq => (k, i) :: r
        | Gt => (k', i') :: insert k i r
        end
    end.

  Definition is_ready (i : ind) : bool := match i_st i with Ready _ => true | _ => false end.

  Fixpoint extract_best_ready (p : pop_t) : option (ind * pop_t) :=
    match p with
    | [] => None
    | (k, i) :: r =>
        if is_ready i then Some (i, r)
        else match extract_best_ready r with
             | Some (j, r') => Some (j, (k, i) :: r')
             | None => None
             end
    end.

  Fixpoint best_seen_final (p : pop_t) : option (T * V) :=
    match p with
    | [] => None
    | (_, i) :: r => match i_st i with Final x => Some (x, i_val i) | _ => best_seen_final r end
    end.

  Definition summary (s : istate) : T :=
    match s with PendingEval vs | Ready vs => mean vs | Final x => x end.

  (** [transition_state]; [None] = the [unreachable!()] *)
  Definition transition (s : istate) (x : T) : option istate :=
    match s with
    | PendingEval vs =>
        let vs' := vs ++ [x] in
        Some (if Nat.eqb (length vs') ss then Final (mean vs') else Ready vs')
    | _ => None
    end.

  Definition set_st (i : ind) (s : istate) : ind :=
    mkInd (i_id i) (i_val i) (i_meta i) s.

  (** [process_individual_eval]; [None] = panic *)
  Definition process (a : algo) (i : ind) (r : option T) : option algo :=
    match r with
    | None => Some a
    | Some x =>
        match transition (i_st i) x with
        | None => None
        | Some s =>
            let i' := set_st i s in
            Some (mkAlgo (firstn max_pop (insert (summary s, i_id i) i' (a_pop a)))
                         (a_init_used a) (a_next_id a))
        end
    end.

  Definition fresh (a : algo) (o : orc) : ind * algo :=
    let '(v, m) := if a_init_used a then (o_val o, Some (o_meta o)) else (init_val, None) in
    (mkInd (a_next_id a) v m (PendingEval []),
     mkAlgo (a_pop a) true (N.succ (a_next_id a))).

  Definition try_reeval (a : algo) (o : orc) : bool :=
    Nat.ltb 1 ss && Nat.leb min_reeval (length (a_pop a)) && o_reeval o.

  Definition next_individual (a : algo) (o : orc) : ind * algo :=
    if try_reeval a o then
      match extract_best_ready (a_pop a) with
      | Some (i, p') =>
          (set_st i (match i_st i with Ready vs => PendingEval vs | s => s end),
           mkAlgo p' (a_init_used a) (a_next_id a))
      | None => fresh a o
      end
    else fresh a o.

  (** ** Controller *)
  Inductive outcome := OVal (x : T) | OReject | OFail (e : err).

  Record item := mkItem { it_id : N; it_seed : N; it_val : V; it_meta : option M; it_res : option T }.

  Inductive result := ROk (x : T) (v : V) (acc rej : N) | RErr (e : err).

  Record ctl := mkCtl {
    c_algo : algo;
    c_infl : list (N * ind);          (* evaled_individuals: seed, individual *)
    c_next_seed : N;
    c_pushed : N;
    c_acc : N;
    c_rej : N;
    c_aborted : bool;                 (* abort_signal_received *)
    c_err : option err;               (* error_recording *)
    (* history (ghost) *)
    c_failed : N;
    c_started : list (N * N * V);     (* id, seed, value of every evaluate_individual created *)
    c_items : list item;              (* detailed report items sent *)
  }.

  #[global] Instance eta_ctl : Settable _ :=
    settable! mkCtl <c_algo; c_infl; c_next_seed; c_pushed; c_acc; c_rej; c_aborted; c_err;
                     c_failed; c_started; c_items>.

  Definition push (c : ctl) : ctl :=
    let '(i, a') := next_individual (c_algo c) (os (c_next_seed c)) in
    c <| c_algo := a' |>
      <| c_infl := c_infl c ++ [(c_next_seed c, i)] |>
      <| c_started := c_started c ++ [(i_id i, c_next_seed c, i_val i)] |>
      <| c_next_seed := N.succ (c_next_seed c) |>
      <| c_pushed := N.succ (c_pushed c) |>.

  Fixpoint push_n (n : nat) (c : ctl) : ctl :=
    match n with O => c | S k => push_n k (push c) end.

  Definition initial_num : N := match budget with Some n => N.min nc n | None => nc end.

  Definition ctl0 : ctl :=
    mkCtl (mkAlgo [] false 0%N) [] 0%N 0%N 0%N 0%N false None 0%N [] [].

  Definition init : ctl := push_n (N.to_nat initial_num) ctl0.

  Fixpoint take (seed : N) (l : list (N * ind)) : option (ind * list (N * ind)) :=
    match l with
    | [] => None
    | (s, i) :: r =>
        if N.eqb s seed then Some (i, r)
        else match take seed r with
             | Some (j, r') => Some (j, (s, i) :: r')
             | None => None
             end
    end.

  Definition finish (c : ctl) : result :=
    match c_err c with
    | Some e => RErr e
    | None =>
        match best_seen_final (a_pop (c_algo c)) with
        | Some (x, v) => ROk x v (c_acc c) (c_rej c)
        | None => RErr ENoIndividuals
        end
    end.

  Definition hit_now (c : ctl) : bool :=
    match best_seen_final (a_pop (c_algo c)) with Some (x, _) => hit x | None => false end.

  (** labels: what one turn of the select loop can be *)
  Inductive label :=
  | LDone (seed : N) (o : outcome) (send_ok : bool)  (* try_next yielded this evaluation *)
  | LAbort                                           (* the in_abort_signal_recv branch ran *)
  | LEmpty.                                          (* try_next yielded Ok(None) *)

  Inductive status := Cont (c : ctl) | Ret (c : ctl) (r : result) | Stuck | Panic.

  Definition res_of (o : outcome) : option T := match o with OVal x => Some x | _ => None end.

  (** an [Err(error)] came out of [try_next] *)
  Definition fail_turn (c : ctl) (e : err) : ctl :=
    let c := c <| c_failed := N.succ (c_failed c) |> in
    if c_aborted c then c else c <| c_aborted := true |> <| c_err := Some e |>.

  (** the report item is sent and the counters updated *)
  Definition count_turn (c : ctl) (i : ind) (seed : N) (o : outcome) : ctl :=
    let c := c <| c_items := c_items c ++ [mkItem (i_id i) seed (i_val i) (i_meta i) (res_of o)] |> in
    match o with
    | OVal _ => c <| c_acc := N.succ (c_acc c) |>
    | _ => c <| c_rej := N.succ (c_rej c) |>
    end.

  Definition maxp (c : ctl) : bool :=
    match budget with Some n => N.leb n (c_pushed c) | None => false end.
  Definition maxc (c : ctl) : bool :=
    match budget with Some n => N.leb n (c_acc c + c_rej c) | None => false end.

  (** after [process_individual_eval]: target test, budget tests, replacement *)
  Definition decide (c : ctl) : status :=
    if hit_now c then Ret c (finish c)
    else if maxc c then Ret c (finish c)
    else if negb (maxp c) && negb (c_aborted c) then Cont (push c)
    else Cont c.

  Definition ok_turn (c : ctl) (i : ind) (seed : N) (o : outcome) (send_ok : bool) : status :=
    if negb send_ok then Ret (c <| c_failed := N.succ (c_failed c) |>) (RErr EClientHungUp) else
    let c := count_turn c i seed o in
    match process (c_algo c) i (res_of o) with
    | None => Panic
    | Some a' => decide (c <| c_algo := a' |>)
    end.

  Definition done_turn (c : ctl) (i : ind) (seed : N) (o : outcome) (send_ok : bool) : status :=
    match o with
    | OFail e => Cont (fail_turn c e)
    | _ => ok_turn c i seed o send_ok
    end.

  Definition step (c : ctl) (l : label) : status :=
    match l with
    | LAbort => Cont (c <| c_aborted := true |>)
    | LEmpty => match c_infl c with [] => Ret c (finish c) | _ => Stuck end
    | LDone seed o send_ok =>
        match take seed (c_infl c) with
        | None => Stuck
        | Some (i, rest) => done_turn (c <| c_infl := rest |>) i seed o send_ok
        end
    end.

  Fixpoint exec (c : ctl) (ls : list label) : status :=
    match ls with
    | [] => Cont c
    | l :: ls' => match step c l with Cont c' => exec c' ls' | s => s end
    end.

End Model.

Arguments RErr {V T} e.
Arguments ROk {V T} x v acc rej.
Arguments OVal {T} x.
Arguments OReject {T}.
Arguments OFail {T} e.
Arguments LDone {T} seed o send_ok.
Arguments LAbort {T}.
Arguments LEmpty {T}.
Arguments Stuck {V M T}.
Arguments Panic {V M T}.
