(** * Mean: sequential f64 sums of up to 2^26 finite values of magnitude <= 2^997 (which covers
    +-1e300) stay finite, so [summary_obj_func_val]'s [FiniteF64::new(mean).unwrap()] cannot fail
    on objective values within the property's range. *)
From Coq Require Import ZArith Reals Bool Lia Lra List.
From Flocq Require Import Core IEEE754.BinarySingleNaN.
From Cambrian Require Import Base.F64.
Import ListNotations.
Open Scope R_scope.

Definition Bnd : R := bpow radix2 997.

Lemma format_kB (k : Z) : (0 <= k < 2^26)%Z -> generic_format radix2 (SpecFloat.fexp 53 1024) (IZR k * Bnd).
Proof.
  intros Hk. unfold Bnd.
  replace (IZR k * bpow radix2 997) with (F2R (Float radix2 k 997)) by (unfold F2R; simpl; reflexivity).
  apply generic_format_F2R. intros Hk0.
  unfold cexp, SpecFloat.fexp.
  assert (Hm : (mag radix2 (F2R (Float radix2 k 997)) <= 26 + 997)%Z).
  { rewrite mag_F2R by lia.
    assert (mag radix2 (IZR k) <= 26)%Z.
    { apply mag_le_bpow. apply IZR_neq; lia. rewrite <- abs_IZR. change (bpow radix2 26) with (IZR (2^26)). apply IZR_lt. lia. }
    lia. }
  unfold SpecFloat.emin. lia.
Qed.

Lemma kB_lt_emax (k : Z) : (0 <= k < 2^26)%Z -> IZR k * Bnd < bpow radix2 1024.
Proof.
  intros Hk. unfold Bnd. replace 1024%Z with (27 + 997)%Z by lia. rewrite bpow_plus.
  apply Rmult_lt_compat_r. apply bpow_gt_0.
  change (bpow radix2 27) with (IZR (2^27)). apply IZR_lt. lia.
Qed.

Lemma add_step (k : Z) (s v : f64) :
  (0 <= k)%Z -> (k + 1 < 2^26)%Z ->
  fin s = true -> fin v = true -> Rabs (R_ s) <= IZR k * Bnd -> Rabs (R_ v) <= Bnd ->
  fin (fadd s v) = true /\ Rabs (R_ (fadd s v)) <= IZR (k + 1) * Bnd.
Proof.
  intros Hk0 Hk Fs Fv Hs Hv.
  pose proof (Bplus_correct 53 1024 _ _ mode_NE s v Fs Fv) as H.
  set (x := (B2R s + B2R v)) in *.
  assert (Hx : Rabs x <= IZR (k + 1) * Bnd).
  { unfold x. eapply Rle_trans. apply Rabs_triang. rewrite plus_IZR. unfold R_ in *. lra. }
  assert (Hr : Rabs (round radix2 (SpecFloat.fexp 53 1024) (round_mode mode_NE) x) <= IZR (k + 1) * Bnd).
  { apply abs_round_le_generic; auto. apply fexp_correct. reflexivity. apply valid_rnd_N.
    apply format_kB. lia. }
  rewrite Rlt_bool_true in H.
  - destruct H as (H1 & H2 & _). split. exact H2. unfold R_, fadd. rewrite H1. exact Hr.
  - eapply Rle_lt_trans. exact Hr. apply kB_lt_emax. lia.
Qed.

Lemma fsum_finite l : forall k acc,
  (0 <= k)%Z -> (k + Z.of_nat (length l) < 2^26)%Z ->
  fin acc = true -> Rabs (R_ acc) <= IZR k * Bnd ->
  Forall (fun v => fin v = true /\ Rabs (R_ v) <= Bnd) l ->
  fin (fsum l acc) = true /\ Rabs (R_ (fsum l acc)) <= IZR (k + Z.of_nat (length l)) * Bnd.
Proof.
  induction l as [|v l IH]; intros k acc Hk0 Hk Fa Ha Hl.
  - simpl. rewrite Z.add_0_r. auto.
  - inversion Hl as [|? ? [Fv Hv] Hl']; subst. cbn [fsum length]. cbn [length] in Hk.
    destruct (add_step k acc v Hk0 ltac:(lia) Fa Fv Ha Hv) as [F1 H1].
    destruct (IH (k + 1)%Z (fadd acc v) ltac:(lia) ltac:(lia) F1 H1 Hl') as [F2 H2].
    split; auto. replace (k + Z.of_nat (S (length l)))%Z with (k + 1 + Z.of_nat (length l))%Z by lia. exact H2.
Qed.

(** the sum the mean is computed from is finite *)
Theorem sum_of_bounded_values_finite l :
  (Z.of_nat (length l) < 2^26)%Z ->
  Forall (fun v => fin v = true /\ Rabs (R_ v) <= Bnd) l ->
  fin (fsum l fnzero) = true.
Proof.
  intros Hn Hl. destruct (fsum_finite l 0 fnzero) as [F _]; auto; try lia.
  unfold R_. cbn. rewrite Rabs_R0. lra.
Qed.

(** ** the division: [sum / len as f64] is finite too *)
Lemma format_small_int (n : Z) : (0 <= n < 2^26)%Z -> generic_format radix2 (SpecFloat.fexp 53 1024) (IZR n).
Proof.
  intros Hn. replace (IZR n) with (F2R (Float radix2 n 0)) by (unfold F2R; simpl; ring).
  apply generic_format_F2R. intros Hn0. unfold cexp, SpecFloat.fexp.
  assert (Hm : (mag radix2 (F2R (Float radix2 n 0)) <= 26)%Z).
  { replace (F2R (Float radix2 n 0)) with (IZR n) by (unfold F2R; simpl; ring).
    apply mag_le_bpow. apply IZR_neq; lia. rewrite <- abs_IZR. change (bpow radix2 26) with (IZR (2^26)). apply IZR_lt. lia. }
  unfold SpecFloat.emin. simpl Fexp. lia.
Qed.

Lemma of_N_value (n : N) : (Z.of_N n < 2^26)%Z -> fin (of_N n) = true /\ R_ (of_N n) = IZR (Z.of_N n).
Proof.
  intros Hn. unfold of_N, R_.
  pose proof (binary_normalize_correct 53 1024 eq_refl eq_refl mode_NE (Z.of_N n) 0 false) as H.
  cbv zeta in H.
  assert (E : F2R (Float radix2 (Z.of_N n) 0) = IZR (Z.of_N n)) by (unfold F2R; simpl; ring).
  rewrite E in H.
  assert (Hf : generic_format radix2 (SpecFloat.fexp 53 1024) (IZR (Z.of_N n))) by (apply format_small_int; lia).
  rewrite round_generic in H by (try apply valid_rnd_N; exact Hf).
  rewrite Rlt_bool_true in H.
  - destruct H as (H1 & H2 & _). unfold fin. split; [exact H2|exact H1].
  - rewrite <- abs_IZR. change (bpow radix2 1024) with (IZR (2^1024)). apply IZR_lt. rewrite Z.abs_eq by lia.
    assert (2^26 < 2^1024)%Z by (apply Z.pow_lt_mono_r; lia). lia.
Qed.

Theorem mean_of_bounded_values_finite l :
  l <> [] -> (Z.of_nat (length l) < 2^26)%Z ->
  Forall (fun v => fin v = true /\ Rabs (R_ v) <= Bnd) l ->
  fin (fmean l) = true.
Proof.
  intros Hne Hn Hl. unfold fmean.
  destruct (fsum_finite l 0 fnzero) as [Fs Hs]; auto; try lia.
  { unfold R_. cbn. rewrite Rabs_R0. lra. }
  rewrite Z.add_0_l in Hs.
  set (n := N.of_nat (length l)).
  assert (Hn' : (Z.of_N n < 2^26)%Z) by (unfold n; rewrite nat_N_Z; exact Hn).
  destruct (of_N_value n Hn') as [Fn Rn].
  assert (Hpos : (1 <= Z.of_N n)%Z). { unfold n. rewrite nat_N_Z. destruct l; [congruence|cbn [length]; lia]. }
  assert (Rn1 : 1 <= R_ (of_N n)). { rewrite Rn. apply IZR_le. exact Hpos. }
  set (s := fsum l fnzero) in *.
  pose proof (Bdiv_correct 53 1024 prec_gt_0_53 prec_lt_emax_53 mode_NE s (of_N n)) as H.
  assert (Hnz : B2R (of_N n) <> 0) by (unfold R_ in Rn1; lra).
  specialize (H Hnz).
  assert (Hq : Rabs (B2R s / B2R (of_N n)) <= IZR (Z.of_nat (length l)) * Bnd).
  { unfold Rdiv. rewrite Rabs_mult. rewrite Rabs_Rinv by exact Hnz.
    unfold R_ in *. rewrite (Rabs_pos_eq (B2R (of_N n))) by lra.
    apply Rle_trans with (Rabs (B2R s) * 1).
    - apply Rmult_le_compat_l; [apply Rabs_pos|]. rewrite <- Rinv_1. apply Rinv_le_contravar; lra.
    - lra. }
  assert (Hr : Rabs (round radix2 (SpecFloat.fexp 53 1024) (round_mode mode_NE) (B2R s / B2R (of_N n))) <= IZR (Z.of_nat (length l)) * Bnd).
  { apply abs_round_le_generic; auto. apply fexp_correct. reflexivity. apply valid_rnd_N. apply format_kB. lia. }
  rewrite Rlt_bool_true in H.
  - destruct H as (_ & H2 & _). unfold fin, fdiv in *. rewrite H2. exact Fs.
  - eapply Rle_lt_trans; [exact Hr|]. apply kB_lt_emax. lia.
Qed.
