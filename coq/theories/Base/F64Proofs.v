(** * F64Proofs: order facts about finite binary64 values *)
From Coq Require Import ZArith Reals Bool Lia Lra List.
From Flocq Require Import Core IEEE754.BinarySingleNaN.
From Cambrian Require Import Base.F64.

Lemma fin_not_nan x : fin x = true -> fnan x = false.
Proof. destruct x; cbn; congruence. Qed.

Lemma bcompare_fin x y : fin x = true -> fin y = true ->
  Bcompare x y = Some (Rcompare (B2R x) (B2R y)).
Proof. intros. apply Bcompare_correct; assumption. Qed.

Lemma fle_false_flt x y : fin x = true -> fin y = true -> fle y x = false -> flt x y = true.
Proof.
  intros Fx Fy H. unfold fle, flt, Bleb, Bltb, SpecFloat.SFleb, SpecFloat.SFltb in *.
  fold (Bcompare y x) in H. fold (Bcompare x y).
  rewrite (bcompare_fin y x Fy Fx) in H. rewrite (bcompare_fin x y Fx Fy).
  destruct (Rcompare_spec (B2R y) (B2R x)); try discriminate.
  destruct (Rcompare_spec (B2R x) (B2R y)); try reflexivity; lra.
Qed.

Lemma flt_false_fle x y : fin x = true -> fin y = true -> flt x y = false -> fle y x = true.
Proof.
  intros Fx Fy H. unfold fle, flt, Bleb, Bltb, SpecFloat.SFleb, SpecFloat.SFltb in *.
  fold (Bcompare x y) in H. fold (Bcompare y x).
  rewrite (bcompare_fin x y Fx Fy) in H. rewrite (bcompare_fin y x Fy Fx).
  destruct (Rcompare_spec (B2R x) (B2R y)); try discriminate;
  destruct (Rcompare_spec (B2R y) (B2R x)); try reflexivity; lra.
Qed.

Lemma fzero_fin : fin fzero = true. Proof. reflexivity. Qed.

Lemma sf_eqb_eq a b : sf_eqb a b = true -> a = b.
Proof.
  destruct a, b; cbn; try discriminate; intros H.
  - apply eqb_prop in H. subst. reflexivity.
  - apply eqb_prop in H. subst. reflexivity.
  - reflexivity.
  - apply andb_prop in H. destruct H as [H H3]. apply andb_prop in H. destruct H as [H1 H2].
    apply eqb_prop in H1. apply Pos.eqb_eq in H2. apply Z.eqb_eq in H3. subst. reflexivity.
Qed.

Lemma fbits_eq_eq x y : fbits_eq x y = true -> x = y.
Proof. unfold fbits_eq. intros H. apply sf_eqb_eq in H. apply B2SF_inj in H. exact H. Qed.

Lemma fbits_eq_refl x : fbits_eq x x = true.
Proof.
  unfold fbits_eq. destruct (B2SF x); cbn; rewrite ?eqb_reflx, ?Pos.eqb_refl, ?Z.eqb_refl; reflexivity.
Qed.

Lemma fle_not_nan_r a x : fle a x = true -> fnan x = false.
Proof. destruct x; cbn; try reflexivity. destruct a; cbn; discriminate. Qed.
Lemma fle_not_nan_l x b : fle x b = true -> fnan x = false.
Proof. destruct x; cbn; try reflexivity. discriminate. Qed.

