(** * F64Proofs: order facts about finite binary64 values *)
From Coq Require Import ZArith Reals Bool Lia Lra List.
From Flocq Require Import Core IEEE754.BinarySingleNaN.
From Cambrian Require Import Base.F64.

Lemma fin_not_nan x : fin x = true -> fnan x = false.
Proof. destruct x; cbn; congruence. Qed.

Lemma bcompare_fin x y : fin x = true -> fin y = true ->
  Bcompare x y = Some (Rcompare (B2R x) (B2R y)).
Proof. intros. apply Bcompare_correct; assumption. Qed.

Lemma fle_false_flt x y : fin x = true -> fin y = true -> fle y x = false -> flt x y = true.
Proof.
  intros Fx Fy H. unfold fle, flt, Bleb, Bltb, SpecFloat.SFleb, SpecFloat.SFltb in *.
  fold (Bcompare y x) in H. fold (Bcompare x y).
  rewrite (bcompare_fin y x Fy Fx) in H. rewrite (bcompare_fin x y Fx Fy).
  destruct (Rcompare_spec (B2R y) (B2R x)); try discriminate.
  destruct (Rcompare_spec (B2R x) (B2R y)); try reflexivity; lra.
Qed.

Lemma flt_false_fle x y : fin x = true -> fin y = true -> flt x y = false -> fle y x = true.
Proof.
  intros Fx Fy H. unfold fle, flt, Bleb, Bltb, SpecFloat.SFleb, SpecFloat.SFltb in *.
  fold (Bcompare x y) in H. fold (Bcompare y x).
  rewrite (bcompare_fin x y Fx Fy) in H. rewrite (bcompare_fin y x Fy Fx).
  destruct (Rcompare_spec (B2R x) (B2R y)); try discriminate;
  destruct (Rcompare_spec (B2R y) (B2R x)); try reflexivity; lra.
Qed.

Lemma fzero_fin : fin fzero = true. Proof. reflexivity. Qed.
