(** * F64: binary64 as Flocq's [binary_float 53 1024] (single-NaN variant), the
    Rust operations cambrian uses on it, and the few interface lemmas the rest
    of the development needs.  Floats are exchanged with the Rust side as
    [to_bits()] integers. *)
From Coq Require Import ZArith Reals Bool Lia Lra List.
From Flocq Require Import Core IEEE754.BinarySingleNaN.
From Flocq Require IEEE754.Binary IEEE754.Bits.
Import ListNotations.

Definition f64 := binary_float 53 1024.
Lemma prec_gt_0_53 : FLX.Prec_gt_0 53. Proof. reflexivity. Qed.
Lemma prec_lt_emax_53 : Prec_lt_emax 53 1024. Proof. reflexivity. Qed.
#[global] Existing Instance prec_gt_0_53.
#[global] Existing Instance prec_lt_emax_53.

Definition of_bits (z : Z) : f64 := Binary.B2BSN 53 1024 (Bits.b64_of_bits z).
Definition to_bits (x : f64) : Z :=
  let sgn (s : bool) := if s then 0x8000000000000000%Z else 0%Z in
  match x with
  | B754_zero s => sgn s
  | B754_infinity s => (sgn s + 0x7ff0000000000000)%Z
  | B754_nan => 0x7ff8000000000000%Z
  | B754_finite s m e _ =>
      if Z.ltb (Zpos m) 0x10000000000000 then (sgn s + Zpos m)%Z
      else (sgn s + (e + 1075) * 0x10000000000000 + (Zpos m - 0x10000000000000))%Z
  end.

Definition fadd : f64 -> f64 -> f64 := Bplus mode_NE.
Definition fsub : f64 -> f64 -> f64 := Bminus mode_NE.
Definition fmul : f64 -> f64 -> f64 := Bmult mode_NE.
Definition fdiv : f64 -> f64 -> f64 := Bdiv mode_NE.
Definition flt (x y : f64) : bool := Bltb x y.
Definition fle (x y : f64) : bool := Bleb x y.
Definition feq (x y : f64) : bool := Beqb x y.
Definition fin (x : f64) : bool := is_finite x.
Definition fnan (x : f64) : bool := is_nan x.
Definition R_ (x : f64) : R := B2R x.

Definition fzero : f64 := B754_zero false.
Definition fnzero : f64 := B754_zero true.
Definition fone : f64 := of_bits 0x3ff0000000000000.
Definition of_N (n : N) : f64 := binary_normalize 53 1024 eq_refl eq_refl mode_NE (Z.of_N n) 0 false.

(** Rust [f64::max] / [f64::min] (NaN-ignoring) *)
Definition fmax (x y : f64) : f64 :=
  if fnan x then y else if fnan y then x else if flt x y then y else x.
Definition fmin (x y : f64) : f64 :=
  if fnan x then y else if fnan y then x else if flt y x then y else x.

(** [FiniteF64::cmp] = [partial_cmp().unwrap()] on finite values *)
Definition fcmp (x y : f64) : comparison :=
  match Bcompare x y with Some c => c | None => Eq end.

(** [Iterator::sum::<f64>()] folds from -0.0; [summary_obj_func_val] divides by [len as f64] *)
Fixpoint fsum (l : list f64) (acc : f64) : f64 :=
  match l with [] => acc | v :: l' => fsum l' (fadd acc v) end.
Definition fmean (l : list f64) : f64 := fdiv (fsum l fnzero) (of_N (N.of_nat (length l))).

(** structural equality (bit-for-bit on non-NaN values; there is a single NaN) *)
Definition sf_eqb (a b : SpecFloat.spec_float) : bool :=
  match a, b with
  | SpecFloat.S754_zero s, SpecFloat.S754_zero s' => Bool.eqb s s'
  | SpecFloat.S754_infinity s, SpecFloat.S754_infinity s' => Bool.eqb s s'
  | SpecFloat.S754_nan, SpecFloat.S754_nan => true
  | SpecFloat.S754_finite s m e, SpecFloat.S754_finite s' m' e' => Bool.eqb s s' && Pos.eqb m m' && Z.eqb e e'
  | _, _ => false
  end.
Definition fbits_eq (x y : f64) : bool := sf_eqb (B2SF x) (B2SF y).

