(** * FinOrder: [FiniteF64] (finite binary64 values with [partial_cmp().unwrap()]) and the
    single-sample mean satisfy the order hypotheses of the controller theorems (CtlMin):
    antisymmetry of the comparison, transitivity of <=, and [mean [x] ~ x]. *)
From Coq Require Import ZArith Reals Bool Lia Lra List.
From Flocq Require Import Core IEEE754.BinarySingleNaN.
From Cambrian Require Import Base.F64 Base.F64Proofs.
Import ListNotations.

(** finite values as a subset type *)
Definition ff64 : Type := { x : f64 | fin x = true }.
Definition fval (x : ff64) : f64 := proj1_sig x.
Definition ffcmp (a b : ff64) : comparison := fcmp (fval a) (fval b).

(** [summary_obj_func_val]: the mean, re-wrapped; where [FiniteF64::new(mean).unwrap()] would
    panic (overflow of the sum: excluded for bounded values by Mean.v) the first sample stands in *)
Definition zero_ff : ff64 := exist _ fzero eq_refl.
Definition ffmean (l : list ff64) : ff64 :=
  let m := fmean (map fval l) in
  match Bool.bool_dec (fin m) true with
  | left H => exist _ m H
  | right _ => hd zero_ff l
  end.

Lemma fcmp_fin a b : fin a = true -> fin b = true -> fcmp a b = Rcompare (B2R a) (B2R b).
Proof. intros Fa Fb. unfold fcmp. rewrite (bcompare_fin a b Fa Fb). reflexivity. Qed.

Lemma ffcmp_sym a b : ffcmp b a = CompOpp (ffcmp a b).
Proof.
  destruct a as [a Fa], b as [b Fb]. unfold ffcmp. cbn [fval proj1_sig].
  rewrite !fcmp_fin by assumption. apply Rcompare_sym.
Qed.

Lemma ffle_trans a b c : ffcmp a b <> Gt -> ffcmp b c <> Gt -> ffcmp a c <> Gt.
Proof.
  destruct a as [a Fa], b as [b Fb], c as [c Fc]. unfold ffcmp. cbn [fval proj1_sig].
  rewrite !fcmp_fin by assumption. intros H1 H2.
  destruct (Rcompare_spec (B2R a) (B2R b)); try congruence;
  destruct (Rcompare_spec (B2R b) (B2R c)); try congruence;
  destruct (Rcompare_spec (B2R a) (B2R c)); try congruence; lra.
Qed.

(** -0.0 + x = x and x / 1.0 = x in value, for finite x *)
Lemma one_R : B2R (of_N 1) = 1%R.
Proof. vm_compute. lra. Qed.

Lemma single_mean_value x : fin x = true ->
  fin (fmean [x]) = true /\ B2R (fmean [x]) = B2R x.
Proof.
  intros Fx. unfold fmean. cbn [fsum map length N.of_nat Pos.of_succ_nat].
  assert (Hfmt : generic_format radix2 (SpecFloat.fexp 53 1024) (B2R x)) by (apply generic_format_B2R).
  assert (Hlt : (Rabs (B2R x) < bpow radix2 1024)%R) by (apply abs_B2R_lt_emax).
  (* the sum *)
  pose proof (Bplus_correct 53 1024 prec_gt_0_53 prec_lt_emax_53 mode_NE fnzero x eq_refl Fx) as Hp.
  change (B2R fnzero) with 0%R in Hp. rewrite Rplus_0_l in Hp.
  rewrite round_generic in Hp by (try apply valid_rnd_N; exact Hfmt).
  rewrite Rlt_bool_true in Hp by exact Hlt. destruct Hp as (Hp1 & Hp2 & _).
  fold (fadd fnzero x) in Hp1, Hp2.
  (* the division by 1.0 *)
  assert (Hone : B2R (of_N 1) <> 0%R) by (rewrite one_R; lra).
  pose proof (Bdiv_correct 53 1024 prec_gt_0_53 prec_lt_emax_53 mode_NE (fadd fnzero x) (of_N 1) Hone) as Hd.
  rewrite one_R, Hp1 in Hd. unfold Rdiv in Hd. rewrite Rinv_1, Rmult_1_r in Hd.
  rewrite round_generic in Hd by (try apply valid_rnd_N; exact Hfmt).
  rewrite Rlt_bool_true in Hd by exact Hlt. destruct Hd as (Hd1 & Hd2 & _).
  fold (fdiv (fadd fnzero x) (of_N 1)) in Hd1, Hd2.
  split; [unfold fin in *; rewrite Hd2; exact Hp2 | exact Hd1].
Qed.

Lemma ffmean_single x : ffcmp (ffmean [x]) x = Eq.
Proof.
  destruct x as [x Fx]. unfold ffcmp, ffmean. cbn [map fval proj1_sig hd].
  destruct (single_mean_value x Fx) as [Fm Hm].
  destruct (Bool.bool_dec (fin (fmean [x])) true) as [H|H]; [|congruence].
  cbn [fval proj1_sig]. rewrite fcmp_fin by assumption. rewrite Hm. apply Rcompare_Eq. reflexivity.
Qed.
