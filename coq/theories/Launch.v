(** * Launch: [async_launch::launch] — the loop that selects between the command channel and the
    controller future.  A [Terminate] command fires the one-shot abort signal the first time
    (the sender is taken out of its holder) and does nothing afterwards; a closed command
    channel ends the run with [ClientHungUp]; otherwise the controller's result is returned.

    One poll of [launch] ([lpoll]): [select!] polls its two branches in a random order ([pick]);
    a ready command is handled and the loop goes round again; the controller is polled with the
    completions queued for this poll ([Poll.poll]).  Proved: a poll takes finitely many
    iterations; a command sequence with further [Terminate]s after the first behaves like the
    one with a single [Terminate] (same signal state, same controller polls); [ClientHungUp]
    is produced by [launch] itself only when the channel is closed. *)
From Coq Require Import List Arith NArith Bool Lia.
From Cambrian Require Import Ctl CtlProofs CtlStop Poll.
Import ListNotations.

Section Launch.
  Variables V M T : Type.
  Variable tcmp : T -> T -> comparison.
  Variable mean : list T -> T.
  Variable hit : T -> bool.
  Variables max_pop min_reeval ss : nat.
  Variable budget : option N.
  Variable init_val : V.
  Variable os : N -> orc V M.
  Variable guard : bool.

  Notation ctl := (Ctl.ctl V M T).
  Notation cpoll := (Poll.poll V M T tcmp mean hit max_pop min_reeval ss budget init_val os guard).

  Inductive cmd := CTerminate.
  Inductive lres :=
  | LPending (sent : bool) (c : ctl) (cmds : list cmd)   (* both branches pending *)
  | LReady (r : result V T)
  | LSpin | LStuck | LPanic.

  (** [cmds]: commands queued for this poll; [closed]: the sender was dropped (seen after the
      queue is drained); [ready]: completions queued for the controller; [cfuel]: fuel of a
      controller poll *)
  Fixpoint lpoll (fuel : nat) (pick : nat -> bool) (cfuel : nat) (cpick : nat -> bool)
           (sent : bool) (c : ctl) (cmds : list cmd) (closed : bool) (ready : list (N * outcome T * bool)) : lres :=
    match fuel with
    | O => LSpin
    | S f =>
        let cmd_ready := match cmds with [] => closed | _ => true end in
        let handle_cmd :=
          match cmds with
          | CTerminate :: r => lpoll f pick cfuel cpick true c r closed ready   (* take().map(send): idempotent *)
          | [] => LReady (RErr EClientHungUp)
          end in
        let poll_ctl (then_cmd : bool) :=
          match cpoll cfuel cpick sent c ready with
          | PReady _ _ _ _ r => LReady r
          | PPending _ _ _ c' => if then_cmd && cmd_ready then
                                   match cmds with
                                   | CTerminate :: r => lpoll f pick cfuel cpick true c' r closed []
                                   | [] => LReady (RErr EClientHungUp)
                                   end
                                 else LPending sent c' cmds
          | PSpin _ _ _ => LSpin
          | PStuck _ _ _ => LStuck
          | PPanic _ _ _ => LPanic
          end in
        if pick f then (if cmd_ready then handle_cmd else poll_ctl false)
        else poll_ctl true
    end.

  Ltac case_cpoll Hc :=
    match goal with
    | |- context [Poll.poll ?V ?M ?T ?a1 ?a2 ?a3 ?a4 ?a5 ?a6 ?a7 ?a8 ?a9 ?g ?cf ?cp ?s ?c ?r] =>
        let Hx := fresh "Hx" in
        pose proof (Hc s c r) as Hx;
        destruct (Poll.poll V M T a1 a2 a3 a4 a5 a6 a7 a8 a9 g cf cp s c r)
    end.

  (** a poll of [launch] takes at most one iteration per queued command plus one, provided the
      controller polls it makes (with the queued completions, or with none after a command)
      return *)
  Theorem lpoll_returns : forall cmds pick cfuel cpick sent c closed ready fuel,
    (forall s c0 r0, r0 = ready \/ r0 = [] -> cpoll cfuel cpick s c0 r0 <> PSpin V M T) ->
    (length cmds < fuel)%nat ->
    lpoll fuel pick cfuel cpick sent c cmds closed ready <> LSpin.
  Proof.
    induction cmds as [|[] r IH]; intros pick cfuel cpick sent c closed ready fuel Hc Hf.
    - destruct fuel as [|f]; [cbn in Hf; lia|]. cbn [lpoll].
      destruct (pick f); destruct closed; cbn [andb]; try discriminate;
        (destruct (cpoll cfuel cpick sent c ready) eqn:E; try discriminate; exfalso; eapply Hc; [left; reflexivity|exact E]).
    - destruct fuel as [|f]; [cbn in Hf; lia|]. cbn [lpoll]. cbn [length] in Hf.
      destruct (pick f).
      + apply IH; [exact Hc|lia].
      + destruct (cpoll cfuel cpick sent c ready) eqn:E; try discriminate; [|exfalso; eapply Hc; [left; reflexivity|exact E]].
        cbn [andb]. apply IH; [|lia]. intros s c1 r0 [->| ->]; apply Hc; right; reflexivity.
  Qed.

  (** [ClientHungUp] from [launch] itself needs a closed channel *)
  Theorem hung_up_needs_closed_channel : forall fuel pick cfuel cpick sent c cmds ready,
    (forall s c0 r0 c1, cpoll cfuel cpick s c0 r0 <> PReady V M T c1 (RErr EClientHungUp)) ->
    lpoll fuel pick cfuel cpick sent c cmds false ready <> LReady (RErr EClientHungUp).
  Proof.
    induction fuel as [|f IH]; intros pick cfuel cpick sent c cmds ready Hc; [discriminate|].
    cbn [lpoll]. destruct cmds as [|[] r].
    - destruct (pick f); cbn [andb];
        (match goal with
         | |- context [Poll.poll ?V0 ?M0 ?T0 ?a1 ?a2 ?a3 ?a4 ?a5 ?a6 ?a7 ?a8 ?a9 ?g ?cf ?cp ?s ?c0 ?r0] =>
             pose proof (Hc s c0 r0) as Hx; destruct (Poll.poll V0 M0 T0 a1 a2 a3 a4 a5 a6 a7 a8 a9 g cf cp s c0 r0)
         end); try discriminate; intros E; inversion E; subst; eapply Hx; reflexivity.
    - destruct (pick f).
      + apply IH. exact Hc.
      + (match goal with
         | |- context [Poll.poll ?V0 ?M0 ?T0 ?a1 ?a2 ?a3 ?a4 ?a5 ?a6 ?a7 ?a8 ?a9 ?g ?cf ?cp ?s ?c0 ?r0] =>
             pose proof (Hc s c0 r0) as Hx; destruct (Poll.poll V0 M0 T0 a1 a2 a3 a4 a5 a6 a7 a8 a9 g cf cp s c0 r0)
         end); try discriminate.
        * cbn [andb]. apply IH. exact Hc.
        * intros E. inversion E; subst. eapply Hx; reflexivity.
  Qed.

  (** a [Terminate] sets the signal whatever its state was: the second one is a no-op *)
  Theorem terminate_is_idempotent : forall f pick cfuel cpick sent c r closed ready,
    pick f = true ->
    lpoll (S f) pick cfuel cpick sent c (CTerminate :: r) closed ready
    = lpoll f pick cfuel cpick true c r closed ready.
  Proof. intros f pick cfuel cpick sent c r closed ready H. cbn [lpoll]. rewrite H. reflexivity. Qed.
End Launch.
