(** * Writer: [sync_launch::handle_detailed_report_items] — one CSV row per report item, and the
    best-seen file rewritten whenever an item's objective is strictly below the best so far.
    Generic in the order on objective values; [W_rows]/[W_best] are the contents of the two
    files after the items received so far (so the statements hold at every prefix: also when
    the run fails, the files written so far are consistent). *)
From Coq Require Import List NArith Bool Lia.
From Cambrian Require Import Ctl.
Import ListNotations.

Section Writer.
  Variables V M T : Type.
  Variable tcmp : T -> T -> comparison.
  Notation item := (Ctl.item V M T).

  Record wstate := mkW { w_rows : list item; w_best : option (V * T) }.
  Definition w0 : wstate := mkW [] None.

  Definition wstep (w : wstate) (it : item) : wstate :=
    mkW (w_rows w ++ [it])
        (match it_res it with
         | Some x =>
             match w_best w with
             | Some (_, b) => if match tcmp x b with Lt => true | _ => false end then Some (it_val it, x) else w_best w
             | None => Some (it_val it, x)
             end
         | None => w_best w
         end).

  Definition wrun (its : list item) : wstate := fold_left wstep its w0.

  Hypothesis tcmp_sym : forall a b, tcmp b a = CompOpp (tcmp a b).
  Hypothesis tle_trans : forall a b c, tcmp a b <> Gt -> tcmp b c <> Gt -> tcmp a c <> Gt.

  Lemma tcmp_refl a : tcmp a a <> Gt.
  Proof. pose proof (tcmp_sym a a) as H. destruct (tcmp a a); cbn in H; congruence. Qed.

  (** invariant: rows = items so far; best = an item with a value that is <= every valued item *)
  Definition WInv (its : list item) (w : wstate) : Prop :=
    w_rows w = its /\
    match w_best w with
    | None => forall it, In it its -> it_res it = None
    | Some (v, b) =>
        (exists it, In it its /\ it_res it = Some b /\ it_val it = v) /\
        (forall it y, In it its -> it_res it = Some y -> tcmp b y <> Gt)
    end.

  Lemma WInv_step its w it : WInv its w -> WInv (its ++ [it]) (wstep w it).
  Proof.
    intros [Hr Hb]. unfold wstep. split; [cbn; rewrite Hr; reflexivity|]. cbn [w_best].
    destruct (it_res it) as [x|] eqn:Ex.
    - destruct (w_best w) as [[v b]|] eqn:Eb.
      + destruct Hb as [(it0 & Hin0 & Hres0 & Hv0) Hmin].
        destruct (tcmp x b) eqn:Ec.
        * (* equal: keep *) split.
          -- exists it0. split; [apply in_or_app; left; exact Hin0|auto].
          -- intros it1 y Hin Hy. apply in_app_or in Hin. destruct Hin as [Hin|[<-|[]]]; [eapply Hmin; eauto|].
             rewrite Ex in Hy. inversion Hy; subst y. rewrite tcmp_sym, Ec. cbn. discriminate.
        * (* strictly smaller: replace *) split.
          -- exists it. split; [apply in_or_app; right; left; reflexivity|auto].
          -- intros it1 y Hin Hy. apply in_app_or in Hin. destruct Hin as [Hin|[<-|[]]].
             ++ apply (tle_trans x b y); [rewrite Ec; discriminate | eapply Hmin; eauto].
             ++ rewrite Ex in Hy. inversion Hy; subst y. apply tcmp_refl.
        * split.
          -- exists it0. split; [apply in_or_app; left; exact Hin0|auto].
          -- intros it1 y Hin Hy. apply in_app_or in Hin. destruct Hin as [Hin|[<-|[]]]; [eapply Hmin; eauto|].
             rewrite Ex in Hy. inversion Hy; subst y. rewrite tcmp_sym, Ec. cbn. discriminate.
      + split.
        * exists it. split; [apply in_or_app; right; left; reflexivity|auto].
        * intros it1 y Hin Hy. apply in_app_or in Hin. destruct Hin as [Hin|[<-|[]]].
          -- rewrite (Hb it1 Hin) in Hy. discriminate.
          -- rewrite Ex in Hy. inversion Hy; subst y. apply tcmp_refl.
    - destruct (w_best w) as [[v b]|] eqn:Eb.
      + destruct Hb as [(it0 & Hin0 & Hres0 & Hv0) Hmin]. split.
        * exists it0. split; [apply in_or_app; left; exact Hin0|auto].
        * intros it1 y Hin Hy. apply in_app_or in Hin. destruct Hin as [Hin|[<-|[]]]; [eapply Hmin; eauto|congruence].
      + intros it1 Hin. apply in_app_or in Hin. destruct Hin as [Hin|[<-|[]]]; [apply Hb; exact Hin|exact Ex].
  Qed.

  Lemma WInv_run_from : forall its pre w, WInv pre w -> WInv (pre ++ its) (fold_left wstep its w).
  Proof.
    induction its as [|it its IH]; intros pre w H; cbn [fold_left]; [rewrite app_nil_r; exact H|].
    replace (pre ++ it :: its) with ((pre ++ [it]) ++ its) by (rewrite <- app_assoc; reflexivity).
    apply IH. apply WInv_step. exact H.
  Qed.

  Theorem writer_files_consistent its : WInv its (wrun its).
  Proof.
    unfold wrun. apply (WInv_run_from its [] w0). split; [reflexivity|]. cbn. intros it [].
  Qed.
End Writer.
