(** * CtlMin: what the reported best-seen is (C02), and the agreement of counts
    and report items with what was evaluated (C14, controller part). *)
From Coq Require Import List Arith NArith Bool Lia Permutation.
From RecordUpdate Require Import RecordSet.
From Cambrian Require Import Ctl CtlProofs CtlStruct.
Import ListNotations.

Section Min.
  Variables V M T : Type.
  Variable tcmp : T -> T -> comparison.
  Variable mean : list T -> T.
  Variable hit : T -> bool.
  Variables max_pop min_reeval ss : nat.
  Variable nc : N.
  Variable budget : option N.
  Variable init_val : V.
  Variable os : N -> orc V M.

  Notation ctl := (Ctl.ctl V M T).
  Notation ind := (Ctl.ind V M T).
  Notation pop_t := (Ctl.pop_t V M T).
  Notation push := (Ctl.push (T:=T) min_reeval ss init_val os).
  Notation push_n := (Ctl.push_n (T:=T) min_reeval ss init_val os).
  Notation init := (Ctl.init T min_reeval ss nc budget init_val os).
  Notation step := (Ctl.step tcmp mean hit max_pop min_reeval ss budget init_val os).
  Notation exec := (Ctl.exec tcmp mean hit max_pop min_reeval ss budget init_val os).
  Notation process := (Ctl.process tcmp mean max_pop ss).
  Notation insert := (Ctl.insert (V:=V) (M:=M) tcmp).
  Notation kcmp := (Ctl.kcmp tcmp).
  Notation InvS := (CtlStruct.InvS V M T ss init_val).
  Notation count_turn := (Ctl.count_turn (V:=V) (M:=M) (T:=T)).

  Hypothesis ss_pos : (1 <= ss)%nat.

  (** accepted returns recorded for individual [j], in completion order *)
  Definition vals_of (c : ctl) (j : N) : list T :=
    flat_map (fun it => if N.eqb (it_id it) j then match it_res it with Some x => [x] | None => [] end else [])
             (c_items c).

  Lemma vals_of_app (c c' : ctl) it j :
    c_items c' = c_items c ++ [it] ->
    vals_of c' j = vals_of c j ++ (if N.eqb (it_id it) j then match it_res it with Some x => [x] | None => [] end else []).
  Proof. unfold vals_of. intros ->. rewrite flat_map_app. cbn. rewrite app_nil_r. reflexivity. Qed.

  Definition vs_ok_infl (c : ctl) (i : ind) : Prop :=
    match i_st i with PendingEval vs => vs = vals_of c (i_id i) | _ => True end.
  Definition vs_ok_pop (c : ctl) (i : ind) : Prop :=
    match i_st i with
    | Ready vs => vs = vals_of c (i_id i)
    | Final x => x = mean (vals_of c (i_id i)) /\ length (vals_of c (i_id i)) = ss
    | PendingEval _ => True
    end.

  Definition n_some (l : list (item V M T)) : N :=
    N.of_nat (length (filter (fun it => match it_res it with Some _ => true | None => false end) l)).
  Definition n_none (l : list (item V M T)) : N :=
    N.of_nat (length (filter (fun it => match it_res it with Some _ => false | None => true end) l)).

  Record InvV (c : ctl) : Prop := {
    v_infl : forall s i, In (s, i) (c_infl c) -> vs_ok_infl c i;
    v_pop : forall k i, In (k, i) (a_pop (c_algo c)) -> vs_ok_pop c i;
    v_items_lt : forall it, In it (c_items c) -> (it_id it < a_next_id (c_algo c))%N;
    v_items_started : forall it, In it (c_items c) -> In (it_id it, it_seed it, it_val it) (c_started c);
    v_items_seeds : NoDup (map (fun it => it_seed it) (c_items c) ++ map fst (c_infl c));
    v_acc : c_acc c = n_some (c_items c);
    v_rej : c_rej c = n_none (c_items c);
  }.

  Definition P (c : ctl) : Prop := InvS c /\ InvV c.

  Lemma vals_of_fresh c j : InvV c -> (a_next_id (c_algo c) <= j)%N -> vals_of c j = [].
  Proof.
    intros [_ _ H _ _ _ _] Hj. unfold vals_of. induction (c_items c) as [|it l IH]; [reflexivity|].
    cbn. assert (Hit : (it_id it < a_next_id (c_algo c))%N) by (apply H; left; reflexivity).
    destruct (N.eqb (it_id it) j) eqn:E; [apply N.eqb_eq in E; lia|].
    cbn. apply IH. intros it' Hin. apply H. right. exact Hin.
  Qed.

  Lemma P_push c : P c -> P (push c).
  Proof.
    intros [IS IV]. split; [apply InvS_push; assumption|].
    pose proof (InvS_push V M T min_reeval ss init_val os ss_pos c IS) as IS'.
    unfold Ctl.push in *.
    destruct (Ctl.next_individual min_reeval ss init_val (c_algo c) (os (c_next_seed c))) as [i a'] eqn:En.
    unfold Ctl.next_individual in En.
    destruct IV as [V1 V2 V3 V4 V5 V6 V7].
    assert (Hseedfresh : ~ In (c_next_seed c) (map (fun it => it_seed it) (c_items c) ++ map fst (c_infl c))).
    { intros Hin. apply in_app_or in Hin.
      assert (Hs : forall id v, In (id, c_next_seed c, v) (c_started c) -> False).
      { intros id v Hin'.
        assert (H2 : In (c_next_seed c) (map (fun x => snd (fst x)) (c_started c))).
        { apply in_map_iff. exists (id, c_next_seed c, v). split; [reflexivity|exact Hin']. }
        rewrite (s_seeds _ _ _ _ _ _ IS) in H2. apply in_map_iff in H2. destruct H2 as [n [E Hn]].
        apply in_seq in Hn. rewrite (s_next_seed _ _ _ _ _ _ IS) in E. lia. }
      destruct Hin as [Hin|Hin].
      - apply in_map_iff in Hin. destruct Hin as [it [E Hit]]. specialize (V4 it Hit). rewrite E in V4. eapply Hs; eauto.
      - apply in_map_iff in Hin. destruct Hin as [[s i0] [E Hi0]]. cbn in E. subst s.
        pose proof (s_infl_started _ _ _ _ _ _ IS _ _ Hi0) as H3. eapply Hs; eauto. }
    assert (Hfresh : Ctl.fresh init_val (c_algo c) (os (c_next_seed c)) = (i, a') ->
                     i_st i = PendingEval [] /\ i_id i = a_next_id (c_algo c) /\ a_pop a' = a_pop (c_algo c) /\
                     a_next_id a' = N.succ (a_next_id (c_algo c))).
    { unfold Ctl.fresh. destruct (a_init_used (c_algo c)); intros H; inversion H; cbn; auto. }
    assert (Gen : (i_st i = PendingEval [] /\ i_id i = a_next_id (c_algo c) /\ a_pop a' = a_pop (c_algo c) /\
                   a_next_id a' = N.succ (a_next_id (c_algo c))) \/
                  (exists k vs j, In (k, j) (a_pop (c_algo c)) /\ i_st j = Ready vs /\ i = set_st j (PendingEval vs) /\
                                  (forall y, In y (a_pop a') -> In y (a_pop (c_algo c))) /\
                                  a_next_id a' = a_next_id (c_algo c))).
    { destruct (Ctl.try_reeval _ _ _ _); [|left; apply Hfresh; exact En].
      destruct (extract_best_ready (a_pop (c_algo c))) as [[j p']|] eqn:Ex; [|left; apply Hfresh; exact En].
      right. destruct (extract_split _ _ _ _ _ _ Ex) as (k & l1 & l2 & Ep & Ep' & Er).
      unfold is_ready in Er. destruct (i_st j) as [vs|vs|x] eqn:Est; try discriminate.
      inversion En; subst i a'. exists k, vs, j. repeat split; auto.
      - rewrite Ep. apply in_or_app. right. left. reflexivity.
      - cbn. intros y Hy. rewrite Ep. rewrite Ep' in Hy. apply in_app_or in Hy. apply in_or_app.
        destruct Hy; [left|right; right]; assumption. }
    constructor; cbn.
    - intros s i0 Hin. apply in_app_or in Hin. destruct Hin as [Hin|[Hin|[]]].
      + specialize (V1 s i0 Hin). unfold vs_ok_infl, vals_of in *. cbn. exact V1.
      + inversion Hin; subst. unfold vs_ok_infl. destruct Gen as [(G1 & G2 & _)|(k & vs & j & G1 & G2 & G3 & _)].
        * rewrite G1. symmetry. unfold vals_of. cbn.
          apply (vals_of_fresh c (i_id i0)); [constructor; assumption | lia].
        * subst i0. cbn. specialize (V2 k j G1). unfold vs_ok_pop in V2. rewrite G2 in V2. exact V2.
    - intros k i0 Hin. unfold vs_ok_pop, vals_of. cbn.
      destruct Gen as [(_ & _ & G3 & _)|(_ & _ & _ & _ & _ & _ & G4 & _)].
      + rewrite G3 in Hin. exact (V2 k i0 Hin).
      + exact (V2 k i0 (G4 _ Hin)).
    - intros it Hit. specialize (V3 it Hit).
      destruct Gen as [(_ & _ & _ & G4)|(_ & _ & _ & _ & _ & _ & _ & G5)]; rewrite ?G4, ?G5; lia.
    - intros it Hit. apply in_or_app. left. apply V4. exact Hit.
    - rewrite map_app. cbn. rewrite app_assoc. apply NoDup_snoc; assumption.
    - exact V6.
    - exact V7.
  Qed.

  Lemma n_some_app l it : n_some (l ++ [it]) = (n_some l + match it_res it with Some _ => 1 | None => 0 end)%N.
  Proof. unfold n_some. rewrite filter_app, app_length. cbn. destruct (it_res it); cbn; lia. Qed.
  Lemma n_none_app l it : n_none (l ++ [it]) = (n_none l + match it_res it with Some _ => 0 | None => 1 end)%N.
  Proof. unfold n_none. rewrite filter_app, app_length. cbn. destruct (it_res it); cbn; lia. Qed.

  (** dropping an evaluation without a report item (failure / hung-up consumer) *)
  Lemma InvV_drop (c c' : ctl) seed i rest :
    take seed (c_infl c) = Some (i, rest) ->
    c_algo c' = c_algo c -> c_infl c' = rest -> c_started c' = c_started c -> c_items c' = c_items c ->
    c_acc c' = c_acc c -> c_rej c' = c_rej c -> InvV c -> InvV c'.
  Proof.
    intros Ht Ea Ei Es Eit Eacc Erej [V1 V2 V3 V4 V5 V6 V7].
    pose proof (take_perm _ _ _ _ _ _ _ Ht) as Perm.
    assert (Hsub : forall x, In x rest -> In x (c_infl c)).
    { intros x Hx. apply (Permutation_in (l := (seed, i) :: rest)); [symmetry; exact Perm | right; exact Hx]. }
    constructor; unfold vs_ok_infl, vs_ok_pop, vals_of in *; rewrite ?Ea, ?Ei, ?Es, ?Eit, ?Eacc, ?Erej; try assumption.
    - intros s i0 Hin. apply (V1 s i0). apply Hsub. exact Hin.
    - assert (Pm : Permutation (map (fun it => it_seed it) (c_items c) ++ map fst (c_infl c))
                               (seed :: (map (fun it => it_seed it) (c_items c) ++ map fst rest))).
      { rewrite (Permutation_map fst Perm). cbn. symmetry. apply Permutation_middle. }
      pose proof (Permutation_NoDup Pm V5) as ND. apply NoDup_cons_iff in ND. apply ND.
  Qed.

  (** a counted result *)
  Lemma P_count (c c' : ctl) seed i rest o a' :
    take seed (c_infl c) = Some (i, rest) -> not_fail T o ->
    process (c_algo c) i (res_of o) = Some a' ->
    c' = set (c_algo (T:=T)) (fun _ => a') (count_turn (set (c_infl (T:=T)) (fun _ => rest) c) i seed o) ->
    P c -> P c'.
  Proof.
    intros Ht Ho Hp Ec' [IS IV].
    assert (IS' : InvS c').
    { subst c'. destruct o as [x| |e]; [| |destruct Ho].
      - apply InvS_accept with (tcmp := tcmp) (mean := mean) (max_pop := max_pop) (c := c) (seed := seed) (i := i) (rest := rest) (x := x) (a' := a'); auto.
      - cbn in Hp. inversion Hp; subst. apply InvS_drop with (c := c) (seed := seed) (i := i) (rest := rest); auto. }
    split; [exact IS'|].
    destruct IV as [V1 V2 V3 V4 V5 V6 V7].
    pose proof (take_perm _ _ _ _ _ _ _ Ht) as Perm.
    assert (Hiin : In (seed, i) (c_infl c)).
    { apply (Permutation_in (l := (seed, i) :: rest)); [symmetry; exact Perm | left; reflexivity]. }
    assert (Hsub : forall y, In y rest -> In y (c_infl c)).
    { intros y Hy. apply (Permutation_in (l := (seed, i) :: rest)); [symmetry; exact Perm | right; exact Hy]. }
    set (it := mkItem (i_id i) seed (i_val i) (i_meta i) (res_of o)).
    assert (Eit : c_items c' = c_items c ++ [it]) by (subst c'; destruct o; reflexivity).
    assert (Einfl : c_infl c' = rest) by (subst c'; destruct o; reflexivity).
    assert (Est : c_started c' = c_started c) by (subst c'; destruct o; reflexivity).
    assert (Ealgo : c_algo c' = a') by (subst c'; destruct o; reflexivity).
    (* ids of the others differ from i's *)
    pose proof (s_nodup _ _ _ _ _ _ IS) as ND.
    assert (PermIds : Permutation (ids_infl V M T c ++ ids_pop V M T (c_algo c))
                                  (i_id i :: (map (fun y => i_id (snd y)) rest ++ ids_pop V M T (c_algo c)))).
    { unfold ids_infl. rewrite (Permutation_map (fun y => i_id (snd y)) Perm). reflexivity. }
    pose proof (Permutation_NoDup PermIds ND) as ND2. apply NoDup_cons_iff in ND2. destruct ND2 as [Hnotin _].
    assert (Hother_infl : forall s i0, In (s, i0) rest -> i_id i0 <> i_id i).
    { intros s i0 Hin E. apply Hnotin. apply in_or_app. left. apply in_map_iff. exists (s, i0). split; [exact E|exact Hin]. }
    assert (Hother_pop : forall k i0, In (k, i0) (a_pop (c_algo c)) -> i_id i0 <> i_id i).
    { intros k i0 Hin E. apply Hnotin. apply in_or_app. right. apply in_map_iff. exists (k, i0). split; [exact E|exact Hin]. }
    assert (Hvo : forall j, j <> i_id i -> vals_of c' j = vals_of c j).
    { intros j Hj. rewrite (vals_of_app c c' it j Eit). cbn.
      destruct (N.eqb (i_id i) j) eqn:E; [apply N.eqb_eq in E; congruence|]. apply app_nil_r. }
    assert (Hvi : vals_of c' (i_id i) = vals_of c (i_id i) ++ match res_of o with Some x => [x] | None => [] end).
    { rewrite (vals_of_app c c' it (i_id i) Eit). cbn. rewrite N.eqb_refl. reflexivity. }
    destruct (s_infl_st _ _ _ _ _ _ IS seed i Hiin) as (vs & Esti & _ & _).
    pose proof (V1 seed i Hiin) as Vi. unfold vs_ok_infl in Vi. rewrite Esti in Vi.
    assert (Hpop' : forall k0 i0, In (k0, i0) (a_pop a') ->
                    In (k0, i0) (a_pop (c_algo c)) \/
                    (exists x, res_of o = Some x /\ i_id i0 = i_id i /\
                               i_st i0 = (if Nat.eqb (length (vs ++ [x])) ss then Final (mean (vs ++ [x])) else Ready (vs ++ [x])))).
    { intros k0 i0 Hin. destruct o as [x| |e]; [| |destruct Ho].
      - cbn in Hp. unfold Ctl.transition in Hp. rewrite Esti in Hp. inversion Hp as [Ha']. rewrite <- Ha' in Hin. cbn in Hin.
        apply firstn_incl in Hin. apply insert_in in Hin. destruct Hin as [Hin|Hin]; [|left; exact Hin].
        inversion Hin; subst. right. exists x. cbn. auto.
      - cbn in Hp. inversion Hp; subst. left. exact Hin. }
    constructor.
    - rewrite Einfl. intros s i0 Hin. specialize (V1 s i0 (Hsub _ Hin)). unfold vs_ok_infl in *.
      rewrite (Hvo (i_id i0) (Hother_infl _ _ Hin)). exact V1.
    - rewrite Ealgo. intros k0 i0 Hin. unfold vs_ok_pop. destruct (Hpop' k0 i0 Hin) as [Hold|(x & Er & Eid & Est0)].
      + specialize (V2 k0 i0 Hold). unfold vs_ok_pop in V2. rewrite (Hvo (i_id i0) (Hother_pop _ _ Hold)). exact V2.
      + rewrite Est0, Eid, Hvi, Er, <- Vi.
        destruct (Nat.eqb (length (vs ++ [x])) ss) eqn:El; [apply Nat.eqb_eq in El; split; [reflexivity|exact El] | reflexivity].
    - rewrite Eit, Ealgo. intros it0 Hin.
      assert (Hn : a_next_id a' = a_next_id (c_algo c)).
      { destruct o as [x| |e]; [| |destruct Ho]; cbn in Hp.
        - unfold Ctl.transition in Hp. rewrite Esti in Hp. inversion Hp; reflexivity.
        - inversion Hp; reflexivity. }
      rewrite Hn. apply in_app_or in Hin. destruct Hin as [Hin|[Hin|[]]]; [apply V3; exact Hin|].
      subst it0. cbn. apply (s_lt _ _ _ _ _ _ IS). apply in_or_app. left. apply in_map_iff. exists (seed, i). split; [reflexivity|exact Hiin].
    - rewrite Eit, Est. intros it0 Hin. apply in_app_or in Hin. destruct Hin as [Hin|[Hin|[]]]; [apply V4; exact Hin|].
      subst it0. cbn. apply (s_infl_started _ _ _ _ _ _ IS). exact Hiin.
    - rewrite Eit, Einfl, map_app. cbn. rewrite <- app_assoc. cbn.
      apply (Permutation_NoDup (l := map (fun it => it_seed it) (c_items c) ++ map fst (c_infl c))); [|exact V5].
      rewrite (Permutation_map fst Perm). cbn. reflexivity.
    - subst c'. destruct o as [x| |e]; [| |destruct Ho]; cbn; rewrite n_some_app; cbn; rewrite V6; lia.
    - subst c'. destruct o as [x| |e]; [| |destruct Ho]; cbn; rewrite n_none_app; cbn; rewrite V7; lia.
  Qed.

  Lemma P_step c l : P c -> match step c l with Cont c' | Ret c' _ => P c' | _ => True end.
  Proof.
    revert c l. apply step_inv.
    - intros c [IS IV]. split.
      + apply InvS_ext with (c := c); auto.
      + destruct IV. constructor; assumption.
    - intros c seed i rest e [IS IV] Ht. unfold Ctl.fail_turn. cbn. split.
      + destruct (c_aborted c); apply InvS_drop with (c := c) (seed := seed) (i := i) (rest := rest); auto.
      + destruct (c_aborted c); apply InvV_drop with (c := c) (seed := seed) (i := i) (rest := rest); auto.
    - intros c seed i rest [IS IV] Ht. split.
      + apply InvS_drop with (c := c) (seed := seed) (i := i) (rest := rest); auto.
      + apply InvV_drop with (c := c) (seed := seed) (i := i) (rest := rest); auto.
    - intros c seed i rest o a' HP Ht Ho Hp. eapply P_count; eauto.
    - intros c HP _ _ _. apply P_push. exact HP.
  Qed.

  Lemma P_ctl0 : P (ctl0 V M T).
  Proof.
    split; [apply InvS_ctl0; exact ss_pos|].
    constructor; cbn; try (intros; contradiction); try constructor; reflexivity.
  Qed.

  Lemma P_push_n k : forall c, P c -> P (push_n k c).
  Proof. induction k as [|k IH]; intros c H; cbn [Ctl.push_n]; [exact H|]. apply IH. apply P_push. exact H. Qed.

  Theorem P_reachable ls :
    match exec init ls with Cont c | Ret c _ => P c | _ => True end.
  Proof.
    pose proof (exec_lift V M T tcmp mean hit max_pop min_reeval ss budget init_val os P (fun c _ => P c)) as G.
    assert (G2 : match exec init ls with Cont c => P c | Ret c r => (fun c _ => P c) c r | _ => True end).
    { apply G.
      - intros c l I. pose proof (P_step c l I) as K. destruct (step c l); exact K.
      - apply P_push_n. apply P_ctl0. }
    destruct (exec init ls); exact G2.
  Qed.

  (** ** what is reported *)
  Lemma bsf_in (p : pop_t) x v :
    best_seen_final p = Some (x, v) -> exists k i, In (k, i) p /\ i_st i = Final x /\ i_val i = v.
  Proof.
    induction p as [|[k i] p IH]; cbn; intros H; [discriminate|].
    destruct (i_st i) as [vs|vs|y] eqn:E.
    - destruct (IH H) as (k' & i' & A & B & C). exists k', i'. auto.
    - destruct (IH H) as (k' & i' & A & B & C). exists k', i'. auto.
    - inversion H; subst. exists k, i. auto.
  Qed.

  (** the reported best-seen value was handed to the objective function under some seed, and its
      objective is the mean of exactly [ss] accepted returns of that one individual; the
      reported counts are the numbers of report items with and without a value *)
  Theorem best_is_evaluated_lemma ls c x v a b :
    exec init ls = Ret c (ROk x v a b) ->
    exists id s, In (id, s, v) (c_started c) /\
                 x = mean (vals_of c id) /\ length (vals_of c id) = ss /\
                 a = n_some (c_items c) /\ b = n_none (c_items c).
  Proof.
    intros He. pose proof (P_reachable ls) as HP. rewrite He in HP. destruct HP as [IS IV].
    pose proof (ret_shape V M T tcmp mean hit max_pop min_reeval ss budget init_val os ls init) as Hr.
    rewrite He in Hr. destruct Hr as [Hr|[Hr _]]; [|discriminate].
    unfold Ctl.finish in Hr. destruct (c_err c); [discriminate|].
    destruct (best_seen_final (a_pop (c_algo c))) as [[x' v']|] eqn:Eb; [|discriminate].
    inversion Hr; subst x' v' a b. destruct (bsf_in _ _ _ Eb) as (k & i & Hin & Hst & Hv).
    destruct (s_pop_started _ _ _ _ _ _ IS k i Hin) as [s Hs].
    pose proof (v_pop _ IV k i Hin) as Hvp. unfold vs_ok_pop in Hvp. rewrite Hst in Hvp. destruct Hvp as [E1 E2].
    exists (i_id i), s. rewrite <- Hv. repeat split; auto.
    - apply (v_acc _ IV).
    - apply (v_rej _ IV).
  Qed.

  (** ** sample size 1: the report is a minimum over everything accepted *)
  Hypothesis tcmp_sym : forall a b, tcmp b a = CompOpp (tcmp a b).
  Hypothesis tle_trans : forall a b c, tcmp a b <> Gt -> tcmp b c <> Gt -> tcmp a c <> Gt.
  Hypothesis mean_single : forall x, tcmp (mean [x]) x = Eq.
  Hypothesis max_pop_pos : (1 <= max_pop)%nat.

  Definition tle (a b : T) : Prop := tcmp a b <> Gt.

  Lemma tle_refl a : tle a a.
  Proof. unfold tle. pose proof (tcmp_sym a a) as H. destruct (tcmp a a); cbn in H; congruence. Qed.

  Definition HdMinL (p : pop_t) : Prop :=
    match p with [] => True | (k0, _) :: r => forall k i, In (k, i) r -> tle (fst k0) (fst k) end.

  Lemma kcmp_le k k' : kcmp k k' <> Gt -> tle (fst k) (fst k').
  Proof. unfold Ctl.kcmp, tle. destruct (tcmp (fst k) (fst k')); congruence. Qed.
  Lemma kcmp_ge k k' : kcmp k k' = Gt -> tle (fst k') (fst k).
  Proof.
    unfold Ctl.kcmp, tle. rewrite (tcmp_sym (fst k) (fst k')). destruct (tcmp (fst k) (fst k')); cbn; congruence.
  Qed.

  Lemma insert_hdmin k i (p : pop_t) :
    HdMinL p ->
    HdMinL (insert k i p) /\
    exists k1 i1 r1, insert k i p = (k1, i1) :: r1 /\ tle (fst k1) (fst k) /\
                     (forall k0 i0 r0, p = (k0, i0) :: r0 -> tle (fst k1) (fst k0)).
  Proof.
    destruct p as [|[k0 i0] r]; cbn [Ctl.insert]; intros H.
    - split; [cbn; intros; contradiction|]. exists k, i, []. split; [reflexivity|]. split; [apply tle_refl|]. intros; discriminate.
    - destruct (kcmp k k0) eqn:E.
      + assert (L : tle (fst k) (fst k0)) by (apply kcmp_le; congruence).
        split.
        * cbn. intros k' i' Hin. eapply tle_trans; [exact L|]. apply (H k' i'). exact Hin.
        * exists k, i, r. split; [reflexivity|]. split; [apply tle_refl|]. intros k0' i0' r0' Eq. inversion Eq; subst. exact L.
      + assert (L : tle (fst k) (fst k0)) by (apply kcmp_le; congruence).
        split.
        * cbn. intros k' i' [Hin|Hin]; [inversion Hin; subst; exact L|]. eapply tle_trans; [exact L|]. apply (H k' i'). exact Hin.
        * exists k, i, ((k0, i0) :: r). split; [reflexivity|]. split; [apply tle_refl|]. intros k0' i0' r0' Eq. inversion Eq; subst. exact L.
      + assert (L : tle (fst k0) (fst k)) by (apply kcmp_ge; exact E).
        split.
        * cbn. intros k' i' Hin. apply insert_in in Hin. destruct Hin as [Hin|Hin]; [inversion Hin; subst; exact L|]. apply (H k' i'). exact Hin.
        * exists k0, i0, (insert k i r). split; [reflexivity|]. split; [exact L|]. intros k0' i0' r0' Eq. inversion Eq; subst. apply tle_refl.
  Qed.

  Record InvMin (c : ctl) : Prop := {
    m_final : forall k i, In (k, i) (a_pop (c_algo c)) -> i_st i = Final (fst k);
    m_hd : HdMinL (a_pop (c_algo c));
    m_acc : forall it y, In it (c_items c) -> it_res it = Some y ->
            exists k0 i0 r, a_pop (c_algo c) = (k0, i0) :: r /\ tle (fst k0) y;
  }.

  Hypothesis ss1 : ss = 1%nat.

  Lemma push_pop_ss1 c : a_pop (c_algo (push c)) = a_pop (c_algo c) /\ c_items (push c) = c_items c.
  Proof.
    unfold Ctl.push. destruct (Ctl.next_individual _ _ _ _ _) as [i a'] eqn:En. cbn.
    unfold Ctl.next_individual, Ctl.try_reeval in En. rewrite ss1 in En. cbn in En.
    unfold Ctl.fresh in En. destruct (a_init_used (c_algo c)); inversion En; subst; auto.
  Qed.

  Lemma PM_step c l : P c /\ InvMin c -> match step c l with Cont c' | Ret c' _ => P c' /\ InvMin c' | _ => True end.
  Proof.
    revert c l. apply step_inv.
    - intros c [HP [M1 M2 M3]]. split.
      + pose proof (P_step c LAbort HP) as K. exact K.
      + constructor; assumption.
    - intros c seed i rest e [HP [M1 M2 M3]] Ht. split.
      + pose proof (P_step c (LDone seed (OFail e) true) HP) as K. cbn [Ctl.step] in K. rewrite Ht in K. exact K.
      + unfold Ctl.fail_turn. cbn. destruct (c_aborted c); constructor; assumption.
    - intros c seed i rest [HP [M1 M2 M3]] Ht. split.
      + pose proof (P_step c (LDone seed OReject false) HP) as K. cbn [Ctl.step] in K. rewrite Ht in K. exact K.
      + constructor; assumption.
    - intros c seed i rest o a' [HP [M1 M2 M3]] Ht Ho Hp.
      split; [eapply P_count; eauto|].
      destruct HP as [IS IV].
      assert (Hiin : In (seed, i) (c_infl c)).
      { apply (Permutation_in (l := (seed, i) :: rest)); [symmetry; eapply take_perm; eauto | left; reflexivity]. }
      destruct (s_infl_st _ _ _ _ _ _ IS seed i Hiin) as (vs & Esti & _ & Hlen).
      rewrite ss1 in Hlen. assert (vs = []) by (destruct vs; cbn in Hlen; [reflexivity|lia]). subst vs.
      destruct o as [x| |e]; [| |destruct Ho].
      + cbn in Hp. unfold Ctl.transition in Hp. rewrite Esti in Hp. cbn in Hp. rewrite ss1 in Hp. cbn in Hp.
        inversion Hp as [Ha']. clear Hp.
        set (k := (mean [x], i_id i)) in *. set (i' := set_st i (Final (mean [x]))) in *.
        destruct (insert_hdmin k i' (a_pop (c_algo c)) M2) as (H1 & k1 & i1 & r1 & E1 & L1 & L0).
        assert (Hfn : firstn max_pop (insert k i' (a_pop (c_algo c))) = (k1, i1) :: firstn (max_pop - 1) r1).
        { rewrite E1. destruct max_pop as [|m]; [lia|]. cbn. rewrite Nat.sub_0_r. reflexivity. }
        constructor; cbn.
        * intros k0 i0 Hin. apply firstn_incl in Hin. apply insert_in in Hin.
          destruct Hin as [Hin|Hin]; [inversion Hin; subst; reflexivity | apply M1; exact Hin].
        * rewrite Hfn. cbn. intros k' i'0 Hin. apply firstn_incl in Hin.
          rewrite E1 in H1. cbn in H1. apply (H1 k' i'0). exact Hin.
        * intros it y Hin Hy. rewrite Hfn.
          exists k1, i1, (firstn (max_pop - 1) r1). split; [reflexivity|].
          apply in_app_or in Hin. destruct Hin as [Hin|[Hin|[]]].
          -- destruct (M3 it y Hin Hy) as (k0 & i0 & r0 & Ep & Ly). eapply tle_trans; [|exact Ly]. eapply L0; eauto.
          -- subst it. cbn in Hy. inversion Hy; subst y. eapply tle_trans; [exact L1|]. unfold k. cbn.
             rewrite mean_single. discriminate.
      + cbn in Hp. inversion Hp; subst a'. constructor; cbn; try assumption.
        intros it y Hin Hy. apply in_app_or in Hin. destruct Hin as [Hin|[Hin|[]]]; [eapply M3; eauto|].
        subst it. cbn in Hy. discriminate.
    - intros c [HP [M1 M2 M3]] _ _ _. split; [apply P_push; exact HP|].
      destruct (push_pop_ss1 c) as [E1 E2]. constructor; rewrite ?E1, ?E2; assumption.
  Qed.

  Lemma push_n_pop_ss1 k : forall c, a_pop (c_algo (push_n k c)) = a_pop (c_algo c) /\ c_items (push_n k c) = c_items c.
  Proof.
    induction k as [|k IH]; intros c; cbn [Ctl.push_n]; [auto|].
    destruct (IH (push c)) as [A B]. destruct (push_pop_ss1 c) as [C D]. split; congruence.
  Qed.

  Theorem PM_reachable ls :
    match exec init ls with Cont c | Ret c _ => P c /\ InvMin c | _ => True end.
  Proof.
    pose proof (exec_lift V M T tcmp mean hit max_pop min_reeval ss budget init_val os
                  (fun c => P c /\ InvMin c) (fun c _ => P c /\ InvMin c)) as G.
    assert (G2 : match exec init ls with Cont c => P c /\ InvMin c | Ret c r => (fun c _ => P c /\ InvMin c) c r | _ => True end).
    { apply G.
      - intros c l I. pose proof (PM_step c l I) as K. destruct (step c l); exact K.
      - split; [apply P_push_n; apply P_ctl0|].
        unfold Ctl.init. destruct (push_n_pop_ss1 (N.to_nat (Ctl.initial_num nc budget)) (ctl0 V M T)) as [A B].
        constructor; rewrite ?A, ?B; cbn; try (intros; contradiction). exact I. }
    destruct (exec init ls); exact G2.
  Qed.

  (** the reported objective is below every accepted return of the run *)
  Theorem best_is_min_ss1_lemma ls c x v a b :
    exec init ls = Ret c (ROk x v a b) ->
    forall it y, In it (c_items c) -> it_res it = Some y -> tle x y.
  Proof.
    intros He it y Hin Hy. pose proof (PM_reachable ls) as HP. rewrite He in HP. destruct HP as [_ [M1 M2 M3]].
    pose proof (ret_shape V M T tcmp mean hit max_pop min_reeval ss budget init_val os ls init) as Hr.
    rewrite He in Hr. destruct Hr as [Hr|[Hr _]]; [|discriminate].
    unfold Ctl.finish in Hr. destruct (c_err c); [discriminate|].
    destruct (M3 it y Hin Hy) as (k0 & i0 & r0 & Ep & Ly).
    rewrite Ep in Hr. cbn in Hr. rewrite (M1 k0 i0) in Hr by (rewrite Ep; left; reflexivity).
    inversion Hr; subst. exact Ly.
  Qed.

  (** with something accepted and no recorded failure the run does not end with "no individuals" *)
  Theorem accepted_implies_report_ss1_lemma ls c r it y :
    exec init ls = Ret c r -> In it (c_items c) -> it_res it = Some y -> c_err c = None -> c_failed c = 0%N ->
    exists x v a b, r = ROk x v a b.
  Proof.
    intros He Hin Hy Herr Hf. pose proof (PM_reachable ls) as HP. rewrite He in HP. destruct HP as [_ [M1 M2 M3]].
    pose proof (ret_shape V M T tcmp mean hit max_pop min_reeval ss budget init_val os ls init) as Hr.
    rewrite He in Hr. destruct Hr as [Hr|[_ Hr]]; [|lia].
    unfold Ctl.finish in Hr. rewrite Herr in Hr.
    destruct (M3 it y Hin Hy) as (k0 & i0 & r0 & Ep & Ly).
    rewrite Ep in Hr. cbn in Hr. rewrite (M1 k0 i0) in Hr by (rewrite Ep; left; reflexivity).
    eexists _, _, _, _. exact Hr.
  Qed.
End Min.
