(** * CrossProofs: whole-tree facts about the crossover relation [cross_check]:
    the offspring of conforming parents conforms (any number of parents, any
    crossover probability and selection pressure, any spec, any nesting). *)
From Coq Require Import String.
From Coq Require Import List ZArith NArith Bool Lia.
From Flocq Require Import IEEE754.BinarySingleNaN.
From Cambrian Require Import Base.F64 Base.F64Proofs SourceFacts Syntax Ops OpsProofs MutProofs.
Import ListNotations.

(** ** induction over values (nested through [list], [prod] and [option]) *)
Section ValueInd.
  Variable P : value -> Prop.
  Hypothesis Hreal : forall x, P (VReal x).
  Hypothesis Hint : forall z, P (VInt z).
  Hypothesis Hbool : forall b, P (VBool b).
  Hypothesis Hsub : forall m, Forall (fun kv => P (snd kv)) m -> P (VSub m).
  Hypothesis Harr : forall l, Forall P l -> P (VArray l).
  Hypothesis Hmap : forall m, Forall (fun kv => P (snd kv)) m -> P (VAnonMap m).
  Hypothesis Hvar : forall n v, P v -> P (VVariant n v).
  Hypothesis Henum : forall n, P (VEnum n).
  Hypothesis HoptN : P (VOptional None).
  Hypothesis HoptS : forall v, P v -> P (VOptional (Some v)).
  Hypothesis Hconst : P VConst.

  Fixpoint value_ind' (v : value) : P v :=
    match v with
    | VReal x => Hreal x
    | VInt z => Hint z
    | VBool b => Hbool b
    | VSub m =>
        Hsub m ((fix go (l : list (string * value)) : Forall (fun kv => P (snd kv)) l :=
                   match l with
                   | [] => Forall_nil _
                   | kv :: r => Forall_cons kv (value_ind' (snd kv)) (go r)
                   end) m)
    | VArray l =>
        Harr l ((fix go (l : list value) : Forall P l :=
                   match l with
                   | [] => Forall_nil _
                   | x :: r => Forall_cons x (value_ind' x) (go r)
                   end) l)
    | VAnonMap m =>
        Hmap m ((fix go (l : list (N * value)) : Forall (fun kv => P (snd kv)) l :=
                   match l with
                   | [] => Forall_nil _
                   | kv :: r => Forall_cons kv (value_ind' (snd kv)) (go r)
                   end) m)
    | VVariant n x => Hvar n x (value_ind' x)
    | VEnum n => Henum n
    | VOptional None => HoptN
    | VOptional (Some x) => HoptS x (value_ind' x)
    | VConst => Hconst
    end.
End ValueInd.

(** [veqb] decides equality (bitwise on reals) *)
Lemma veqb_eq : forall a b, veqb a b = true -> a = b.
Proof.
  induction a using value_ind'; intros bb Hb; destruct bb; cbn [veqb] in Hb; try discriminate.
  - apply fbits_eq_eq in Hb. subst. reflexivity.
  - apply Z.eqb_eq in Hb. subst. reflexivity.
  - apply eqb_prop in Hb. subst. reflexivity.
  - f_equal. revert m0 Hb. induction m as [|[k1 v1] r IHr]; intros [|[k2 v2] r2] Hb; try discriminate; [reflexivity|].
    inversion H as [|? ? Hv Hr]; subst.
    apply andb_prop in Hb. destruct Hb as [Hb H3]. apply andb_prop in Hb. destruct Hb as [H1 H2].
    apply String.eqb_eq in H1. subst. cbn [snd] in Hv. rewrite (Hv _ H2). f_equal. apply IHr; assumption.
  - f_equal. revert l0 Hb. induction l as [|v1 r IHr]; intros [|v2 r2] Hb; try discriminate; [reflexivity|].
    inversion H as [|? ? Hv Hr]; subst.
    apply andb_prop in Hb. destruct Hb as [H2 H3]. rewrite (Hv _ H2). f_equal. apply IHr; assumption.
  - f_equal. revert m0 Hb. induction m as [|[k1 v1] r IHr]; intros [|[k2 v2] r2] Hb; try discriminate; [reflexivity|].
    inversion H as [|? ? Hv Hr]; subst.
    apply andb_prop in Hb. destruct Hb as [Hb H3]. apply andb_prop in Hb. destruct Hb as [H1 H2].
    apply N.eqb_eq in H1. subst. cbn [snd] in Hv. rewrite (Hv _ H2). f_equal. apply IHr; assumption.
  - apply andb_prop in Hb. destruct Hb as [H1 H2]. apply String.eqb_eq in H1. subst. rewrite (IHa _ H2). reflexivity.
  - apply String.eqb_eq in Hb. subst. reflexivity.
  - destruct o; [discriminate|reflexivity].
  - destruct o as [w|]; [|discriminate]. rewrite (IHa _ Hb). reflexivity.
  - reflexivity.
Qed.

(** ** list helpers *)
Lemma all_some_in {A B} (f : A -> option B) : forall ps cvs v,
  all_some (map f ps) = Some cvs -> In v cvs -> exists p, In p ps /\ f p = Some v.
Proof.
  induction ps as [|p r IH]; intros cvs v Ha Hin; cbn in Ha.
  - inversion Ha; subst. destruct Hin.
  - destruct (f p) as [b|] eqn:Ef; [|discriminate].
    destruct (all_some (map f r)) as [r'|] eqn:Er; [|discriminate]. inversion Ha; subst.
    destruct Hin as [->|Hin].
    + exists p. split; [left; reflexivity|exact Ef].
    + destruct (IH _ _ eq_refl Hin) as (q & Hq & Hf). exists q. split; [right; exact Hq|exact Hf].
Qed.

Lemma all_some_of {A B} (f : A -> option B) : forall ps cvs p,
  all_some (map f ps) = Some cvs -> In p ps -> exists v, f p = Some v /\ In v cvs.
Proof.
  induction ps as [|q r IH]; intros cvs p Ha Hin; [destruct Hin|]. cbn in Ha.
  destruct (f q) as [b|] eqn:Ef; [|discriminate].
  destruct (all_some (map f r)) as [r'|] eqn:Er; [|discriminate]. inversion Ha; subst.
  destruct Hin as [->|Hin].
  - exists b. split; [exact Ef|left; reflexivity].
  - destruct (IH _ _ eq_refl Hin) as (v & Hv & Hi). exists v. split; [exact Hv|right; exact Hi].
Qed.

Lemma somes_in {A B} (f : A -> option B) : forall ps v,
  In v (somes (map f ps)) -> exists p, In p ps /\ f p = Some v.
Proof.
  induction ps as [|p r IH]; intros v Hin; cbn in Hin; [destruct Hin|].
  destruct (f p) as [b|] eqn:Ef.
  - destruct Hin as [->|Hin].
    + exists p. split; [left; reflexivity|exact Ef].
    + destruct (IH _ Hin) as (q & Hq & Hf). exists q. split; [right; exact Hq|exact Hf].
  - destruct (IH _ Hin) as (q & Hq & Hf). exists q. split; [right; exact Hq|exact Hf].
Qed.

Lemma in_combine_seq {A} : forall (l : list A) s c, In c l -> exists i, In (i, c) (combine (seq s (length l)) l).
Proof.
  induction l as [|a r IH]; intros s c Hin; [destruct Hin|]. cbn.
  destruct Hin as [->|Hin].
  - exists s. left. reflexivity.
  - destruct (IH (S s) c Hin) as [i Hi]. exists i. right. exact Hi.
Qed.

Lemma pick_any_parent pr ps child : pick_any pr ps child = true -> exists x, In x ps /\ veqb x child = true.
Proof.
  unfold pick_any. intros H. apply existsb_exists in H. destruct H as [[i x] [Hin H]].
  apply andb_prop in H. destruct H as [_ H]. exists x. split; [|exact H].
  apply in_combine_r in Hin. exact Hin.
Qed.

(** the union of the parents' key sets contains every parent's keys *)
Definition addk (acc : list N) (k : N) : list N := if mem_n k acc then acc else (acc ++ [k])%list.

Lemma addk_keeps acc k x : In x acc -> In x (addk acc k).
Proof. unfold addk. destruct (mem_n k acc); [auto|]. intros H. apply in_or_app. left. exact H. Qed.
Lemma addk_has acc k : In k (addk acc k).
Proof.
  unfold addk. destruct (mem_n k acc) eqn:E.
  - apply mem_n_In. exact E.
  - apply in_or_app. right. left. reflexivity.
Qed.
Lemma fold_addk_keeps : forall ks acc x, In x acc -> In x (fold_left addk ks acc).
Proof. induction ks as [|k r IH]; intros acc x H; cbn; [exact H|]. apply IH. apply addk_keeps. exact H. Qed.
Lemma fold_addk_has : forall ks acc k, In k ks -> In k (fold_left addk ks acc).
Proof.
  induction ks as [|k0 r IH]; intros acc k H; [destruct H|]. cbn. destruct H as [->|H].
  - apply fold_addk_keeps. apply addk_has.
  - apply IH. exact H.
Qed.

Lemma union_keys_has : forall (pms : list (list (N * value))) m k, In m pms -> In k (keys_n m) -> In k (union_keys pms).
Proof.
  unfold union_keys. intros pms.
  assert (Keep : forall (l : list (list (N * value))) acc x, In x acc ->
             In x (fold_left (fun acc m => fold_left (fun acc k => if mem_n k acc then acc else (acc ++ [k])%list) (keys_n m) acc) l acc)).
  { induction l as [|m0 r IH]; intros acc x H; cbn [fold_left]; [exact H|]. apply IH. apply (fold_addk_keeps (keys_n m0) acc x H). }
  assert (Gen : forall (l : list (list (N * value))) acc m k, In m l -> In k (keys_n m) ->
             In k (fold_left (fun acc m => fold_left (fun acc k => if mem_n k acc then acc else (acc ++ [k])%list) (keys_n m) acc) l acc)).
  { induction l as [|m0 r IH]; intros acc m k Hm Hk; [destruct Hm|]. cbn [fold_left]. destruct Hm as [->|Hm].
    - apply Keep. apply (fold_addk_has (keys_n m) acc k Hk).
    - eapply IH; eauto. }
  intros m k. apply Gen.
Qed.

(** ** main theorem: crossover is closed under conformance *)
Definition all_conform (fr : bool) (s : spec) (ps : list value) : Prop := forall p, In p ps -> conforms_g fr s p = true.

Lemma from_parent fr s ps child x : all_conform fr s ps -> In x ps -> veqb x child = true -> conforms_g fr s child = true.
Proof. intros HF Hin He. apply veqb_eq in He. subst. apply HF. exact Hin. Qed.

Lemma choose_parent pr (ps : list value) x0 child (b : bool) :
  In x0 ps -> (if b then veqb x0 child else pick_any pr ps child) = true -> exists x, In x ps /\ veqb x child = true.
Proof. intros Hin H. destruct b; [exists x0; auto|apply pick_any_parent in H; exact H]. Qed.

Theorem crossover_conforms : forall fr cp pr s ps child,
  all_conform fr s ps -> cross_check cp pr s ps child = true -> conforms_g fr s child = true.
Proof.
  intros fr cp pr.
  induction s using spec_ind'; intros ps child HF Hx; cbn [cross_check] in Hx;
    try (destruct ps as [|x0 [|x1 rest]]; [discriminate | eapply from_parent; [exact HF|left; reflexivity|exact Hx] | ]);
    cbn [is_leaf] in Hx.
  - (* real *)
    eapply choose_parent in Hx; [destruct Hx as (x & Hin & He); eapply from_parent; eauto | left; reflexivity].
  - eapply choose_parent in Hx; [destruct Hx as (x & Hin & He); eapply from_parent; eauto | left; reflexivity].
  - eapply choose_parent in Hx; [destruct Hx as (x & Hin & He); eapply from_parent; eauto | left; reflexivity].
  - (* sub *)
    apply orb_prop in Hx. destruct Hx as [Hx|Hx].
    { apply andb_prop in Hx. destruct Hx as [_ Hx]. apply pick_any_parent in Hx. destruct Hx as (x & Hin & He). eapply from_parent; eauto. }
    apply andb_prop in Hx. destruct Hx as [_ Hx]. destruct child; try discriminate.
    apply andb_prop in Hx. destruct Hx as [Hx Hgo]. apply andb_prop in Hx. destruct Hx as [Hlen Hnd].
    cbn [conforms_g]. rewrite Hnd, Hlen. cbn [andb].
    set (PS := x0 :: x1 :: rest) in *. clearbody PS.
    rewrite Forall_forall in H.
    assert (Gen : forall l, (forall kv, In kv l -> In kv ms) ->
               (fix go (l : list (string * spec)) : bool :=
                  match l with
                  | [] => true
                  | (k, cs) :: r =>
                      match all_some (map (fun v => match v with VSub m => slookup k m | _ => None end) PS), slookup k m with
                      | Some cvs, Some cv => cross_check cp pr cs cvs cv && go r
                      | _, _ => false
                      end
                  end) l = true ->
               forallb (fun kv : string * spec => match slookup (fst kv) m with Some v' => conforms_g fr (snd kv) v' | None => false end) l = true).
    { induction l as [|[k cs] r IHr]; intros Hsub Hg; [reflexivity|].
      destruct (all_some _) as [cvs|] eqn:Ea; [|discriminate]. destruct (slookup k m) as [cv|] eqn:Ec; [|discriminate].
      apply andb_prop in Hg. destruct Hg as [Hc Hg]. cbn [forallb fst snd]. rewrite Ec.
      assert (Hin : In (k, cs) ms) by (apply Hsub; left; reflexivity).
      assert (Hcv : conforms_g fr cs cv = true); [|rewrite Hcv; cbn [andb]; apply IHr; [intros kv Hkv; apply Hsub; right; exact Hkv|exact Hg]].
      apply (H (k, cs) Hin cvs cv); [|exact Hc].
      intros v Hv. destruct (all_some_in _ _ _ _ Ea Hv) as (q & Hq & Hf).
      specialize (HF q Hq). destruct q; cbn [conforms_g] in HF; try discriminate.
      apply andb_prop in HF. destruct HF as [_ HF]. rewrite forallb_forall in HF. specialize (HF (k, cs) Hin).
      cbn [fst snd] in HF. rewrite Hf in HF. exact HF. }
    apply Gen; [auto|exact Hgo].
  - (* array *)
    apply orb_prop in Hx. destruct Hx as [Hx|Hx].
    { apply andb_prop in Hx. destruct Hx as [_ Hx]. apply pick_any_parent in Hx. destruct Hx as (x & Hin & He). eapply from_parent; eauto. }
    apply andb_prop in Hx. destruct Hx as [_ Hx]. destruct child; try discriminate.
    apply andb_prop in Hx. destruct Hx as [Hlen Hall]. cbn [conforms_g]. rewrite Hlen. cbn [andb].
    set (PS := x0 :: x1 :: rest) in *. clearbody PS.
    apply forallb_forall. intros c Hc. destruct (in_combine_seq l 0%nat c Hc) as [i Hi].
    rewrite forallb_forall in Hall. specialize (Hall (i, c) Hi). cbn [fst snd] in Hall.
    destruct (all_some _) as [cvs|] eqn:Ea; [|discriminate].
    apply (IHs cvs c); [|exact Hall].
    intros v Hv. destruct (all_some_in _ _ _ _ Ea Hv) as (q & Hq & Hf).
    specialize (HF q Hq). destruct q; cbn [conforms_g] in HF; try discriminate.
    apply andb_prop in HF. destruct HF as [_ HF]. rewrite forallb_forall in HF. apply HF.
    apply nth_error_In in Hf. exact Hf.
  - (* anon map *)
    apply orb_prop in Hx. destruct Hx as [Hx|Hx].
    { apply andb_prop in Hx. destruct Hx as [_ Hx]. apply pick_any_parent in Hx. destruct Hx as (x & Hin & He). eapply from_parent; eauto. }
    apply andb_prop in Hx. destruct Hx as [_ Hx]. destruct child; try discriminate.
    set (PS := x0 :: x1 :: rest) in *.
    assert (Hx0 : In x0 PS) by (left; reflexivity). clearbody PS.
    destruct (all_some _) as [pms|] eqn:Ea; [|discriminate].
    apply andb_prop in Hx. destruct Hx as [Hx Hch]. apply andb_prop in Hx. destruct Hx as [Hx _].
    apply andb_prop in Hx. destruct Hx as [Hx Hmin]. apply andb_prop in Hx. destruct Hx as [Hx Hmax].
    apply andb_prop in Hx. destruct Hx as [Hx _]. apply andb_prop in Hx. destruct Hx as [_ Hnd].
    assert (L : length (keys_n m) = length m) by (unfold keys_n; apply map_length).
    rewrite L in Hmin, Hmax. unfold keys_n in Hnd.
    cbn [conforms_g]. rewrite Hnd, Hmax. cbn [andb].
    assert (Hmn : match mn with Some a => Nat.leb a (length m) | None => true end = true).
    { destruct mn as [a|]; [|reflexivity].
      destruct (all_some_of _ _ _ _ Ea Hx0) as (m0 & Hm0 & Hin0).
      pose proof (HF x0 Hx0) as H0. destruct x0; try discriminate. inversion Hm0; subst m1. cbn [conforms_g] in H0.
      apply andb_prop in H0. destruct H0 as [H0 _]. apply andb_prop in H0. destruct H0 as [H0 _].
      apply andb_prop in H0. destruct H0 as [Nd0 Ha]. apply Nat.leb_le in Ha.
      apply nodup_n_NoDup in Nd0.
      assert (Hincl : incl (map fst m0) (union_keys pms)).
      { intros k Hk. eapply union_keys_has; [exact Hin0|exact Hk]. }
      pose proof (NoDup_incl_length Nd0 Hincl) as Hle. rewrite map_length in Hle.
      apply Nat.leb_le in Hmin. apply Nat.leb_le. lia. }
    rewrite Hmn. cbn [andb].
    apply forallb_forall. intros [k v] Hkv. cbn [snd]. rewrite forallb_forall in Hch. specialize (Hch (k, v) Hkv). cbn [fst snd] in Hch.
    eapply IHs; [|exact Hch].
    intros w Hw. destruct (somes_in _ _ _ Hw) as (pm & Hpm & Hl).
    destruct (all_some_in _ _ _ _ Ea Hpm) as (q & Hq & Hf).
    specialize (HF q Hq). destruct q; try discriminate. inversion Hf; subst m0. cbn [conforms_g] in HF.
    apply andb_prop in HF. destruct HF as [_ HF]. rewrite forallb_forall in HF.
    apply nlookup_In in Hl. apply (HF (k, w) Hl).
  - (* variant *)
    apply orb_prop in Hx. destruct Hx as [Hx|Hx].
    { apply andb_prop in Hx. destruct Hx as [_ Hx]. apply pick_any_parent in Hx. destruct Hx as (x & Hin & He). eapply from_parent; eauto. }
    apply andb_prop in Hx. destruct Hx as [_ Hx]. destruct child; try discriminate.
    set (PS := x0 :: x1 :: rest) in *. clearbody PS.
    destruct (all_some _) as [nps|] eqn:Ea; [|discriminate].
    apply andb_prop in Hx. destruct Hx as [_ Hlook]. cbn [conforms_g].
    assert (Hsrc : forall x, In x (map snd (filter (fun nx : string * value => String.eqb (fst nx) name) nps)) ->
                   conforms_g fr (SVariant os i) (VVariant name x) = true).
    { intros x Hin. apply in_map_iff in Hin. destruct Hin as ([n y] & Hy & Hin). cbn [snd] in Hy. subst y.
      apply filter_In in Hin. destruct Hin as [Hin Hn]. cbn [fst] in Hn. apply String.eqb_eq in Hn. subst n.
      destruct (all_some_in _ _ _ _ Ea Hin) as (q & Hq & Hf).
      specialize (HF q Hq). destruct q; try discriminate. inversion Hf; subst. exact HF. }
    cbn [conforms_g] in Hsrc.
    revert H Hlook Hsrc. clear. induction os as [|[k cs] os IHos]; intros HFo Hlook Hsrc; [discriminate|].
    inversion HFo as [|? ? Hh Ht]; subst. cbn [snd] in Hh.
    destruct (String.eqb name k) eqn:E.
    + eapply Hh; [|exact Hlook]. intros x Hin. apply Hsrc. exact Hin.
    + apply IHos; assumption.
  - (* enum *)
    eapply choose_parent in Hx; [destruct Hx as (x & Hin & He); eapply from_parent; eauto | left; reflexivity].
  - (* optional *)
    apply orb_prop in Hx. destruct Hx as [Hx|Hx].
    { apply andb_prop in Hx. destruct Hx as [_ Hx]. apply pick_any_parent in Hx. destruct Hx as (x & Hin & He). eapply from_parent; eauto. }
    apply andb_prop in Hx. destruct Hx as [_ Hx]. destruct child; try discriminate.
    set (PS := x0 :: x1 :: rest) in *. clearbody PS.
    destruct (all_some _) as [pos|] eqn:Ea; [|discriminate].
    apply andb_prop in Hx. destruct Hx as [_ Hc]. cbn [conforms_g].
    destruct o as [cv|]; [|reflexivity].
    eapply IHs; [|exact Hc].
    intros w Hw. destruct (somes_in (fun o : option value => o) pos w) as (o & Ho & Hl).
    { rewrite map_id. exact Hw. }
    subst o. destruct (all_some_in _ _ _ _ Ea Ho) as (q & Hq & Hf).
    specialize (HF q Hq). destruct q; try discriminate. cbn [opt_get] in Hf. inversion Hf; subst. exact HF.
  - (* const *)
    destruct child; try discriminate. reflexivity.
Qed.

(** ** whole-tree provenance: every leaf of the offspring is the leaf at the same path of a parent *)
Fixpoint leaf_at (v : value) (p : path) {struct p} : option value :=
  match p with
  | [] => Some v
  | e :: q =>
      match e, v with
      | PName k, VSub m => match slookup k m with Some x => leaf_at x q | None => None end
      | PName k, VVariant n x => if String.eqb k n then leaf_at x q else None
      | PIdx i, VArray l => match nth_error l i with Some x => leaf_at x q | None => None end
      | PKey k, VAnonMap m => match nlookup k m with Some x => leaf_at x q | None => None end
      | POpt, VOptional (Some x) => leaf_at x q
      | _, _ => None
      end
  end.
Definition is_leaf_value (v : value) : bool :=
  match v with VReal _ | VInt _ | VBool _ | VEnum _ => true | _ => false end.

Lemma mem_s_In k l : mem_s k l = true <-> In k l.
Proof.
  unfold mem_s. rewrite existsb_exists. split.
  - intros [x [Hin He]]. apply String.eqb_eq in He. subst. exact Hin.
  - intros H. exists k. split; [exact H|apply String.eqb_refl].
Qed.
Lemma nodup_s_NoDup l : nodup_s l = true -> NoDup l.
Proof.
  induction l as [|a r IH]; intros H; [constructor|]. cbn in H. apply andb_prop in H. destruct H as [H1 H2].
  constructor; [|apply IH; exact H2]. intros Hin. apply mem_s_In in Hin. unfold mem_s in Hin. rewrite Hin in H1. discriminate.
Qed.
Lemma slookup_in_keys {A} k (m : list (string * A)) a : slookup k m = Some a -> In k (map fst m).
Proof.
  induction m as [|[k' a'] r IH]; cbn; [discriminate|]. destruct (String.eqb k k') eqn:E.
  - intros _. left. apply String.eqb_eq in E. auto.
  - intros H. right. apply IH. exact H.
Qed.
Lemma in_keys_entry {A} k (m : list (string * A)) : In k (map fst m) -> exists a, In (k, a) m.
Proof. intros H. apply in_map_iff in H. destruct H as ([k' a] & Hk & Hin). cbn in Hk. subst. exists a. exact Hin. Qed.

Lemma prov_parent (ps : list value) x child p lf :
  In x ps -> veqb x child = true -> leaf_at child p = Some lf -> exists y, In y ps /\ leaf_at y p = Some lf.
Proof. intros Hin He Hl. apply veqb_eq in He. rewrite <- He in Hl. exists x. auto. Qed.

Lemma nth_error_combine_seq {A} : forall (l : list A) s i c, nth_error l i = Some c -> In ((s + i)%nat, c) (combine (seq s (length l)) l).
Proof.
  induction l as [|a r IH]; intros s i c H; destruct i; cbn in H; try discriminate.
  - inversion H; subst. cbn. left. f_equal. lia.
  - cbn. right. replace (s + S i)%nat with (S s + i)%nat by lia. apply IH. exact H.
Qed.

Theorem crossover_provenance : forall cp pr s ps child p lf,
  wf s = true -> cross_check cp pr s ps child = true ->
  leaf_at child p = Some lf -> is_leaf_value lf = true ->
  exists x, In x ps /\ leaf_at x p = Some lf.
Proof.
  intros cp pr.
  induction s using spec_ind'; intros ps child p lf W Hx Hl Hv; cbn [cross_check] in Hx;
    try (destruct ps as [|x0 [|x1 rest]]; [discriminate | eapply prov_parent; [left; reflexivity|exact Hx|exact Hl] | ]);
    cbn [is_leaf] in Hx.
  - eapply choose_parent in Hx; [destruct Hx as (x & Hin & He); eapply prov_parent; eauto | left; reflexivity].
  - eapply choose_parent in Hx; [destruct Hx as (x & Hin & He); eapply prov_parent; eauto | left; reflexivity].
  - eapply choose_parent in Hx; [destruct Hx as (x & Hin & He); eapply prov_parent; eauto | left; reflexivity].
  - (* sub *)
    apply orb_prop in Hx. destruct Hx as [Hx|Hx].
    { apply andb_prop in Hx. destruct Hx as [_ Hx]. apply pick_any_parent in Hx. destruct Hx as (x & Hin & He). eapply prov_parent; eauto. }
    apply andb_prop in Hx. destruct Hx as [_ Hx]. destruct child; try discriminate.
    apply andb_prop in Hx. destruct Hx as [Hx Hgo]. apply andb_prop in Hx. destruct Hx as [Hlen Hnd].
    set (PS := x0 :: x1 :: rest) in *. clearbody PS.
    cbn [wf] in W. apply andb_prop in W. destruct W as [W W3]. apply andb_prop in W. destruct W as [_ W2].
    rewrite Forall_forall in H. rewrite forallb_forall in W3.
    assert (Gen : forall l,
               (fix go (l : list (string * spec)) : bool :=
                  match l with
                  | [] => true
                  | (k, cs) :: r =>
                      match all_some (map (fun v => match v with VSub m => slookup k m | _ => None end) PS), slookup k m with
                      | Some cvs, Some cv => cross_check cp pr cs cvs cv && go r
                      | _, _ => false
                      end
                  end) l = true ->
               forall k cs, In (k, cs) l ->
                 exists cvs cv, all_some (map (fun v => match v with VSub m => slookup k m | _ => None end) PS) = Some cvs /\
                                slookup k m = Some cv /\ cross_check cp pr cs cvs cv = true).
    { induction l as [|[k0 cs0] r IHr]; intros Hg k cs Hin; [destruct Hin|].
      destruct (all_some _) as [cvs|] eqn:Ea; [|discriminate]. destruct (slookup k0 m) as [cv|] eqn:Ec; [|discriminate].
      apply andb_prop in Hg. destruct Hg as [Hc Hg]. destruct Hin as [Heq|Hin].
      - inversion Heq; subst. exists cvs, cv. auto.
      - apply IHr; assumption. }
    specialize (Gen ms Hgo).
    destruct p as [|e q]; [cbn in Hl; inversion Hl; subst; discriminate|].
    destruct e; cbn [leaf_at] in Hl; try discriminate.
    destruct (slookup s m) as [cv|] eqn:Ecv; [|discriminate].
    (* the child's keys are exactly the declared members *)
    assert (Hk : In s (map fst ms)).
    { apply (NoDup_length_incl (l := map fst ms) (l' := map fst m) (nodup_s_NoDup _ W2)).
      - rewrite !map_length. apply Nat.eqb_eq in Hlen. lia.
      - intros k Hk. apply in_keys_entry in Hk. destruct Hk as [cs Hk].
        destruct (Gen k cs Hk) as (cvs & cv' & _ & Hs & _). eapply slookup_in_keys; eauto.
      - eapply slookup_in_keys; eauto. }
    apply in_keys_entry in Hk. destruct Hk as [cs Hk].
    destruct (Gen s cs Hk) as (cvs & cv' & Ea & Hs & Hc). rewrite Ecv in Hs. inversion Hs; subst cv'.
    destruct (H (s, cs) Hk cvs cv q lf (W3 (s, cs) Hk) Hc Hl Hv) as (x & Hin & Hlx).
    destruct (all_some_in _ _ _ _ Ea Hin) as (par & Hpar & Hf).
    exists par. split; [exact Hpar|]. destruct par; try discriminate. cbn [leaf_at]. rewrite Hf. exact Hlx.
  - (* array *)
    apply orb_prop in Hx. destruct Hx as [Hx|Hx].
    { apply andb_prop in Hx. destruct Hx as [_ Hx]. apply pick_any_parent in Hx. destruct Hx as (x & Hin & He). eapply prov_parent; eauto. }
    apply andb_prop in Hx. destruct Hx as [_ Hx]. destruct child; try discriminate.
    apply andb_prop in Hx. destruct Hx as [_ Hall].
    set (PS := x0 :: x1 :: rest) in *. clearbody PS.
    cbn [wf] in W. apply andb_prop in W. destruct W as [_ W].
    destruct p as [|e q]; [cbn in Hl; inversion Hl; subst; discriminate|].
    destruct e; cbn [leaf_at] in Hl; try discriminate.
    destruct (nth_error l n0) as [c|] eqn:En; [|discriminate].
    pose proof (nth_error_combine_seq l 0%nat n0 c En) as Hi. cbn [Nat.add] in Hi.
    rewrite forallb_forall in Hall. specialize (Hall _ Hi). cbn [fst snd] in Hall.
    destruct (all_some _) as [cvs|] eqn:Ea; [|discriminate].
    destruct (IHs cvs c q lf W Hall Hl Hv) as (x & Hin & Hlx).
    destruct (all_some_in _ _ _ _ Ea Hin) as (par & Hpar & Hf).
    exists par. split; [exact Hpar|]. destruct par; try discriminate. cbn [leaf_at]. rewrite Hf. exact Hlx.
  - (* anon map *)
    apply orb_prop in Hx. destruct Hx as [Hx|Hx].
    { apply andb_prop in Hx. destruct Hx as [_ Hx]. apply pick_any_parent in Hx. destruct Hx as (x & Hin & He). eapply prov_parent; eauto. }
    apply andb_prop in Hx. destruct Hx as [_ Hx]. destruct child; try discriminate.
    set (PS := x0 :: x1 :: rest) in *. clearbody PS.
    destruct (all_some _) as [pms|] eqn:Ea; [|discriminate].
    apply andb_prop in Hx. destruct Hx as [_ Hch].
    cbn [wf] in W. apply andb_prop in W. destruct W as [W _]. apply andb_prop in W. destruct W as [W _].
    apply andb_prop in W. destruct W as [W _].
    destruct p as [|e q]; [cbn in Hl; inversion Hl; subst; discriminate|].
    destruct e; cbn [leaf_at] in Hl; try discriminate.
    destruct (nlookup k m) as [c|] eqn:En; [|discriminate].
    apply nlookup_In in En. rewrite forallb_forall in Hch. specialize (Hch _ En). cbn [fst snd] in Hch.
    destruct (IHs _ c q lf W Hch Hl Hv) as (x & Hin & Hlx).
    destruct (somes_in _ _ _ Hin) as (pm & Hpm & Hlk).
    destruct (all_some_in _ _ _ _ Ea Hpm) as (par & Hpar & Hf).
    exists par. split; [exact Hpar|]. destruct par; try discriminate. inversion Hf; subst. cbn [leaf_at]. rewrite Hlk. exact Hlx.
  - (* variant *)
    apply orb_prop in Hx. destruct Hx as [Hx|Hx].
    { apply andb_prop in Hx. destruct Hx as [_ Hx]. apply pick_any_parent in Hx. destruct Hx as (x & Hin & He). eapply prov_parent; eauto. }
    apply andb_prop in Hx. destruct Hx as [_ Hx]. destruct child; try discriminate.
    set (PS := x0 :: x1 :: rest) in *. clearbody PS.
    destruct (all_some _) as [nps|] eqn:Ea; [|discriminate].
    apply andb_prop in Hx. destruct Hx as [_ Hlook].
    cbn [wf] in W. apply andb_prop in W. destruct W as [_ W].
    destruct p as [|e q]; [cbn in Hl; inversion Hl; subst; discriminate|].
    destruct e; cbn [leaf_at] in Hl; try discriminate.
    destruct (String.eqb s name) eqn:Es; [|discriminate]. apply String.eqb_eq in Es. subst s.
    assert (G : exists x, In x (map snd (filter (fun nx : string * value => String.eqb (fst nx) name) nps)) /\ leaf_at x q = Some lf).
    { revert H W Hlook. clear -Hl Hv. induction os as [|[k cs] os IHos]; intros HFo W Hlook; [discriminate|].
      inversion HFo as [|? ? Hh Ht]; subst. cbn [snd] in Hh. cbn [forallb snd] in W. apply andb_prop in W. destruct W as [W1 W2].
      destruct (String.eqb name k) eqn:E.
      - eapply Hh; eauto.
      - apply IHos; assumption. }
    destruct G as (x & Hin & Hlx). apply in_map_iff in Hin. destruct Hin as ([n y] & Hy & Hin). cbn [snd] in Hy. subst y.
    apply filter_In in Hin. destruct Hin as [Hin Hn]. cbn [fst] in Hn. apply String.eqb_eq in Hn. subst n.
    destruct (all_some_in _ _ _ _ Ea Hin) as (par & Hpar & Hf).
    exists par. split; [exact Hpar|]. destruct par; try discriminate. inversion Hf; subst. cbn [leaf_at]. rewrite String.eqb_refl. exact Hlx.
  - (* enum *)
    eapply choose_parent in Hx; [destruct Hx as (x & Hin & He); eapply prov_parent; eauto | left; reflexivity].
  - (* optional *)
    apply orb_prop in Hx. destruct Hx as [Hx|Hx].
    { apply andb_prop in Hx. destruct Hx as [_ Hx]. apply pick_any_parent in Hx. destruct Hx as (x & Hin & He). eapply prov_parent; eauto. }
    apply andb_prop in Hx. destruct Hx as [_ Hx]. destruct child; try discriminate.
    set (PS := x0 :: x1 :: rest) in *. clearbody PS.
    destruct (all_some _) as [pos|] eqn:Ea; [|discriminate].
    apply andb_prop in Hx. destruct Hx as [_ Hc]. cbn [wf] in W.
    destruct p as [|e q]; [cbn in Hl; inversion Hl; subst; discriminate|].
    destruct e; cbn [leaf_at] in Hl; try discriminate.
    destruct o as [cv|]; [|discriminate].
    destruct (IHs _ cv q lf W Hc Hl Hv) as (x & Hin & Hlx).
    destruct (somes_in (fun o : option value => o) pos x) as (o & Ho & Hlk).
    { rewrite map_id. exact Hin. }
    subst o. destruct (all_some_in _ _ _ _ Ea Ho) as (par & Hpar & Hf).
    exists par. split; [exact Hpar|]. destruct par; try discriminate. cbn [opt_get] in Hf. inversion Hf; subst. cbn [leaf_at]. exact Hlx.
  - (* const *)
    destruct child; try discriminate. destruct p as [|e q]; [cbn in Hl; inversion Hl; subst; discriminate|].
    destruct e; cbn [leaf_at] in Hl; discriminate.
Qed.

(** ** crossover probability 1: with two or more parents a sub is assembled member by member (the
    offspring is never a whole copy chosen at the sub's level) *)
Lemma cp1_sub_memberwise pr ms x0 x1 rest child :
  cross_check fone pr (SSub ms) (x0 :: x1 :: rest) child = true ->
  exists cm, child = VSub cm /\
    forall k cs, In (k, cs) ms ->
      exists cvs cv,
        all_some (map (fun v => match v with VSub m => slookup k m | _ => None end) (x0 :: x1 :: rest)) = Some cvs /\
        slookup k cm = Some cv /\ cross_check fone pr cs cvs cv = true.
Proof.
  cbn [cross_check is_leaf]. rewrite can_false_one, can_true_one. cbn [andb orb].
  destruct child; try discriminate. intros H. exists m. split; [reflexivity|].
  apply andb_prop in H. destruct H as [_ Hgo].
  set (PS := x0 :: x1 :: rest) in *. clearbody PS.
  revert Hgo. induction ms as [|[k0 cs0] r IHr]; intros Hgo k cs Hin; [destruct Hin|].
  destruct (all_some _) as [cvs|] eqn:Ea; [|discriminate]. destruct (slookup k0 m) as [cv|] eqn:Ec; [|discriminate].
  apply andb_prop in Hgo. destruct Hgo as [Hc Hgo]. destruct Hin as [Heq|Hin].
  - inversion Heq; subst. exists cvs, cv. auto.
  - apply IHr; assumption.
Qed.
