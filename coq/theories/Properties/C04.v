(** * C04  Target reached or termination requested: nothing new starts, best is returned. *)
From Coq Require Import List Arith NArith ZArith Bool Lia.
From Cambrian Require Import SourceFacts Ctl CtlProofs CtlStruct CtlStop CtlMin.
Import ListNotations.

(** the abort branch of the controller's select loop is disabled once it has been taken
    (regenerated from src/controller.rs on every run) *)
Example abort_branch_is_guarded : abort_branch_guarded = true.
Proof. reflexivity. Qed.

(** Once the abort flag is set — the turn in which a terminate request (command, time limit,
    interrupt all arrive as the same command) was taken up, or a failure was processed — no
    evaluation is created any more, the in-flight set only shrinks, and this stays so until the
    run returns; when the in-flight set is empty the run returns what [finish] says. *)
Theorem no_start_after_stop :
  forall (V M T : Type) (tcmp : T -> T -> comparison) (mean : list T -> T) (hit : T -> bool)
         (max_pop min_reeval ss : nat) (budget : option N) (init_val : V) (os : N -> orc V M)
         (ls : list (label T)) (c : ctl V M T),
    c_aborted c = true ->
    match exec tcmp mean hit max_pop min_reeval ss budget init_val os c ls with
    | Cont c' | Ret c' _ =>
        c_aborted c' = true /\ c_started c' = c_started c /\ c_pushed c' = c_pushed c /\
        length (c_infl c') <= length (c_infl c)
    | _ => True
    end.
Proof. intros. apply no_start_after_abort. assumption. Qed.
Print Assumptions no_start_after_stop.

Theorem drained_run_returns :
  forall (V M T : Type) (tcmp : T -> T -> comparison) (mean : list T -> T) (hit : T -> bool)
         (max_pop min_reeval ss : nat) (budget : option N) (init_val : V) (os : N -> orc V M)
         (c : ctl V M T),
    c_infl c = [] ->
    step tcmp mean hit max_pop min_reeval ss budget init_val os c LEmpty = Ret c (finish c).
Proof. intros. cbn. rewrite H. reflexivity. Qed.
Print Assumptions drained_run_returns.

(** A running controller never sits on a best-seen that meets the target: the turn that
    processes such a result returns.  And a run that returns with its best-seen meeting the
    target returns that best-seen (objective <= target) or the failure recorded earlier. *)
Theorem target_stops_the_run :
  forall (V M T : Type) (tcmp : T -> T -> comparison) (mean : list T -> T) (hit : T -> bool)
         (max_pop min_reeval ss : nat) (nc : N) (budget : option N) (init_val : V) (os : N -> orc V M)
         (ls : list (label T)),
    match exec tcmp mean hit max_pop min_reeval ss budget init_val os
               (init T min_reeval ss nc budget init_val os) ls with
    | Cont c => hit_now hit c = false
    | Ret c r => hit_now hit c = true -> c_failed c = 0%N ->
                 match r with ROk x _ _ _ => hit x = true | RErr e => c_err c = Some e end
    | _ => True
    end.
Proof.
  intros.
  pose proof (running_not_hit V M T tcmp mean hit max_pop min_reeval ss nc budget init_val os ls) as H1.
  destruct (exec _ _ _ _ _ _ _ _ _ _ ls) as [c|c r| |] eqn:E; try exact I; [exact H1|].
  intros Hh Hf. eapply target_return; eauto.
Qed.
Print Assumptions target_stops_the_run.

(** Results that arrive while draining still count: with sample size 1 the report of a run that
    was terminated is the minimum over everything accepted, before or after the request
    ([best_is_min_ss1] of C02 holds for every label sequence, in particular those containing
    [LAbort]); restated here for a run whose label sequence contains an abort turn. *)
Theorem terminated_run_reports_best_ss1 :
  forall (V M T : Type) (tcmp : T -> T -> comparison) (mean : list T -> T) (hit : T -> bool)
         (nc : N) (budget : option N) (init_val : V) (os : N -> orc V M),
    (forall a b : T, tcmp b a = CompOpp (tcmp a b)) ->
    (forall a b c : T, tcmp a b <> Gt -> tcmp b c <> Gt -> tcmp a c <> Gt) ->
    (forall x : T, tcmp (mean [x]) x = Eq) ->
    forall (ls1 ls2 : list (label T)) (c : ctl V M T) (r : result V T),
      exec tcmp mean hit max_pop_size min_pop_size_for_reeval 1 budget init_val os
           (init T min_pop_size_for_reeval 1 nc budget init_val os) (ls1 ++ LAbort :: ls2) = Ret c r ->
      c_err c = None -> c_failed c = 0%N ->
      (forall it y, In it (c_items c) -> it_res it = Some y ->
         exists x v a b, r = ROk x v a b /\ tcmp x y <> Gt).
Proof.
  intros V M T tcmp mean hit nc budget init_val os H1 H2 H3 ls1 ls2 c r He Herr Hf it y Hin Hy.
  assert (Hmp : 1 <= max_pop_size) by (vm_compute; repeat constructor).
  destruct (accepted_implies_report_ss1_lemma V M T tcmp mean hit max_pop_size min_pop_size_for_reeval 1 nc budget init_val os
              (le_n 1) H1 H2 H3 Hmp eq_refl _ c r it y He Hin Hy Herr Hf) as (x & v & a & b & Er).
  exists x, v, a, b. split; [exact Er|]. subst r.
  eapply (best_is_min_ss1_lemma V M T tcmp mean hit max_pop_size min_pop_size_for_reeval 1 nc budget init_val os); eauto.
Qed.
Print Assumptions terminated_run_reports_best_ss1.

Definition ex_os : N -> orc nat unit := fun s => mkOrc false (N.to_nat s) tt.
Example terminate_nonvacuous :
  match exec Z.compare (fun l => hd 0%Z l) (fun _ => false) 100 20 1 None 7 ex_os
             (init Z 20 1 3%N None 7 ex_os)
             ([LDone 1%N (OVal 5%Z) true] ++ LAbort :: [LDone 0%N (OVal 2%Z) true; LDone 3%N OReject true; LDone 2%N (OVal 9%Z) true; LEmpty])
  with Ret c r => r = ROk 2%Z 7 3%N 1%N /\ length (c_started c) = 4 | _ => False end.
Proof. vm_compute. repeat split. Qed.

(** ** liveness of a poll.  One poll of the controller future runs turns of the select loop until
    both branches are pending ([Poll.poll]); the guard of the abort branch is the regenerated
    source fact.  For every state, every queue of completions, every random choice of [select!]
    and whether or not the abort signal was sent: the poll returns (pending or ready) within
    [length ready + 2] loop iterations — it cannot spin. *)
From Cambrian Require Import Poll.
Theorem every_poll_returns :
  forall (V M T : Type) (tcmp : T -> T -> comparison) (mean : list T -> T) (hit : T -> bool)
         (max_pop min_reeval ss : nat) (budget : option N) (init_val : V) (os : N -> orc V M)
         (ready : list (N * outcome T * bool)) (pick : nat -> bool) (sent : bool) (c : ctl V M T),
    poll V M T tcmp mean hit max_pop min_reeval ss budget init_val os abort_branch_guarded
         (S (S (length ready))) pick sent c ready <> PSpin V M T.
Proof.
  intros. apply poll_returns; [reflexivity|].
  match goal with |- context [if ?b then _ else _] => destruct b end; lia.
Qed.
Print Assumptions every_poll_returns.

(** the same loop without the guard: once the signal was sent and while something is in flight
    that does not complete, no amount of iterations ends the poll (the defect that was repaired) *)
Theorem unguarded_poll_spins_refuted :
  forall (V M T : Type) (tcmp : T -> T -> comparison) (mean : list T -> T) (hit : T -> bool)
         (max_pop min_reeval ss : nat) (budget : option N) (init_val : V) (os : N -> orc V M)
         (fuel : nat) (pick : nat -> bool) (c : ctl V M T),
    c_infl c <> [] ->
    poll V M T tcmp mean hit max_pop min_reeval ss budget init_val os false fuel pick true c [] = PSpin V M T.
Proof. intros. apply poll_spins_without_guard; [reflexivity|assumption]. Qed.
Print Assumptions unguarded_poll_spins_refuted.

Example poll_nonvacuous :
  match poll nat unit Z Z.compare (fun l => hd 0%Z l) (fun _ => false) 100 20 1 None 7 ex_os true 5 (fun _ => true) true
             (init Z 20 1 3%N None 7 ex_os) [(1%N, OVal 5%Z, true); (0%N, OVal 2%Z, true)] with
  | PPending _ _ _ c => c_aborted c = true /\ length (c_infl c) = 1 /\ length (c_items c) = 2
  | _ => False
  end.
Proof. vm_compute. repeat split. Qed.

(** ** the launch loop around the controller ([async_launch::launch], Launch.v): commands and the
    controller future are selected at random; a [Terminate] fires the abort signal the first
    time and is a no-op afterwards; the poll of [launch] returns after at most one iteration per
    queued command plus one — whatever is queued, whatever [select!] picks. *)
From Cambrian Require Import Launch.
Theorem launch_poll_returns :
  forall (V M T : Type) (tcmp : T -> T -> comparison) (mean : list T -> T) (hit : T -> bool)
         (max_pop min_reeval ss : nat) (budget : option N) (init_val : V) (os : N -> orc V M)
         (cmds : list cmd) (pick cpick : nat -> bool) (sent closed : bool) (c : ctl V M T)
         (ready : list (N * outcome T * bool)),
    lpoll V M T tcmp mean hit max_pop min_reeval ss budget init_val os abort_branch_guarded
          (S (length cmds)) pick (S (S (length ready))) cpick sent c cmds closed ready
    <> LSpin V M T.
Proof.
  intros. apply lpoll_returns; [|lia].
  intros s c0 r0 [->| ->].
  - apply every_poll_returns.
  - apply poll_returns; [reflexivity|]. cbn [length].
    match goal with |- context [if ?b then _ else _] => destruct b end; lia.
Qed.
Print Assumptions launch_poll_returns.

Theorem second_terminate_changes_nothing :
  forall (V M T : Type) (tcmp : T -> T -> comparison) (mean : list T -> T) (hit : T -> bool)
         (max_pop min_reeval ss : nat) (budget : option N) (init_val : V) (os : N -> orc V M) (g : bool)
         (f : nat) (pick cpick : nat -> bool) (cfuel : nat) (sent closed : bool) (c : ctl V M T)
         (r : list cmd) (ready : list (N * outcome T * bool)),
    pick f = true ->
    lpoll V M T tcmp mean hit max_pop min_reeval ss budget init_val os g (S f) pick cfuel cpick sent c (CTerminate :: r) closed ready
    = lpoll V M T tcmp mean hit max_pop min_reeval ss budget init_val os g f pick cfuel cpick true c r closed ready.
Proof. intros. apply terminate_is_idempotent. assumption. Qed.
Print Assumptions second_terminate_changes_nothing.
