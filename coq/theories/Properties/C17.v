(** * C17  The search is directed (provable part): selection never prefers a worse rank when the
    pressure is 1, every selection stays in range, and mutation with probability 1 changes every
    discrete parameter.  The benchmark battery and "within a few attempts" are tests
    (tested_not_proved in the evidence). *)
From Coq Require Import String.
From Coq Require Import List ZArith NArith Bool.
From Cambrian Require Import Base.F64 SourceFacts Syntax Ops OpsProofs.
Import ListNotations.

Theorem p1_changes_discrete :
  forall ms p c c',
    (forall i b b', mut_check fone ms (SBool i) p c (VBool b) (VBool b') = Some c' -> b' = negb b) /\
    (forall vs i a b, mut_check fone ms (SEnum vs i) p c (VEnum a) (VEnum b) = Some c' -> b <> a /\ mem_s b vs = true) /\
    (forall vt isz mn mx m m', mut_check fone ms (SAnonMap vt isz mn mx) p c (VAnonMap m) (VAnonMap m') = Some c' ->
        (exists k, added m m' = [k] /\ removed m m' = []) \/ (exists k, added m m' = [] /\ removed m m' = [k])).
Proof.
  intros. split; [|split]; intros.
  - eapply p1_bool; eauto.
  - eapply p1_enum; eauto.
  - eapply p1_resizes; eauto.
Qed.
Print Assumptions p1_changes_discrete.

Theorem selection_in_range_and_greedy_at_one :
  forall pr n i, sel_ok pr n i = true -> (i < n)%nat /\ (pr = fone -> i = 0%nat).
Proof.
  intros. split; [eapply sel_ok_in_range; eauto|]. intros ->. eapply sel_ok_pressure_one; eauto.
Qed.
Print Assumptions selection_in_range_and_greedy_at_one.

Example flip_is_accepted : mut_check fone fone (SBool true) [] [] (VBool true) (VBool false) = Some [].
Proof. vm_compute. reflexivity. Qed.
