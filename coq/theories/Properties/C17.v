(** * C17  The search is directed (provable part): selection favours better ranks — the
    probability of picking rank i never increases with i, for every pressure in [0,1] and every
    list length (distribution model [Selection.sel_dist] of [select_ref]'s loop); mutation with
    probability 1 changes every discrete parameter.  The benchmark battery and "within a few
    attempts" are tests (tested_not_proved in the evidence). *)
From Coq Require Import String.
From Coq Require Import List ZArith NArith Bool QArith.
From Cambrian Require Import Base.F64 SourceFacts Syntax Ops OpsProofs MutProofs CrossProofs Selection.
Import ListNotations.

(** [select_ref] is the loop [Selection.walk] models (regenerated from the source) *)
Example select_ref_shape : select_ref_is_bernoulli_walk_then_uniform = true.  Proof. reflexivity. Qed.

(** the selection distribution over ranks 0..n-1 at pressure p: a probability distribution ... *)
Theorem selection_is_a_distribution :
  forall p n, (1 <= n)%nat -> (0 <= p)%Q -> (p <= 1)%Q ->
    length (sel_dist p n) = n /\ (qsum (sel_dist p n) == 1)%Q /\
    (forall i, (i < n)%nat -> (0 <= nth i (sel_dist p n) 0)%Q).
Proof.
  intros p n Hn H0 H1. split; [apply sel_dist_length|]. split; [apply sel_dist_sums_to_one; exact Hn|].
  intros i Hi. apply sel_dist_nonneg; assumption.
Qed.
Print Assumptions selection_is_a_distribution.

(** ... in which a worse rank is never more likely than a better one, and strictly less likely
    when the pressure is strictly between 0 and 1 *)
Theorem selection_favours_better_ranks :
  forall p n i j, (0 <= p)%Q -> (p <= 1)%Q -> (i <= j)%nat -> (j < n)%nat ->
    (nth j (sel_dist p n) 0 <= nth i (sel_dist p n) 0)%Q.
Proof. exact sel_dist_monotone. Qed.
Print Assumptions selection_favours_better_ranks.

Theorem selection_strictly_favours_better_ranks :
  forall p n i j, (0 < p)%Q -> (p < 1)%Q -> (i < j)%nat -> (j < n)%nat ->
    (nth j (sel_dist p n) 0 < nth i (sel_dist p n) 0)%Q.
Proof. exact sel_dist_strict. Qed.
Print Assumptions selection_strictly_favours_better_ranks.

Theorem selection_at_the_end_points :
  forall n, (1 <= n)%nat ->
    (nth 0 (sel_dist 1 n) 0 == 1)%Q /\ (forall i, (i < n)%nat -> (nth i (sel_dist 0 n) 0 == 1 / nq n)%Q).
Proof. intros n Hn. split; [apply sel_dist_pressure_one; exact Hn | intros i Hi; apply sel_dist_pressure_zero; exact Hi]. Qed.
Print Assumptions selection_at_the_end_points.

Example sel_dist_half_two : map Qred (sel_dist (1#2) 2) = [5#8; 3#8]%Q.
Proof. vm_compute. reflexivity. Qed.

Theorem p1_changes_discrete :
  forall ms p c c',
    (forall i b b', mut_check fone ms (SBool i) p c (VBool b) (VBool b') = Some c' -> b' = negb b) /\
    (forall vs i a b, mut_check fone ms (SEnum vs i) p c (VEnum a) (VEnum b) = Some c' -> b <> a /\ mem_s b vs = true) /\
    (forall vt isz mn mx m m', mut_check fone ms (SAnonMap vt isz mn mx) p c (VAnonMap m) (VAnonMap m') = Some c' ->
        (exists k, added m m' = [k] /\ removed m m' = []) \/ (exists k, added m m' = [] /\ removed m m' = [k])) /\
    (forall os i n x n' y, mut_check fone ms (SVariant os i) p c (VVariant n x) (VVariant n' y) = Some c' -> n' <> n) /\
    (forall vt b o o', mut_check fone ms (SOptional vt b) p c (VOptional o) (VOptional o') = Some c' ->
        (o = None /\ o' <> None) \/ (o <> None /\ o' = None)).
Proof.
  intros. split; [|split; [|split; [|split]]]; intros.
  - eapply p1_bool; eauto.
  - eapply p1_enum; eauto.
  - eapply p1_resizes; eauto.
  - eapply p1_variant; eauto.
  - eapply p1_optional; eauto.
Qed.
Print Assumptions p1_changes_discrete.

Theorem selection_in_range_and_greedy_at_one :
  forall pr n i, sel_ok pr n i = true -> (i < n)%nat /\ (pr = fone -> i = 0%nat).
Proof.
  intros. split; [eapply sel_ok_in_range; eauto|]. intros ->. eapply sel_ok_pressure_one; eauto.
Qed.
Print Assumptions selection_in_range_and_greedy_at_one.

(** recombination at crossover probability 1: with two or more parents a sub is assembled member by
    member (never copied whole from one parent at that level), each member recombined from the
    parents' members of that name; a mixed offspring of differing parents is accepted (C12's
    example [mixing_is_accepted]) *)
Theorem crossover_p1_recombines_memberwise :
  forall pr ms x0 x1 rest child,
    cross_check fone pr (SSub ms) (x0 :: x1 :: rest) child = true ->
    exists cm, child = VSub cm /\
      forall k cs, In (k, cs) ms ->
        exists cvs cv,
          all_some (map (fun v => match v with VSub m => slookup k m | _ => None end) (x0 :: x1 :: rest)) = Some cvs /\
          slookup k cm = Some cv /\ cross_check fone pr cs cvs cv = true.
Proof. exact cp1_sub_memberwise. Qed.
Print Assumptions crossover_p1_recombines_memberwise.

Example flip_is_accepted : mut_check fone fone (SBool true) [] [] (VBool true) (VBool false) = Some [].
Proof. vm_compute. reflexivity. Qed.

(** ** adaptation.  The battery's badly scaled and far-away problems are solved only because the
    mutation scale adapts: [meta_adapt::mutate] rescales every field from its own previous value
    (shape regenerated from the source; the real function is compared with [MetaAdapt.meta_mutate]
    by the meta stream) *)
Example adaptation_shape :
  rescale_is_clamped_product = true /\ meta_mutate_rescales_each_field = true /\ exploratory_is_mutated_base = true.
Proof. repeat split; reflexivity. Qed.
