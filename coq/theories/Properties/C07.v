(** * C07  No objective-function process outlives the run; timeouts kill the whole group.
    Model: the life cycle of one evaluation's process group ([Cli.pstep]); what the kernel does on
    killpg/waitpid, PID reuse and the reaping of zombies are outside the model (tested by the
    CLI stream with a /proc scan after the run). *)
From Coq Require Import String.
From Coq Require Import List ZArith NArith Bool.
From Cambrian Require Import SourceFacts Cli CliProofs.
Import ListNotations.

(** regenerated from src/process.rs: a guard whose Drop kills the group is created after the spawn;
    it kills with SIGKILL (a member may ignore SIGTERM) and nothing can disarm it: only such a
    guard is the [guard = true] of the model; [evaluate] selects over the child's result, the kill
    timeout and the abort signal *)
Example group_guard_present : process_group_guard_present = true.
Proof. reflexivity. Qed.
Example group_guard_effective : guard_kills_with_sigkill && guard_never_disarmed = true.
Proof. reflexivity. Qed.
Example evaluate_select_shape : evaluate_selects_result_timeout_abort = true.
Proof. reflexivity. Qed.

(** Whatever the group does (members fork and exit, the leader exits, the timer fires, the abort
    arrives, the controller drops the future because the run returns): once the evaluation is over
    - it returned or was dropped - no member of its group is alive.  Every evaluation of a run is
    over when the run returns (its future has completed or is dropped with the controller). *)
Theorem no_survivors :
  forall (g : pgroup) (ls : list plabel),
    terminal (pexec process_group_guard_present (PRunning g) ls) = true ->
    group_empty (group_of (pexec process_group_guard_present (PRunning g) ls)) = true.
Proof. intros g ls. rewrite group_guard_present. apply guarded_terminal_empty. Qed.
Print Assumptions no_survivors.

(** the statement is false of the code before the repair (kept as documentation of what the guard is for) *)
Theorem no_survivors_without_guard_refuted :
  (exists ls, terminal (pexec false (PRunning (mkPg true 0)) ls) = true /\
              group_empty (group_of (pexec false (PRunning (mkPg true 0)) ls)) = false).
Proof. exists [LDrop]. split; reflexivity. Qed.

Theorem timeout_kills_group_and_rejects :
  forall guard g, pstep guard (PRunning g) LTimer = PDone (mkPg false 0) true true /\
                  pstep guard (PRunning g) LAbort = PDone (mkPg false 0) true true.
Proof. exact timer_kills_and_rejects. Qed.
Print Assumptions timeout_kills_group_and_rejects.

Theorem finished_in_time_not_killed :
  forall guard g ls, exists g', pexec guard (PRunning g) (LLeaderExits :: ls) = PDone g' false false.
Proof. exact in_time_not_killed. Qed.
Print Assumptions finished_in_time_not_killed.

Example grandchild_tree_cleaned :
  pexec true (PRunning (mkPg true 0)) [LFork; LFork; LMemberExits; LLeaderExits] = PDone (mkPg false 0) false false.
Proof. reflexivity. Qed.

(** whichever of the two waiters reaps the killed leader, the evaluation over its limit (or
    aborted) is rejected -- it never turns into a failure of the run *)
Example reap_shape : reap_tolerates_echild = true.  Proof. reflexivity. Qed.
(** the timeout and abort arms kill with SIGKILL (a SIGTERM can be ignored): [LTimer]/[LAbort] empty the group at once *)
Example reap_signal : reap_kills_with_sigkill = true.  Proof. reflexivity. Qed.
Theorem killed_evaluation_is_rejected_whoever_reaps :
  forall r, reap_outcome reap_tolerates_echild r = ARejected.
Proof. intros []; reflexivity. Qed.
Print Assumptions killed_evaluation_is_rejected_whoever_reaps.
Example intolerant_reap_fails : reap_outcome false ReapedByCollector = AFailedToReap.
Proof. reflexivity. Qed.

(** the three arms of [evaluate]'s select, as [Cli.pstep] models them: the child's result as it is;
    at the per-evaluation limit and on the abort request the group is killed and reaped and the
    evaluation returns as rejected at once, whoever still holds the output pipes (shape
    regenerated from the source) *)
Example evaluate_arms_shape : evaluate_arms_kill_reap_return = true.  Proof. reflexivity. Qed.
