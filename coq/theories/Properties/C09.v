(** * C09  Runs are reproducible.
    The controller model is a function: given the configuration, the oracle stream (= what the
    RNG yields for each created evaluation) and the sequence of processed completions and
    abort turns (= labels), the whole run — every created evaluation (id, seed, value), every
    report item and the final result — is determined.  All nondeterminism is in the labels the
    property fixes and in the RNG.  That the real RNG is a pure function of the history
    (one StdRng seeded with a constant, no entropy, no time) and that no randomly-keyed
    std HashMap/HashSet is used are facts about the source text, regenerated on every run. *)
From Coq Require Import List NArith ZArith Bool.
From Cambrian Require Import SourceFacts Ctl CtlProofs.
Import ListNotations.

Example rng_is_seeded_with_a_constant : rng_single_fixed_seed = true.
Proof. reflexivity. Qed.
Example no_entropy_or_clock_source : rng_no_entropy_source = true.
Proof. reflexivity. Qed.
Example no_randomly_keyed_std_hash_collections : std_hashmap_unused = true.
Proof. reflexivity. Qed.

(** two runs whose RNG yields the same offspring and re-evaluation draws for every evaluation,
    with the same completions processed in the same order, are the same run *)
Theorem run_determinate :
  forall (V M T : Type) (tcmp : T -> T -> comparison) (mean : list T -> T) (hit : T -> bool)
         (max_pop min_reeval ss : nat) (nc : N) (budget : option N) (init_val : V)
         (os1 os2 : N -> orc V M) (ls : list (label T)),
    (forall s, os1 s = os2 s) ->
    exec tcmp mean hit max_pop min_reeval ss budget init_val os1 (init T min_reeval ss nc budget init_val os1) ls =
    exec tcmp mean hit max_pop min_reeval ss budget init_val os2 (init T min_reeval ss nc budget init_val os2) ls.
Proof. intros. apply run_ext. assumption. Qed.
Print Assumptions run_determinate.

Definition ex_os : N -> orc nat unit := fun s => mkOrc false (N.to_nat s) tt.
Example run_determinate_nonvacuous :
  match exec Z.compare (fun l => hd 0%Z l) (fun _ => false) 100 20 1 (Some 3%N) 7 ex_os (init Z 20 1 2%N (Some 3%N) 7 ex_os)
             [LDone 1%N (OVal 5%Z) true; LDone 0%N OReject true; LDone 2%N (OVal 4%Z) true]
  with Ret _ r => r = ROk 4%Z 2 2%N 1%N | _ => False end.
Proof. vm_compute. reflexivity. Qed.
