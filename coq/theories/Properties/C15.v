(** * C15  No objective-function behaviour crashes or hangs the optimizer.
    The conjunction of the "no panic" facts of the modelled code; "never hangs" is proved as
    progress of the controller after a stop (every processed completion shrinks the in-flight
    set, an empty set returns) under the property's own assumption that each evaluation ends. *)
From Coq Require Import String.
From Coq Require Import List Arith ZArith NArith Bool Reals.
From Flocq Require Import Core IEEE754.BinarySingleNaN.
From Cambrian Require Import Base.F64 Base.Mean SourceFacts Syntax Ops OpsProofs Ctl CtlProofs CtlStruct CtlStop Codec SpecBuild Cli CliProofs.
Import ListNotations.

(** regenerated from the source on every run *)
Example abort_branch_is_guarded : abort_branch_guarded = true.  Proof. reflexivity. Qed.
Example stderr_is_logged_lossily : stderr_logged_lossily = true.  Proof. reflexivity. Qed.
Example static_probabilities_valid :
  p_valid (of_bits meta_params_prob_exploratory_bits) = true /\ p_valid (of_bits meta_params_select_pressure_bits) = true /\
  p_valid (of_bits meta_params_prob_mutation_bits) = true /\ p_valid (of_bits prob_reeval_bits) = true.
Proof. repeat split; vm_compute; reflexivity. Qed.

(** the [unreachable!()]s of the algorithm core are never reached, for any outcomes and orders *)
Theorem controller_never_panics :
  forall (V M T : Type) (tcmp : T -> T -> comparison) (mean : list T -> T) (hit : T -> bool)
         (max_pop min_reeval ss : nat) (nc : N) (budget : option N) (init_val : V) (os : N -> orc V M),
    (1 <= ss)%nat ->
    forall (ls : list (label T)),
    exec tcmp mean hit max_pop min_reeval ss budget init_val os (init T min_reeval ss nc budget init_val os) ls <> Panic.
Proof.
  intros V M T tcmp mean hit max_pop min_reeval ss nc budget init_val os Hss ls.
  pose proof (InvS_reachable V M T tcmp mean hit max_pop min_reeval ss nc budget init_val os Hss) as HR.
  assert (G : forall ls c, InvS V M T ss init_val c ->
              exec tcmp mean hit max_pop min_reeval ss budget init_val os c ls <> Panic).
  { induction ls0 as [|l ls0 IH]; intros c Hc; cbn [exec]; [discriminate|].
    pose proof (no_panic V M T tcmp mean hit max_pop min_reeval ss budget init_val os c l Hc) as Hn.
    pose proof (InvS_step V M T tcmp mean hit max_pop min_reeval ss budget init_val os Hss c l Hc) as Hs.
    destruct (step _ _ _ _ _ _ _ _ _ c l) as [c'|c' r| |]; try discriminate; [apply IH; exact Hs | contradiction]. }
  apply G. specialize (HR []). exact HR.
Qed.
Print Assumptions controller_never_panics.

(** the sample mean of objective values within +-2^997 (which contains +-1e300) is computed from a
    finite sum for any sample size below 2^26: [FiniteF64::new(mean).unwrap()] has a finite sum *)
Theorem mean_sum_finite :
  forall l : list f64,
    (Z.of_nat (length l) < 2^26)%Z ->
    Forall (fun v => fin v = true /\ (Rabs (R_ v) <= bpow radix2 997)%R) l ->
    fin (fsum l fnzero) = true.
Proof. exact sum_of_bounded_values_finite. Qed.
Print Assumptions mean_sum_finite.

(** ... and the mean itself (the sum divided by the sample size as f64) is finite: the [unwrap]
    of [FiniteF64::new(mean)] in [summary_obj_func_val] cannot fail on such values *)
Theorem mean_finite :
  forall l : list f64,
    l <> [] -> (Z.of_nat (length l) < 2^26)%Z ->
    Forall (fun v => fin v = true /\ (Rabs (R_ v) <= bpow radix2 997)%R) l ->
    fin (fmean l) = true.
Proof. exact mean_of_bounded_values_finite. Qed.
Print Assumptions mean_finite.

(** after a stop the run makes progress with every processed completion and returns when the
    in-flight set is empty: it cannot spin or wait for anything but the evaluations in flight *)
Theorem stop_drains :
  forall (V M T : Type) (tcmp : T -> T -> comparison) (mean : list T -> T) (hit : T -> bool)
         (max_pop min_reeval ss : nat) (budget : option N) (init_val : V) (os : N -> orc V M)
         (ls : list (label T)) (c : ctl V M T),
    c_aborted c = true ->
    match exec tcmp mean hit max_pop min_reeval ss budget init_val os c ls with
    | Cont c' | Ret c' _ => c_started c' = c_started c /\ (length (c_infl c') <= length (c_infl c))%nat
    | _ => True
    end.
Proof.
  intros. pose proof (no_start_after_abort V M T tcmp mean hit max_pop min_reeval ss budget init_val os ls c H) as G.
  destruct (exec _ _ _ _ _ _ _ _ _ c ls); try exact I; destruct G as (_ & A & _ & B); auto.
Qed.
Print Assumptions stop_drains.

(** a probability outside [0,1] (or NaN) is the only way a Bernoulli draw can panic; the relation
    accepts no outcome for it, so every accepted operator step had valid probabilities *)
Theorem invalid_probability_has_no_outcome :
  forall p, p_valid p = false -> can_true p = false /\ can_false p = false.
Proof. exact invalid_prob_no_outcome. Qed.
Print Assumptions invalid_probability_has_no_outcome.

(** whatever a child writes and however it exits, its result is classified (accept / reject / failure) *)
Theorem child_output_total :
  forall exit_ok d, exists c, classify_child exit_ok d = c.
Proof. intros. eexists. reflexivity. Qed.
Print Assumptions child_output_total.

(** never hangs, poll level: one poll of the controller future takes finitely many turns of the
    select loop, whatever is queued and whatever [select!] picks (see C04 for the refutation of
    the unguarded loop) *)
From Cambrian Require Import Poll.
Theorem controller_poll_never_spins :
  forall (V M T : Type) (tcmp : T -> T -> comparison) (mean : list T -> T) (hit : T -> bool)
         (max_pop min_reeval ss : nat) (budget : option N) (init_val : V) (os : N -> orc V M)
         (ready : list (N * outcome T * bool)) (pick : nat -> bool) (sent : bool) (c : ctl V M T),
    poll V M T tcmp mean hit max_pop min_reeval ss budget init_val os abort_branch_guarded
         (S (S (length ready))) pick sent c ready <> PSpin V M T.
Proof.
  intros. apply poll_returns; [reflexivity|].
  match goal with |- context [if ?b then _ else _] => destruct b end; Lia.lia.
Qed.
Print Assumptions controller_poll_never_spins.

(** the three arms of [evaluate]'s select, as [Cli.pstep] models them: the child's result as it is;
    at the per-evaluation limit and on the abort request the group is killed and reaped and the
    evaluation returns as rejected at once, whoever still holds the output pipes (shape
    regenerated from the source) *)
Example evaluate_arms_shape : evaluate_arms_kill_reap_return = true.  Proof. reflexivity. Qed.
