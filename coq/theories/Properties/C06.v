(** * C06  An evaluation failure stops the run and is the reported error. *)
From Coq Require Import List Arith NArith ZArith Bool Lia.
From Cambrian Require Import SourceFacts Ctl CtlProofs CtlStruct CtlStop.
Import ListNotations.

(** From any reachable state in which no abort is in force: if the next turn processes a failed
    evaluation (error [e]; a non-finite value is the error [EMustBeFinite]), then whatever
    happens afterwards (further failures, results <= target, budget exhaustion, any order):
    - no further evaluation is ever created,
    - every later state records [e],
    - and if the run returns, it returns [Err e] — never a report, never another failure
      (the one exception is a report consumer that hung up, which is not an evaluation failure). *)
Theorem first_failure_wins :
  forall (V M T : Type) (tcmp : T -> T -> comparison) (mean : list T -> T) (hit : T -> bool)
         (max_pop min_reeval ss : nat) (nc : N) (budget : option N) (init_val : V) (os : N -> orc V M)
         (ls1 ls2 : list (label T)) (c c1 : ctl V M T) (seed : N) (e : err) (ok : bool),
    exec tcmp mean hit max_pop min_reeval ss budget init_val os
         (init T min_reeval ss nc budget init_val os) ls1 = Cont c ->
    c_aborted c = false ->
    step tcmp mean hit max_pop min_reeval ss budget init_val os c (LDone seed (OFail e) ok) = Cont c1 ->
    c_started c1 = c_started c /\
    match exec tcmp mean hit max_pop min_reeval ss budget init_val os c1 ls2 with
    | Cont c2 => c_err c2 = Some e /\ c_started c2 = c_started c /\ c_aborted c2 = true
    | Ret c2 r => (r = RErr e \/ (r = RErr EClientHungUp /\ (0 < c_failed c2)%N)) /\ c_started c2 = c_started c
    | _ => True
    end.
Proof.
  intros V M T tcmp mean hit max_pop min_reeval ss nc budget init_val os ls1 ls2 c c1 seed e ok He Ha Hs.
  destruct (failure_recorded V M T tcmp mean hit max_pop min_reeval ss budget init_val os c seed e ok c1 Ha Hs) as (E1 & E2 & E3).
  split; [exact E3|].
  assert (HA : ErrAb V M T c1).
  { pose proof (err_only_if_aborted V M T tcmp mean hit max_pop min_reeval ss nc budget init_val os ls1) as H0.
    rewrite He in H0.
    pose proof (ErrAb_step V M T tcmp mean hit max_pop min_reeval ss budget init_val os c (LDone seed (OFail e) ok) H0) as H1.
    rewrite Hs in H1. exact H1. }
  pose proof (first_failure_wins_lemma V M T tcmp mean hit max_pop min_reeval ss budget init_val os ls2 c1 e HA E1) as H2.
  pose proof (no_start_after_abort V M T tcmp mean hit max_pop min_reeval ss budget init_val os ls2 c1 E2) as H3.
  destruct (exec _ _ _ _ _ _ _ _ _ c1 ls2) as [c2|c2 r| |]; try exact I.
  - destruct H3 as (A & B & _). repeat split; auto. congruence.
  - destruct H3 as (A & B & _). split; [exact H2 | congruence].
Qed.
Print Assumptions first_failure_wins.

Definition ex_os : N -> orc nat unit := fun s => mkOrc false (N.to_nat s) tt.
Example first_failure_wins_nonvacuous :
  match exec Z.compare (fun l => hd 0%Z l) (fun x => Z.leb x 0) 100 20 1 None 7 ex_os
             (init Z 20 1 3%N None 7 ex_os)
             [LDone 1%N (OVal 5%Z) true; LDone 0%N (OFail (EObjFunc 7)) true;
              LDone 2%N (OFail (EObjFunc 8)) true; LDone 3%N (OVal (-1)%Z) true]
  with Ret c r => r = RErr (EObjFunc 7) /\ length (c_started c) = 4 | _ => False end.
Proof. vm_compute. repeat split. Qed.

(** the three arms of [evaluate]'s select, as [Cli.pstep] models them: the child's result as it is;
    at the per-evaluation limit and on the abort request the group is killed and reaped and the
    evaluation returns as rejected at once, whoever still holds the output pipes (shape
    regenerated from the source) *)
Example evaluate_arms_shape : evaluate_arms_kill_reap_return = true.  Proof. reflexivity. Qed.
