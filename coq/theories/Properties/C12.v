(** * C12  Recombination invents nothing (relation [cross_check], Ops.v). *)
From Coq Require Import String.
From Coq Require Import List ZArith NArith Bool.
From Cambrian Require Import Base.F64 SourceFacts Syntax Ops OpsProofs MutProofs CrossProofs.
Import ListNotations.

(** with a single parent the offspring is that parent *)
Theorem crossover_single_parent :
  forall cp pr s x child, s <> SConst -> cross_check cp pr s [x] child = true -> veqb x child = true.
Proof. intros. eapply crossover_single; eauto. Qed.
Print Assumptions crossover_single_parent.

Theorem crossover_const_is_const :
  forall cp pr ps child, cross_check cp pr SConst ps child = true -> child = VConst.
Proof. intros. eapply crossover_const; eauto. Qed.
Print Assumptions crossover_const_is_const.

(** a leaf of the offspring is one of the parents' leaves at that position *)
Theorem crossover_leaf_from_parent :
  forall cp pr s ps child,
    is_leaf s = true -> s <> SConst -> cross_check cp pr s ps child = true ->
    exists x, In x ps /\ veqb x child = true.
Proof.
  intros cp pr s ps child Hl Hs H.
  destruct ps as [|x0 [|x1 r]].
  - destruct s; cbn in H; try discriminate; congruence.
  - exists x0. split; [left; reflexivity|]. eapply crossover_single; eauto.
  - assert (G : (if forallb (leaf_same x0) (x0 :: x1 :: r) then veqb x0 child else pick_any pr (x0 :: x1 :: r) child) = true).
    { destruct s; cbn in Hl; try discriminate; cbn in H; try exact H; congruence. }
    destruct (forallb (leaf_same x0) (x0 :: x1 :: r)).
    + exists x0. split; [left; reflexivity | exact G].
    + unfold pick_any in G. apply existsb_exists in G. destruct G as [[i v] [Hin Hv]].
      apply andb_prop in Hv. destruct Hv as [_ Hv]. exists v. split; [|exact Hv].
      apply in_combine_r in Hin. exact Hin.
Qed.
Print Assumptions crossover_leaf_from_parent.

(** whole tree: every leaf (real, int, bool, enum) of the offspring, at any depth and under any
    path of member names / indices / map keys / variant options, is the leaf at the same path of
    one of the parents; in particular every map key and variant option of the offspring occurs in
    a parent *)
Theorem crossover_leaves_from_parents :
  forall cp pr s ps child p lf,
    wf s = true -> cross_check cp pr s ps child = true ->
    leaf_at child p = Some lf -> is_leaf_value lf = true ->
    exists x, In x ps /\ leaf_at x p = Some lf.
Proof. exact crossover_provenance. Qed.
Print Assumptions crossover_leaves_from_parents.

(** ... and the offspring of conforming parents conforms *)
Theorem crossover_offspring_conforms :
  forall fr cp pr s ps child,
    (forall p, In p ps -> conforms_g fr s p = true) -> cross_check cp pr s ps child = true ->
    conforms_g fr s child = true.
Proof. exact crossover_conforms. Qed.
Print Assumptions crossover_offspring_conforms.

Example leaf_at_example :
  leaf_at (VSub [("a"%string, VAnonMap [(3%N, VVariant "o"%string (VOptional (Some (VArray [VBool true; VBool false]))))])])
          [PName "a"%string; PKey 3%N; PName "o"%string; POpt; PIdx 1%nat] = Some (VBool false).
Proof. vm_compute. reflexivity. Qed.

Example mixing_is_accepted :
  cross_check fone (of_bits 0x3FE0000000000000) (SSub [("a"%string, SBool true); ("b"%string, SBool true)])
    [VSub [("a"%string, VBool true); ("b"%string, VBool true)]; VSub [("a"%string, VBool false); ("b"%string, VBool false)]]
    (VSub [("a"%string, VBool true); ("b"%string, VBool false)]) = true.
Proof. vm_compute. reflexivity. Qed.
