(** * C01  Every candidate handed to the objective function conforms to the spec.
    Base cases: the initial value of an accepted spec and an accepted guess conform (C10, C11).
    Step: conformance is closed under mutation, for every spec tree, every RNG state (every
    output the relation [mut_check] admits), every parameter pair and every key-manager state.
    Finiteness of reals is a side condition: a real without both bounds can overflow when the
    adaptive mutation scale is astronomically large; it is monitored on every observed value.
    (Closure under crossover: per-node statements in C12; whole-tree proof in CrossProofs.) *)
From Coq Require Import String.
From Coq Require Import List ZArith NArith Bool.
From Cambrian Require Import Base.F64 SourceFacts Syntax Ops OpsProofs SpecBuild SpecProofs Codec CodecProofs MutProofs.
Import ListNotations.

Example keys_registered : map_keys_registered_before_next_key = true.  Proof. reflexivity. Qed.
Example rescaling_is_identity : rescaling_never_assigned = true.  Proof. reflexivity. Qed.

Theorem initial_value_conforms : forall y s, build y = Ok s -> conforms s (init_val s) = true.
Proof. exact accepted_init_conforms. Qed.
Print Assumptions initial_value_conforms.

Theorem accepted_guess_conforms :
  forall s j v, wf s = true -> json_ok j = true -> from_json s j = JOk v -> conforms s v = true.
Proof. exact decode_conforms. Qed.
Print Assumptions accepted_guess_conforms.

(** structure, keys, array lengths, map sizes, declared options and numeric bounds are preserved
    by every possible mutation *)
Theorem mutation_preserves_conformance :
  forall s mp ms p c v v' c',
    wf s = true -> conforms_g false s v = true -> mut_check mp ms s p c v v' = Some c' ->
    conforms_g false s v' = true.
Proof. intros. eapply mutate_conforms; eauto. Qed.
Print Assumptions mutation_preserves_conformance.

(** ... and the full conformance whenever the reals of the result are finite *)
Theorem mutation_preserves_conformance_finite :
  forall s mp ms p c v v' c',
    wf s = true -> conforms s v = true -> mut_check mp ms s p c v v' = Some c' -> reals_finite v' = true ->
    conforms s v' = true.
Proof. intros. eapply mutate_conforms_fin; eauto. Qed.
Print Assumptions mutation_preserves_conformance_finite.

(** a real with both bounds is finite and inside whatever the sample was *)
Theorem bounded_real_stays_inside :
  forall mp ms p c c' i sc a b x x',
    mut_check mp ms (SReal i sc (Some a) (Some b)) p c (VReal x) (VReal x') = Some c' ->
    x' = x \/ (fle a x' = true /\ fle x' b = true).
Proof. intros. eapply real_both_bounds; eauto. Qed.
Print Assumptions bounded_real_stays_inside.

Example closure_nonvacuous :
  let s := SAnonMap (SInt 3 fone (Some 0%Z) (Some 9%Z)) 1 (Some 1%nat) (Some 2%nat) in
  wf s = true /\ conforms s (VAnonMap [(0%N, VInt 3)]) = true /\
  mut_check fone fone s [] [([], 1%N)] (VAnonMap [(0%N, VInt 3)]) (VAnonMap [(0%N, VInt 4); (1%N, VInt 9)]) = Some [([], 2%N)].
Proof. vm_compute. repeat split. Qed.
