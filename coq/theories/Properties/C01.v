(** * C01  Every candidate handed to the objective function conforms to the spec.
    Base cases: the initial value of an accepted spec and an accepted guess conform (C10, C11).
    Step: conformance is closed under mutation, for every spec tree, every RNG state (every
    output the relation [mut_check] admits), every parameter pair and every key-manager state.
    Finiteness of reals is a side condition: a real without both bounds can overflow when the
    adaptive mutation scale is astronomically large; it is monitored on every observed value.
    Conformance is also closed under crossover ([cross_check], any number of parents, any
    parameters), so every value the operators can build from conforming values conforms. *)
From Coq Require Import String.
From Coq Require Import List ZArith NArith Bool.
From Cambrian Require Import Base.F64 SourceFacts Syntax Ops OpsProofs SpecBuild SpecProofs Codec CodecProofs MutProofs CrossProofs.
Import ListNotations.

Example keys_registered : map_keys_registered_before_next_key = true.  Proof. reflexivity. Qed.
Example rescaling_is_identity : rescaling_never_assigned = true.  Proof. reflexivity. Qed.

Theorem initial_value_conforms : forall y s, build y = Ok s -> conforms s (init_val s) = true.
Proof. exact accepted_init_conforms. Qed.
Print Assumptions initial_value_conforms.

Theorem accepted_guess_conforms :
  forall s j v, wf s = true -> json_ok j = true -> from_json s j = JOk v -> conforms s v = true.
Proof. exact decode_conforms. Qed.
Print Assumptions accepted_guess_conforms.

(** structure, keys, array lengths, map sizes, declared options and numeric bounds are preserved
    by every possible mutation *)
Theorem mutation_preserves_conformance :
  forall s mp ms p c v v' c',
    wf s = true -> conforms_g false s v = true -> mut_check mp ms s p c v v' = Some c' ->
    conforms_g false s v' = true.
Proof. intros. eapply mutate_conforms; eauto. Qed.
Print Assumptions mutation_preserves_conformance.

(** ... and the full conformance whenever the reals of the result are finite *)
Theorem mutation_preserves_conformance_finite :
  forall s mp ms p c v v' c',
    wf s = true -> conforms s v = true -> mut_check mp ms s p c v v' = Some c' -> reals_finite v' = true ->
    conforms s v' = true.
Proof. intros. eapply mutate_conforms_fin; eauto. Qed.
Print Assumptions mutation_preserves_conformance_finite.

(** the offspring of conforming parents conforms (with [fr = true]: including finiteness of
    the reals, since crossover copies leaves) *)
Theorem crossover_preserves_conformance :
  forall fr cp pr s ps child,
    (forall p, In p ps -> conforms_g fr s p = true) -> cross_check cp pr s ps child = true ->
    conforms_g fr s child = true.
Proof. exact crossover_conforms. Qed.
Print Assumptions crossover_preserves_conformance.

(** a real with both bounds is finite and inside whatever the sample was *)
Theorem bounded_real_stays_inside :
  forall mp ms p c c' i sc a b x x',
    mut_check mp ms (SReal i sc (Some a) (Some b)) p c (VReal x) (VReal x') = Some c' ->
    x' = x \/ (fle a x' = true /\ fle x' b = true).
Proof. intros. eapply real_both_bounds; eauto. Qed.
Print Assumptions bounded_real_stays_inside.

Example closure_nonvacuous :
  let s := SAnonMap (SInt 3 fone (Some 0%Z) (Some 9%Z)) 1 (Some 1%nat) (Some 2%nat) in
  wf s = true /\ conforms s (VAnonMap [(0%N, VInt 3)]) = true /\
  mut_check fone fone s [] [([], 1%N)] (VAnonMap [(0%N, VInt 3)]) (VAnonMap [(0%N, VInt 4); (1%N, VInt 9)]) = Some [([], 2%N)].
Proof. vm_compute. repeat split. Qed.

Example crossover_closure_nonvacuous :
  let s := SAnonMap (SInt 3 fone (Some 0%Z) (Some 9%Z)) 1 (Some 1%nat) (Some 2%nat) in
  let half := of_bits 0x3FE0000000000000 in
  conforms s (VAnonMap [(0%N, VInt 3)]) = true /\ conforms s (VAnonMap [(0%N, VInt 5); (4%N, VInt 7)]) = true /\
  cross_check half half s [VAnonMap [(0%N, VInt 3)]; VAnonMap [(0%N, VInt 5); (4%N, VInt 7)]] (VAnonMap [(0%N, VInt 5); (4%N, VInt 7)]) = true /\
  cross_check half half s [VAnonMap [(0%N, VInt 3)]; VAnonMap [(0%N, VInt 5); (4%N, VInt 7)]] (VAnonMap [(0%N, VInt 3); (4%N, VInt 7)]) = true.
Proof. vm_compute. repeat split. Qed.
