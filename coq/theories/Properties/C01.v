(** * C01  Every candidate handed to the objective function conforms to the spec.
    Base cases: the initial value of an accepted spec and an accepted guess conform (C10, C11).
    Step: conformance is closed under mutation, for every spec tree, every RNG state (every
    output the relation [mut_check] admits), every parameter pair and every key-manager state.
    Finiteness of reals is a side condition: a real without both bounds can overflow when the
    adaptive mutation scale is astronomically large; it is monitored on every observed value.
    Conformance is also closed under crossover ([cross_check], any number of parents, any
    parameters), so every value the operators can build from conforming values conforms. *)
From Coq Require Import String.
From Coq Require Import List Arith ZArith NArith Bool Lia.
From Cambrian Require Import Base.F64 SourceFacts Syntax Ops OpsProofs SpecBuild SpecProofs Codec CodecProofs MutProofs CrossProofs.
From Cambrian Require Import Ctl CtlProofs CtlStruct CtlConf.
Import ListNotations.

Example keys_registered : map_keys_registered_before_next_key = true.  Proof. reflexivity. Qed.
Example rescaling_is_identity : rescaling_never_assigned = true.  Proof. reflexivity. Qed.
(** [create_offspring] has the shape the run-level theorem below assumes (regenerated from the source) *)
Example offspring_shape : offspring_is_mutated_crossover_of_population = true.  Proof. reflexivity. Qed.

Theorem initial_value_conforms : forall y s, build y = Ok s -> conforms s (init_val s) = true.
Proof. exact accepted_init_conforms. Qed.
Print Assumptions initial_value_conforms.

Theorem accepted_guess_conforms :
  forall s j v, wf s = true -> json_ok j = true -> from_json s j = JOk v -> conforms s v = true.
Proof. exact decode_conforms. Qed.
Print Assumptions accepted_guess_conforms.

(** structure, keys, array lengths, map sizes, declared options and numeric bounds are preserved
    by every possible mutation *)
Theorem mutation_preserves_conformance :
  forall s mp ms p c v v' c',
    wf s = true -> conforms_g false s v = true -> mut_check mp ms s p c v v' = Some c' ->
    conforms_g false s v' = true.
Proof. intros. eapply mutate_conforms; eauto. Qed.
Print Assumptions mutation_preserves_conformance.

(** ... and the full conformance whenever the reals of the result are finite *)
Theorem mutation_preserves_conformance_finite :
  forall s mp ms p c v v' c',
    wf s = true -> conforms s v = true -> mut_check mp ms s p c v v' = Some c' -> reals_finite v' = true ->
    conforms s v' = true.
Proof. intros. eapply mutate_conforms_fin; eauto. Qed.
Print Assumptions mutation_preserves_conformance_finite.

(** the offspring of conforming parents conforms (with [fr = true]: including finiteness of
    the reals, since crossover copies leaves) *)
Theorem crossover_preserves_conformance :
  forall fr cp pr s ps child,
    (forall p, In p ps -> conforms_g fr s p = true) -> cross_check cp pr s ps child = true ->
    conforms_g fr s child = true.
Proof. exact crossover_conforms. Qed.
Print Assumptions crossover_preserves_conformance.

(** a real with both bounds is finite and inside whatever the sample was *)
Theorem bounded_real_stays_inside :
  forall mp ms p c c' i sc a b x x',
    mut_check mp ms (SReal i sc (Some a) (Some b)) p c (VReal x) (VReal x') = Some c' ->
    x' = x \/ (fle a x' = true /\ fle x' b = true).
Proof. intros. eapply real_both_bounds; eauto. Qed.
Print Assumptions bounded_real_stays_inside.

(** ** the whole run.  [create_offspring]: crossover of population values (the initial value when
    the population is empty), then mutation.  For every configuration, oracle stream and schedule:
    if every fresh entry of the start log is such an offspring of values that were started
    earlier in the same run, then every value handed to the objective function, and the value the
    run returns, conforms.  (That population values were started earlier, that re-evaluations
    carry the value of their id and that the first evaluation is the initial value are proved:
    [InvS].) *)
Definition offspring_of (s : spec) (init : value) (vs : list value) (v : value) : Prop :=
  exists child,
    ((vs = [] /\ child = init) \/ (exists cp pr, cross_check cp pr s vs child = true)) /\
    (exists mp ms p c c', mut_check mp ms s p c child v = Some c').

Lemma offspring_conforms s init vs v :
  wf s = true -> conforms_g false s init = true ->
  (forall x, In x vs -> conforms_g false s x = true) -> offspring_of s init vs v -> conforms_g false s v = true.
Proof.
  intros W Hi Hvs (child & Hc & (mp & ms & p & c & c' & Hm)).
  eapply mutate_conforms; [reflexivity | exact W | | exact Hm].
  destruct Hc as [[_ ->]|(cp & pr & Hx)]; [exact Hi|]. eapply crossover_conforms; eauto.
Qed.

Theorem every_evaluated_value_conforms :
  forall (M T : Type) (tcmp : T -> T -> comparison) (mean : list T -> T) (hit : T -> bool)
         (max_pop min_reeval ss : nat) (nc : N) (budget : option N) (s : spec) (init : value) (os : N -> orc value M),
    1 <= ss -> wf s = true -> conforms_g false s init = true ->
    forall (ls : list (label T)),
    match exec tcmp mean hit max_pop min_reeval ss budget init os (Ctl.init T min_reeval ss nc budget init os) ls with
    | Cont c =>
        derived value (offspring_of s init) (c_started c) ->
        forall id sd v, In (id, sd, v) (c_started c) -> conforms_g false s v = true
    | Ret c r =>
        derived value (offspring_of s init) (c_started c) ->
        (forall id sd v, In (id, sd, v) (c_started c) -> conforms_g false s v = true) /\
        (forall x v a b, r = ROk x v a b -> conforms_g false s v = true)
    | _ => True
    end.
Proof.
  intros M T tcmp mean hit max_pop min_reeval ss nc budget s init os Hss W Hi ls.
  apply (all_values_good value M T tcmp mean hit max_pop min_reeval ss nc budget init os Hss
           (fun v => conforms_g false s v = true) (offspring_of s init) Hi).
  intros vs v Hvs Hg. eapply offspring_conforms; eauto.
Qed.
Print Assumptions every_evaluated_value_conforms.

(** non-vacuity: two concurrent evaluations of a boolean; the second value is the mutated initial
    value (empty population); the start log is derived and has two entries *)
Definition ex_os01 (sd : N) : orc value unit := mkOrc false (VBool false) tt.
Example derived_run_exists :
  match exec Z.compare (fun l => hd 0%Z l) (fun _ => false) 100 20 1 None (VBool true) ex_os01
             (Ctl.init Z 20 1 2%N None (VBool true) ex_os01) [] with
  | Cont c => c_started c = [(0%N, 0%N, VBool true); (1%N, 1%N, VBool false)] /\
              derived value (offspring_of (SBool true) (VBool true)) (c_started c)
  | _ => False
  end.
Proof.
  match goal with |- match ?e with Cont _ => _ | _ => _ end => let r := eval vm_compute in e in change e with r end.
  cbn [c_started]. split; [reflexivity|]. intros n id sd v Hn.
  destruct n as [|[|n]]; [left; reflexivity| |destruct n; discriminate].
  right. right. exists []. split; [intros x []|]. inversion Hn; subst.
  exists (VBool true). split; [left; split; reflexivity|].
  exists fone, fone, [], [], []. vm_compute. reflexivity.
Qed.

Example closure_nonvacuous :
  let s := SAnonMap (SInt 3 fone (Some 0%Z) (Some 9%Z)) 1 (Some 1%nat) (Some 2%nat) in
  wf s = true /\ conforms s (VAnonMap [(0%N, VInt 3)]) = true /\
  mut_check fone fone s [] [([], 1%N)] (VAnonMap [(0%N, VInt 3)]) (VAnonMap [(0%N, VInt 4); (1%N, VInt 9)]) = Some [([], 2%N)].
Proof. vm_compute. repeat split. Qed.

Example crossover_closure_nonvacuous :
  let s := SAnonMap (SInt 3 fone (Some 0%Z) (Some 9%Z)) 1 (Some 1%nat) (Some 2%nat) in
  let half := of_bits 0x3FE0000000000000 in
  conforms s (VAnonMap [(0%N, VInt 3)]) = true /\ conforms s (VAnonMap [(0%N, VInt 5); (4%N, VInt 7)]) = true /\
  cross_check half half s [VAnonMap [(0%N, VInt 3)]; VAnonMap [(0%N, VInt 5); (4%N, VInt 7)]] (VAnonMap [(0%N, VInt 5); (4%N, VInt 7)]) = true /\
  cross_check half half s [VAnonMap [(0%N, VInt 3)]; VAnonMap [(0%N, VInt 5); (4%N, VInt 7)]] (VAnonMap [(0%N, VInt 3); (4%N, VInt 7)]) = true.
Proof. vm_compute. repeat split. Qed.

(** [Value::to_json] is the function [Codec.to_json] models: leaves written exactly, no rounding
    (shape regenerated from the source; the values handed to the objective function are compared by the streams) *)
Example to_json_shape : value_to_json_shape = true.  Proof. reflexivity. Qed.
