(** * C11  Value/JSON codec and validation of the initial guess ([serde_json::Value] level). *)
From Coq Require Import String.
From Coq Require Import List ZArith NArith Bool.
From Cambrian Require Import Base.F64 SourceFacts Syntax SpecBuild Codec CodecProofs.
Import ListNotations.
Local Open Scope string_scope.

(** regenerated from src/value_util.rs: array length and map size of a guess are validated *)
Example guess_validation_present : guess_array_length_checked = true /\ guess_map_size_checked = true.
Proof. split; reflexivity. Qed.

(** reading a guess is total: accepted with a value, or rejected with an error (no crash: the
    only [unwrap] is on the single entry of a one-entry object) *)
Theorem decode_total : forall s j, (exists v, from_json s j = JOk v) \/ (exists e, from_json s j = JErr e) \/ from_json s j = JPanic.
Proof. intros. destruct (from_json s j); eauto. Qed.
Print Assumptions decode_total.

(** every accepted guess conforms to the (well-formed) spec: same keys, declared array length,
    map size within bounds and distinct keys, declared options, numbers finite and inside their
    bounds.  Since the controller decodes the guess before it creates anything, a non-conforming
    guess is rejected before any evaluation. *)
Theorem accepted_guess_conforms :
  forall s j v, wf s = true -> json_ok j = true -> from_json s j = JOk v -> conforms s v = true.
Proof. exact decode_conforms. Qed.
Print Assumptions accepted_guess_conforms.

(** instances of the rejections (computed) *)
Definition sp_arr := SArray (SBool true) 3.
Example rejects_short_array : from_json sp_arr (JArr [JBool true]) = JErr JWrongArrayLength.
Proof. vm_compute. reflexivity. Qed.
Definition sp_map := SAnonMap (SBool true) 2 (Some 2%nat) (Some 3%nat).
Example rejects_small_map : from_json sp_map (JArr []) = JErr JMapSizeNotWithinBounds.
Proof. vm_compute. reflexivity. Qed.
Example rejects_big_map : from_json sp_map (JObj [("0", JBool true); ("1", JBool true); ("2", JBool true); ("7", JBool true)]) = JErr JMapSizeNotWithinBounds.
Proof. vm_compute. reflexivity. Qed.
Example rejects_bad_key : from_json sp_map (JObj [("0", JBool true); ("x", JBool true)]) = JErr JInvalidAnonMapKey.
Proof. vm_compute. reflexivity. Qed.
Example both_encodings_accepted :
  from_json sp_map (JArr [JBool true; JBool false]) = JOk (VAnonMap [(0%N, VBool true); (1%N, VBool false)]) /\
  from_json sp_map (JObj [("0", JBool true); ("1", JBool false)]) = JOk (VAnonMap [(0%N, VBool true); (1%N, VBool false)]).
Proof. split; vm_compute; reflexivity. Qed.
Example roundtrip_instance :
  to_json (VAnonMap [(0%N, VBool true); (10%N, VBool false)]) = JOk (JObj [("0", JBool true); ("10", JBool false)]) /\
  from_json (SAnonMap (SBool true) 2 None None) (JObj [("0", JBool true); ("10", JBool false)])
  = JOk (VAnonMap [(0%N, VBool true); (10%N, VBool false)]).
Proof. split; vm_compute; reflexivity. Qed.
