(** * C11  Value/JSON codec and validation of the initial guess ([serde_json::Value] level). *)
From Coq Require Import String.
From Coq Require Import List ZArith NArith Bool.
From Cambrian Require Import Base.F64 SourceFacts Syntax SpecBuild Codec CodecProofs RoundTrip.
Import ListNotations.
Local Open Scope string_scope.

(** regenerated from src/value_util.rs: array length and map size of a guess are validated *)
Example guess_validation_present : guess_array_length_checked = true /\ guess_map_size_checked = true.
Proof. split; reflexivity. Qed.

(** reading a guess is total: accepted with a value, or rejected with an error (no crash: the
    only [unwrap] is on the single entry of a one-entry object) *)
Theorem decode_total : forall s j, (exists v, from_json s j = JOk v) \/ (exists e, from_json s j = JErr e) \/ from_json s j = JPanic.
Proof. intros. destruct (from_json s j); eauto. Qed.
Print Assumptions decode_total.

(** every accepted guess conforms to the (well-formed) spec: same keys, declared array length,
    map size within bounds and distinct keys, declared options, numbers finite and inside their
    bounds.  Since the controller decodes the guess before it creates anything, a non-conforming
    guess is rejected before any evaluation. *)
Theorem accepted_guess_conforms :
  forall s j v, wf s = true -> json_ok j = true -> from_json s j = JOk v -> conforms s v = true.
Proof. exact decode_conforms. Qed.
Print Assumptions accepted_guess_conforms.

(** round trip: for every well-formed spec and every conforming value (integers within i64, map
    keys within usize: what the Rust types hold), serialising succeeds only with a document that
    reads back as a guess, and the value read back serialises to the same document again (objects
    compared as maps: a sub is written in the value's order and re-written in the spec's).  The
    value read back may differ from the original where the encoding is ambiguous by design
    (an optional wrapping a const or an optional: both encode as null). *)
Theorem serialise_then_read_back :
  forall s v j,
    wf s = true -> conforms s v = true -> in_range v = true -> to_json v = JOk j ->
    exists v' j', from_json s j = JOk v' /\ to_json v' = JOk j' /\ jeq j j' = true.
Proof. exact roundtrip. Qed.
Print Assumptions serialise_then_read_back.

(** keys of resizable maps survive printing and parsing *)
Theorem map_keys_survive_text : forall k, (k <= usize_max)%N -> parse_usize (N2s k) = Some k.
Proof. exact parse_usize_N2s. Qed.
Print Assumptions map_keys_survive_text.

Example roundtrip_nonvacuous :
  let s := SSub [("m", SAnonMap (SOptional SConst false) 1 (Some 1%nat) None); ("r", SReal fone fone None None)] in
  let v := VSub [("r", VReal fone); ("m", VAnonMap [(7%N, VOptional (Some VConst))])] in
  wf s = true /\ conforms s v = true /\ in_range v = true /\
  to_json v = JOk (JObj [("r", JFloat fone); ("m", JObj [("7", JNull)])]) /\
  from_json s (JObj [("r", JFloat fone); ("m", JObj [("7", JNull)])]) = JOk (VSub [("m", VAnonMap [(7%N, VOptional None)]); ("r", VReal fone)]).
Proof. vm_compute. repeat split. Qed.

(** instances of the rejections (computed) *)
Definition sp_arr := SArray (SBool true) 3.
Example rejects_short_array : from_json sp_arr (JArr [JBool true]) = JErr JWrongArrayLength.
Proof. vm_compute. reflexivity. Qed.
Definition sp_map := SAnonMap (SBool true) 2 (Some 2%nat) (Some 3%nat).
Example rejects_small_map : from_json sp_map (JArr []) = JErr JMapSizeNotWithinBounds.
Proof. vm_compute. reflexivity. Qed.
Example rejects_big_map : from_json sp_map (JObj [("0", JBool true); ("1", JBool true); ("2", JBool true); ("7", JBool true)]) = JErr JMapSizeNotWithinBounds.
Proof. vm_compute. reflexivity. Qed.
Example rejects_bad_key : from_json sp_map (JObj [("0", JBool true); ("x", JBool true)]) = JErr JInvalidAnonMapKey.
Proof. vm_compute. reflexivity. Qed.
Example both_encodings_accepted :
  from_json sp_map (JArr [JBool true; JBool false]) = JOk (VAnonMap [(0%N, VBool true); (1%N, VBool false)]) /\
  from_json sp_map (JObj [("0", JBool true); ("1", JBool false)]) = JOk (VAnonMap [(0%N, VBool true); (1%N, VBool false)]).
Proof. split; vm_compute; reflexivity. Qed.
Example roundtrip_instance :
  to_json (VAnonMap [(0%N, VBool true); (10%N, VBool false)]) = JOk (JObj [("0", JBool true); ("10", JBool false)]) /\
  from_json (SAnonMap (SBool true) 2 None None) (JObj [("0", JBool true); ("10", JBool false)])
  = JOk (VAnonMap [(0%N, VBool true); (10%N, VBool false)]).
Proof. split; vm_compute; reflexivity. Qed.

(** ** known finding (not repaired): headroom of map keys.  [path::KeyManager] keeps, per map, a
    counter one above the largest key seen ([key + 1] in usize).  Reading a guess accepts every
    key up to usize::MAX, so an accepted, conforming guess can hold a key for which that counter
    does not exist: installing it overflows (a panic where overflow is checked).  All accepted
    guesses without such a key have the headroom. *)
Fixpoint keys_have_headroom (v : value) : bool :=
  match v with
  | VSub m => forallb (fun kv => keys_have_headroom (snd kv)) m
  | VArray l => forallb keys_have_headroom l
  | VAnonMap m => forallb (fun kv => N.ltb (fst kv) usize_max && keys_have_headroom (snd kv)) m
  | VVariant _ x => keys_have_headroom x
  | VOptional (Some x) => keys_have_headroom x
  | _ => true
  end.
Theorem accepted_guess_keys_have_headroom_refuted :
  exists s j v, wf s = true /\ from_json s j = JOk v /\ conforms s v = true /\ keys_have_headroom v = false.
Proof.
  exists (SAnonMap (SBool false) 1 None None), (JObj [("18446744073709551615", JBool true)]),
         (VAnonMap [(18446744073709551615%N, VBool true)]).
  vm_compute. repeat split.
Qed.
Print Assumptions accepted_guess_keys_have_headroom_refuted.

(** [Value::to_json] is the function [Codec.to_json] models: leaves written exactly, no rounding
    (shape regenerated from the source; the values serialising are compared by the streams) *)
Example to_json_shape : value_to_json_shape = true.  Proof. reflexivity. Qed.
