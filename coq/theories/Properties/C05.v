(** * C05  Concurrency bound and work conservation. *)
From Coq Require Import List Arith NArith ZArith Bool Lia.
From Cambrian Require Import SourceFacts Ctl CtlProofs CtlStruct.
Import ListNotations.

(** At every turn boundary of every execution: at most [nc] evaluations are in flight; and while
    neither stopping (abort flag clear: no failure, no terminate request taken up) the number in
    flight is exactly min(nc, budget - completed) — a finished evaluation has been replaced. *)
Theorem inflight_le_nc_and_work_conserving :
  forall (V M T : Type) (tcmp : T -> T -> comparison) (mean : list T -> T) (hit : T -> bool)
         (max_pop min_reeval ss : nat) (nc : N) (budget : option N) (init_val : V) (os : N -> orc V M)
         (ls : list (label T)) (c : ctl V M T),
    exec tcmp mean hit max_pop min_reeval ss budget init_val os
         (init T min_reeval ss nc budget init_val os) ls = Cont c ->
    (N.of_nat (length (c_infl c)) <= nc)%N /\
    (c_aborted c = false ->
     N.of_nat (length (c_infl c)) =
     match budget with
     | Some n => N.min nc (n - (c_acc c + c_rej c))
     | None => nc
     end).
Proof.
  intros V M T tcmp mean hit max_pop min_reeval ss nc budget init_val os ls c He.
  pose proof (InvW_reachable V M T tcmp mean hit max_pop min_reeval ss nc budget init_val os ls) as H.
  rewrite He in H. destruct H as [_ H1 H2]. split; [exact H1|].
  intros Ha. destruct (H2 Ha) as [_ H3]. exact H3.
Qed.
Print Assumptions inflight_le_nc_and_work_conserving.

(** No individual is in flight twice, nor in flight and in the population at once: the ids of
    the in-flight evaluations and of the population are pairwise distinct. *)
Theorem inflight_ids_distinct :
  forall (V M T : Type) (tcmp : T -> T -> comparison) (mean : list T -> T) (hit : T -> bool)
         (max_pop min_reeval ss : nat) (nc : N) (budget : option N) (init_val : V) (os : N -> orc V M),
    1 <= ss ->
    forall (ls : list (label T)) (c : ctl V M T),
    exec tcmp mean hit max_pop min_reeval ss budget init_val os
         (init T min_reeval ss nc budget init_val os) ls = Cont c ->
    NoDup (map (fun x => i_id (snd x)) (c_infl c) ++ map (fun x => i_id (snd x)) (a_pop (c_algo c))) /\
    NoDup (map fst (c_infl c)).
Proof.
  intros V M T tcmp mean hit max_pop min_reeval ss nc budget init_val os Hss ls c He.
  pose proof (InvS_reachable V M T tcmp mean hit max_pop min_reeval ss nc budget init_val os Hss ls) as H.
  rewrite He in H. split; [apply (s_nodup _ _ _ _ _ _ H) | apply (s_infl_seeds _ _ _ _ _ _ H)].
Qed.
Print Assumptions inflight_ids_distinct.

Definition ex_os : N -> orc nat unit := fun s => mkOrc false (N.to_nat s) tt.
Example work_conserving_nonvacuous :
  match exec Z.compare (fun l => hd 0%Z l) (fun _ => false) 100 20 1 (Some 5%N) 7 ex_os
             (init Z 20 1 3%N (Some 5%N) 7 ex_os)
             [LDone 1%N (OVal 5%Z) true; LDone 0%N OReject true; LDone 3%N (OVal 1%Z) true]
  with Cont c => c_aborted c = false /\ length (c_infl c) = 2 /\ (c_acc c + c_rej c = 3)%N | _ => False end.
Proof. vm_compute. repeat split. Qed.
