(** * C02  Reported best-seen was really evaluated, is correctly valued and is the minimum. *)
From Coq Require Import List Arith NArith ZArith Bool Lia.
From Cambrian Require Import SourceFacts Ctl CtlProofs CtlStruct CtlMin.
Import ListNotations.

(** the population cap in the source leaves room for the best individual *)
Example max_pop_size_positive : 1 <= max_pop_size.
Proof. vm_compute. repeat constructor. Qed.

(** For every objective order, mean, target, sample size >= 1, concurrency, budget, oracle stream
    and label sequence: a returned report's value was handed to the objective function under some
    seed of this run; its objective is the mean of exactly [ss] accepted returns of that one
    individual (in completion order); its counts are the numbers of report items with/without value. *)
Theorem best_is_evaluated :
  forall (V M T : Type) (tcmp : T -> T -> comparison) (mean : list T -> T) (hit : T -> bool)
         (ss : nat) (nc : N) (budget : option N) (init_val : V) (os : N -> orc V M),
    1 <= ss ->
    forall (ls : list (label T)) (c : ctl V M T) (x : T) (v : V) (a b : N),
      exec tcmp mean hit max_pop_size min_pop_size_for_reeval ss budget init_val os
           (init T min_pop_size_for_reeval ss nc budget init_val os) ls = Ret c (ROk x v a b) ->
      exists id s : N,
        In (id, s, v) (c_started c) /\
        x = mean (vals_of V M T c id) /\ length (vals_of V M T c id) = ss /\
        a = n_some V M T (c_items c) /\ b = n_none V M T (c_items c).
Proof. intros. eapply best_is_evaluated_lemma; eauto. Qed.
Print Assumptions best_is_evaluated.

(** Sample size 1, any total preorder [tcmp] on objective values for which the mean of one
    value is that value: the reported objective is <= every accepted return of the run —
    whatever was evicted, rejected, or completed in whatever order, however the run ended. *)
Theorem best_is_min_ss1 :
  forall (V M T : Type) (tcmp : T -> T -> comparison) (mean : list T -> T) (hit : T -> bool)
         (nc : N) (budget : option N) (init_val : V) (os : N -> orc V M),
    (forall a b : T, tcmp b a = CompOpp (tcmp a b)) ->
    (forall a b c : T, tcmp a b <> Gt -> tcmp b c <> Gt -> tcmp a c <> Gt) ->
    (forall x : T, tcmp (mean [x]) x = Eq) ->
    forall (ls : list (label T)) (c : ctl V M T) (x : T) (v : V) (a b : N),
      exec tcmp mean hit max_pop_size min_pop_size_for_reeval 1 budget init_val os
           (init T min_pop_size_for_reeval 1 nc budget init_val os) ls = Ret c (ROk x v a b) ->
      forall (it : item V M T) (y : T), In it (c_items c) -> it_res it = Some y -> tcmp x y <> Gt.
Proof.
  intros V M T tcmp mean hit nc budget init_val os H1 H2 H3 ls c x v a b He it y Hin Hy.
  eapply (best_is_min_ss1_lemma V M T tcmp mean hit max_pop_size min_pop_size_for_reeval 1 nc budget init_val os);
    eauto using max_pop_size_positive.
Qed.
Print Assumptions best_is_min_ss1.

(** ... and a run with an accepted evaluation and no failure never ends with "no individuals". *)
Theorem accepted_implies_report_ss1 :
  forall (V M T : Type) (tcmp : T -> T -> comparison) (mean : list T -> T) (hit : T -> bool)
         (nc : N) (budget : option N) (init_val : V) (os : N -> orc V M),
    (forall a b : T, tcmp b a = CompOpp (tcmp a b)) ->
    (forall a b c : T, tcmp a b <> Gt -> tcmp b c <> Gt -> tcmp a c <> Gt) ->
    (forall x : T, tcmp (mean [x]) x = Eq) ->
    forall (ls : list (label T)) (c : ctl V M T) (r : result V T) (it : item V M T) (y : T),
      exec tcmp mean hit max_pop_size min_pop_size_for_reeval 1 budget init_val os
           (init T min_pop_size_for_reeval 1 nc budget init_val os) ls = Ret c r ->
      In it (c_items c) -> it_res it = Some y -> c_err c = None -> c_failed c = 0%N ->
      exists x v a b, r = ROk x v a b.
Proof.
  intros V M T tcmp mean hit nc budget init_val os H1 H2 H3 ls c r it y He Hin Hy Herr Hf.
  eapply (accepted_implies_report_ss1_lemma V M T tcmp mean hit max_pop_size min_pop_size_for_reeval 1 nc budget init_val os);
    eauto using max_pop_size_positive.
Qed.
Print Assumptions accepted_implies_report_ss1.

(** ... instantiated at the implementation's objective type: finite binary64 values compared
    with [partial_cmp] ([FinOrder.ffcmp]) and [summary_obj_func_val] ([FinOrder.ffmean]); the
    order hypotheses are theorems there, not assumptions *)
From Cambrian Require Import Base.F64 Base.FinOrder.
Theorem best_is_min_ss1_f64 :
  forall (V M : Type) (hit : ff64 -> bool) (nc : N) (budget : option N) (init_val : V) (os : N -> orc V M)
         (ls : list (label ff64)) (c : ctl V M ff64) (x : ff64) (v : V) (a b : N),
    exec ffcmp ffmean hit max_pop_size min_pop_size_for_reeval 1 budget init_val os
         (init ff64 min_pop_size_for_reeval 1 nc budget init_val os) ls = Ret c (ROk x v a b) ->
    forall (it : item V M ff64) (y : ff64), In it (c_items c) -> it_res it = Some y ->
      fle (fval x) (fval y) = true.
Proof.
  intros V M hit nc budget init_val os ls c x v a b He it y Hin Hy.
  assert (H : ffcmp x y <> Gt).
  { eapply (best_is_min_ss1 V M ff64 ffcmp ffmean hit nc budget init_val os ffcmp_sym ffle_trans ffmean_single); eauto. }
  destruct x as [x Fx], y as [y Fy]. unfold ffcmp in H. cbn [fval proj1_sig] in *.
  destruct (fle x y) eqn:E; [reflexivity|]. exfalso. apply H.
  pose proof (F64Proofs.fle_false_flt y x Fy Fx E) as L.
  unfold fcmp. unfold flt, BinarySingleNaN.Bltb, SpecFloat.SFltb in L. fold (BinarySingleNaN.Bcompare y x) in L.
  rewrite (F64Proofs.bcompare_fin y x Fy Fx) in L. rewrite (F64Proofs.bcompare_fin x y Fx Fy).
  destruct (Raux.Rcompare_spec (BinarySingleNaN.B2R y) (BinarySingleNaN.B2R x)); try discriminate.
  apply Raux.Rcompare_Gt. assumption.
Qed.
Print Assumptions best_is_min_ss1_f64.

(** Non-vacuity: the order hypotheses are met by [Z.compare] with [mean [x] = x], and a
    concrete out-of-order run with an eviction-free population returns its minimum. *)
Example order_hyps_Z :
  (forall a b : Z, Z.compare b a = CompOpp (Z.compare a b)) /\
  (forall a b c : Z, Z.compare a b <> Gt -> Z.compare b c <> Gt -> Z.compare a c <> Gt) /\
  (forall x : Z, Z.compare (hd 0%Z [x]) x = Eq).
Proof.
  split; [intros; apply Z.compare_antisym|]. split; [|intros; apply Z.compare_refl].
  intros a b c H1 H2. rewrite Z.compare_gt_iff in *. lia.
Qed.
Definition ex_os : N -> orc nat unit := fun s => mkOrc false (N.to_nat s) tt.
Example best_is_min_nonvacuous_run :
  match exec Z.compare (fun l => hd 0%Z l) (fun _ => false) max_pop_size min_pop_size_for_reeval 1 (Some 4%N) 7 ex_os
       (init Z min_pop_size_for_reeval 1 3%N (Some 4%N) 7 ex_os)
       [LDone 2%N (OVal 5%Z) true; LDone 0%N (OVal 9%Z) true; LDone 3%N OReject true; LDone 1%N (OVal (-2)%Z) true]
  with Ret _ r => r = ROk (-2)%Z 1 3%N 1%N | _ => False end.
Proof. vm_compute. reflexivity. Qed.
