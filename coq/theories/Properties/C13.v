(** * C13  Mutation is local: identity at probability 0, resize by one, fresh keys.
    Statements are about the relation [mut_check] (Ops.v): "v' is a result the real [mutate]
    can produce from v for some state of the RNG".  They hold for every such v', i.e. for all
    RNG states.  Proved per node kind; the lift to whole trees is by the structural descent of
    [mut_check] itself (every child pair is checked by the same function). *)
From Coq Require Import String.
From Coq Require Import List ZArith NArith Bool.
From Cambrian Require Import Base.F64 SourceFacts Syntax Ops OpsProofs MutProofs CrossProofs MutLocal.
Import ListNotations.

(** regenerated from src/mutation.rs: the keys of the map in hand are registered with the key
    manager before a new key is drawn *)
Example keys_registered_before_next_key : map_keys_registered_before_next_key = true.
Proof. reflexivity. Qed.

Theorem mutate_p0_leaves_unchanged :
  forall ms p c c',
    (forall i b b', mut_check fzero ms (SBool i) p c (VBool b) (VBool b') = Some c' -> b' = b /\ c' = c) /\
    (forall vs i a b, mut_check fzero ms (SEnum vs i) p c (VEnum a) (VEnum b) = Some c' -> b = a /\ c' = c) /\
    (forall i sc mn mx x x', mut_check fzero ms (SReal i sc mn mx) p c (VReal x) (VReal x') = Some c' ->
                             x' = x /\ c' = c) /\
    (forall i sc mn mx z z', mut_check fzero ms (SInt i sc mn mx) p c (VInt z) (VInt z') = Some c' -> z' = z /\ c' = c).
Proof.
  intros. split; [|split; [|split]]; intros.
  - eapply p0_bool; eauto.
  - eapply p0_enum; eauto.
  - eapply p0_real; eauto.
  - eapply p0_int; eauto.
Qed.
Print Assumptions mutate_p0_leaves_unchanged.

(** whole tree: with probability 0 the output has exactly the leaves of the (conforming) input,
    at every path — member names, indices, map keys, variant options, optionals — in both
    directions: nothing changed, nothing added, nothing removed, at any depth *)
Theorem mutate_p0_is_identity :
  forall s ms p c v v' c',
    wf s = true -> conforms_g false s v = true -> mut_check fzero ms s p c v v' = Some c' ->
    forall q lf, is_leaf_value lf = true -> (leaf_at v' q = Some lf <-> leaf_at v q = Some lf).
Proof. intros s ms p c v v' c' W C H. exact (mutate_p0_identity s ms p c v v' c' W C H). Qed.
Print Assumptions mutate_p0_is_identity.

Theorem resize_changes_one_key :
  forall mp ms vt isz mn mx p c c' m m',
    mut_check mp ms (SAnonMap vt isz mn mx) p c (VAnonMap m) (VAnonMap m') = Some c' ->
    (added m m' = [] /\ removed m m' = []) \/
    (exists k, added m m' = [k] /\ removed m m' = [] /\ mem_n k (keys_n m) = false) \/
    (exists k, added m m' = [] /\ removed m m' = [k]).
Proof.
  intros. destruct (resize_by_one mp ms vt isz mn mx p c c' m m' H) as [A|[[k [A B]]|A]]; auto.
  right. left. exists k. repeat split; auto. apply added_key_not_in_input with (m' := m'). rewrite A. left. reflexivity.
Qed.
Print Assumptions resize_changes_one_key.

Theorem p0_never_resizes :
  forall ms vt isz mn mx p c c' m m',
    mut_check fzero ms (SAnonMap vt isz mn mx) p c (VAnonMap m) (VAnonMap m') = Some c' ->
    added m m' = [] /\ removed m m' = [].
Proof. intros. eapply p0_no_resize; eauto. Qed.
Print Assumptions p0_never_resizes.

Theorem p1_always_resizes :
  forall ms vt isz mn mx p c c' m m',
    mut_check fone ms (SAnonMap vt isz mn mx) p c (VAnonMap m) (VAnonMap m') = Some c' ->
    (exists k, added m m' = [k] /\ removed m m' = []) \/ (exists k, added m m' = [] /\ removed m m' = [k]).
Proof. intros. eapply p1_resizes; eauto. Qed.
Print Assumptions p1_always_resizes.

(** non-vacuity: a concrete addition accepted by the relation *)
Example add_is_accepted :
  mut_check fone fone (SAnonMap (SBool true) 1 (Some 1) (Some 3)) [] [([], 1%N)]
            (VAnonMap [(0%N, VBool true)]) (VAnonMap [(0%N, VBool false); (1%N, VBool false)]) = Some [([], 2%N)].
Proof. vm_compute. reflexivity. Qed.

(** ** the model's key counters are unbounded naturals, the code's are usize.  They agree as long
    as nothing exceeds usize::MAX: for an addition that holds when the counter of the map's path
    and the keys of the map leave headroom (the known finding K1 is a guess that does not) *)
From Cambrian Require Import Codec KeyBound.
Theorem added_key_and_counter_fit_in_usize :
  forall (A : Type) (c : pctx) (p : path) (m : list (N * A)),
    (get_nk c p < usize_max)%N -> (forall kv, In kv m -> (fst kv < usize_max - 1)%N) ->
    (fresh_key c p m < usize_max)%N /\ (fresh_key c p m + 1 <= usize_max)%N.
Proof. intros A c p m Hc Hk. split; [apply fresh_key_fits | apply counter_after_addition_fits]; assumption. Qed.
Print Assumptions added_key_and_counter_fit_in_usize.
