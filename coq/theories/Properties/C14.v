(** * C14  Counts, detailed report and best-seen file agree with what was evaluated
    (controller part: counts and report items). *)
From Coq Require Import List Arith NArith ZArith Bool Lia.
From Cambrian Require Import SourceFacts Ctl CtlProofs CtlStruct CtlMin.
Import ListNotations.

(** For every reachable state of every execution (any termination cause, concurrency, order):
    - the accepted / rejected counters equal the numbers of report items with / without a value;
    - every report item carries the id, seed and value of an evaluation that was created;
    - no seed is reported twice, and no reported seed is still in flight. *)
Theorem counts_and_items_agree :
  forall (V M T : Type) (tcmp : T -> T -> comparison) (mean : list T -> T) (hit : T -> bool)
         (max_pop min_reeval ss : nat) (nc : N) (budget : option N) (init_val : V) (os : N -> orc V M),
    1 <= ss ->
    forall (ls : list (label T)),
    match exec tcmp mean hit max_pop min_reeval ss budget init_val os
               (init T min_reeval ss nc budget init_val os) ls with
    | Cont c | Ret c _ =>
        c_acc c = n_some V M T (c_items c) /\ c_rej c = n_none V M T (c_items c) /\
        (forall it, In it (c_items c) -> In (it_id it, it_seed it, it_val it) (c_started c)) /\
        NoDup (map (fun it => it_seed it) (c_items c) ++ map fst (c_infl c))
    | _ => True
    end.
Proof.
  intros V M T tcmp mean hit max_pop min_reeval ss nc budget init_val os Hss ls.
  pose proof (P_reachable V M T tcmp mean hit max_pop min_reeval ss nc budget init_val os Hss ls) as H.
  destruct (exec _ _ _ _ _ _ _ _ _ _ ls) as [c|c r| |]; try exact I; destruct H as [_ H];
    (split; [eapply v_acc; eauto|]; split; [eapply v_rej; eauto|];
     split; [eapply v_items_started; eauto | eapply v_items_seeds; eauto]).
Qed.
Print Assumptions counts_and_items_agree.

(** exactly one record per processed evaluation: a turn that processes a non-failed evaluation
    appends exactly one item, carrying that evaluation's seed and result and the id, value and
    meta-parameters of the in-flight individual; every other turn appends none *)
Theorem one_record_per_processed_evaluation :
  forall (V M T : Type) (tcmp : T -> T -> comparison) (mean : list T -> T) (hit : T -> bool)
         (max_pop min_reeval ss : nat) (budget : option N) (init_val : V) (os : N -> orc V M)
         (c : ctl V M T) (l : label T),
    match step tcmp mean hit max_pop min_reeval ss budget init_val os c l with
    | Cont c' | Ret c' _ =>
        match l with
        | LDone seed (OFail _) _ => c_items c' = c_items c
        | LDone seed o true =>
            exists i rest, take seed (c_infl c) = Some (i, rest) /\
              c_items c' = c_items c ++ [mkItem (i_id i) seed (i_val i) (i_meta i) (res_of o)]
        | _ => c_items c' = c_items c
        end
    | _ => True
    end.
Proof.
  intros. pose proof (push_fields V M T min_reeval ss init_val os) as PF.
  destruct l as [seed o ok| |]; cbn [step].
  - destruct (take seed (c_infl c)) as [[i rest]|] eqn:Ht; [|exact I].
    unfold done_turn. destruct o as [x| |e].
    + unfold ok_turn. destruct ok; cbn [negb]; [|reflexivity].
      match goal with |- context [process ?a ?b ?c ?d ?e ?f ?g] => destruct (process a b c d e f g) as [a'|] end; [|exact I].
      unfold decide.
      repeat match goal with |- context [if ?b then _ else _] => destruct b end;
        try (exists i, rest; split; [reflexivity|]; reflexivity).
      exists i, rest. split; [reflexivity|].
      match goal with |- context [push _ _ _ _ ?cc] => destruct (PF cc) as (_ & _ & _ & _ & _ & _ & _ & _ & _ & P10); rewrite P10 end.
      reflexivity.
    + unfold ok_turn. destruct ok; cbn [negb]; [|reflexivity].
      match goal with |- context [process ?a ?b ?c ?d ?e ?f ?g] => destruct (process a b c d e f g) as [a'|] end; [|exact I].
      unfold decide.
      repeat match goal with |- context [if ?b then _ else _] => destruct b end;
        try (exists i, rest; split; [reflexivity|]; reflexivity).
      exists i, rest. split; [reflexivity|].
      match goal with |- context [push _ _ _ _ ?cc] => destruct (PF cc) as (_ & _ & _ & _ & _ & _ & _ & _ & _ & P10); rewrite P10 end.
      reflexivity.
    + unfold fail_turn. cbn. destruct (c_aborted c); reflexivity.
  - reflexivity.
  - destruct (c_infl c); [reflexivity|exact I].
Qed.
Print Assumptions one_record_per_processed_evaluation.

Definition ex_os : N -> orc nat unit := fun s => mkOrc false (N.to_nat s) tt.
Example counts_nonvacuous :
  match exec Z.compare (fun l => hd 0%Z l) (fun _ => false) 100 20 1 (Some 3%N) 7 ex_os
             (init Z 20 1 2%N (Some 3%N) 7 ex_os)
             [LDone 1%N (OVal 5%Z) true; LDone 0%N OReject true; LDone 2%N (OVal 4%Z) true]
  with Ret c r => length (c_items c) = 3 /\ c_acc c = 2%N /\ c_rej c = 1%N | _ => False end.
Proof. vm_compute. repeat split. Qed.

(** ** adaptive parameters of a record: probabilities in [0,1].
    [meta_adapt::mutate] multiplies each field by [10^exponent] clamped to [floor, ceil] and cuts
    the three probabilities at 1 (shape regenerated from the source); [f1..f4] stand for the four
    factors, arbitrary floats (every state of the RNG, also NaN and infinities). *)
From Flocq Require Import IEEE754.BinarySingleNaN.
From Cambrian Require Import Base.F64 MetaAdapt.
Example rescale_shape : rescale_is_clamped_product = true.  Proof. reflexivity. Qed.
Example mutate_shape : meta_mutate_rescales_each_field = true.  Proof. reflexivity. Qed.
Example exploratory_shape : exploratory_is_mutated_base = true.  Proof. reflexivity. Qed.
Example prob_cut_at_one : rescale_prob_clamped_to_one = true.  Proof. reflexivity. Qed.

Theorem adaptive_probabilities_stay_in_unit :
  forall m f1 f2 f3 f4, m_valid m = true -> m_valid (meta_mutate m f1 f2 f3 f4) = true.
Proof. intros. apply meta_mutate_valid; [reflexivity|assumption]. Qed.
Print Assumptions adaptive_probabilities_stay_in_unit.

Theorem exploratory_probabilities_in_unit :
  forall f1 f2 f3 f4, m_valid (exploratory f1 f2 f3 f4) = true.
Proof. intros. apply exploratory_valid. reflexivity. Qed.
Print Assumptions exploratory_probabilities_in_unit.

(** the mutation scale never becomes negative or NaN (the factor [10^exponent] is not NaN) *)
Theorem mutation_scale_never_negative_or_nan_partial :
  forall s f, fin s = true -> Bsign s = false -> fnan f = false ->
    fnan (rescale s f) = false /\ fle fzero (rescale s f) = true.
Proof. exact rescale_scale_sign. Qed.
Print Assumptions mutation_scale_never_negative_or_nan_partial.

(** ... and stays finite and strictly positive as long as it was within [2^-900, 2^900] before
    the step (from 1.0 that takes at least 22 consecutive extreme factors) *)
Theorem mutation_scale_stays_positive_finite_in_range :
  forall s f, fin s = true -> fle tame_lo s = true -> fle s tame_hi = true -> fnan f = false ->
    fin (rescale s f) = true /\ flt fzero (rescale s f) = true.
Proof. exact rescale_keeps_pos_fin. Qed.
Print Assumptions mutation_scale_stays_positive_finite_in_range.

(** ** every record.  [next_meta_params] returns the user's override, an exploratory set, or the
    meta parameters of a population member, mutated or not (shape regenerated from the source).
    Population members were created under earlier seeds, so: if the meta parameters the oracle
    stream hands out under seed [n] are generated that way from those of earlier seeds, then in
    every reachable state of every run every record's adaptive probabilities are in [0,1]. *)
From Cambrian Require Import CtlConf.
Example next_meta_params_shape : next_meta_params_is_override_exploratory_or_selected = true.  Proof. reflexivity. Qed.

Definition meta_gen (ov : option mparams) (earlier : mparams -> Prop) (m : mparams) : Prop :=
  (exists mo, ov = Some mo /\ m = mo) \/
  (exists f1 f2 f3 f4, m = exploratory f1 f2 f3 f4) \/
  (exists m0, earlier m0 /\ (m = m0 \/ exists f1 f2 f3 f4, m = meta_mutate m0 f1 f2 f3 f4)).

Lemma oracle_metas_valid (V : Type) (ov : option mparams) (os : N -> orc V mparams) :
  (forall mo, ov = Some mo -> m_valid mo = true) ->
  (forall n, meta_gen ov (fun m0 => exists k, (k < n)%N /\ m0 = o_meta (os k)) (o_meta (os n))) ->
  forall n, m_valid (o_meta (os n)) = true.
Proof.
  intros Hov Hgen n. induction n as [n IH] using (well_founded_induction N.lt_wf_0).
  destruct (Hgen n) as [(mo & Eo & ->)|[(f1 & f2 & f3 & f4 & ->)|(m0 & (k & Hk & ->) & [->|(f1 & f2 & f3 & f4 & ->)])]].
  - apply Hov. exact Eo.
  - apply exploratory_valid. reflexivity.
  - apply IH. exact Hk.
  - apply meta_mutate_valid; [reflexivity|]. apply IH. exact Hk.
Qed.

Theorem every_record_has_valid_probabilities :
  forall (V T : Type) (tcmp : T -> T -> comparison) (mean : list T -> T) (hit : T -> bool)
         (max_pop min_reeval ss : nat) (nc : N) (budget : option N) (init_val : V)
         (ov : option mparams) (os : N -> orc V mparams),
    (forall mo, ov = Some mo -> m_valid mo = true) ->
    (forall n, meta_gen ov (fun m0 => exists k, (k < n)%N /\ m0 = o_meta (os k)) (o_meta (os n))) ->
    forall (ls : list (label T)),
    match exec tcmp mean hit max_pop min_reeval ss budget init_val os
               (init T min_reeval ss nc budget init_val os) ls with
    | Cont c | Ret c _ => forall it m, In it (c_items c) -> it_meta it = Some m -> m_valid m = true
    | _ => True
    end.
Proof.
  intros V T tcmp mean hit max_pop min_reeval ss nc budget init_val ov os Hov Hgen ls.
  apply (item_metas_good V mparams T tcmp mean hit max_pop min_reeval ss nc budget init_val os
           (fun m => m_valid m = true) (oracle_metas_valid V ov os Hov Hgen) ls).
Qed.
Print Assumptions every_record_has_valid_probabilities.

Example meta_valid_somewhere : m_valid expl_base = true /\ fin (m_mscale expl_base) = true.
Proof. vm_compute. split; reflexivity. Qed.
Example scale_range_nonvacuous : fle tame_lo (m_mscale expl_base) = true /\ fle (m_mscale expl_base) tame_hi = true.
Proof. vm_compute. split; reflexivity. Qed.

(** ** the files.  [Writer.wrun] is [handle_detailed_report_items] over the items the controller
    sent: after any prefix of them (hence also when the run fails later) the CSV holds exactly
    those items, in order, and the best-seen file holds the parameter set of an item whose
    objective is <= the objective of every item received so far (none if no item had a value). *)
From Cambrian Require Import Writer.
Theorem csv_and_best_seen_file_consistent :
  forall (V M T : Type) (tcmp : T -> T -> comparison),
    (forall a b : T, tcmp b a = CompOpp (tcmp a b)) ->
    (forall a b c : T, tcmp a b <> Gt -> tcmp b c <> Gt -> tcmp a c <> Gt) ->
    forall its : list (item V M T),
      w_rows V M T (wrun V M T tcmp its) = its /\
      match w_best V M T (wrun V M T tcmp its) with
      | None => forall it, In it its -> it_res it = None
      | Some (v, b) =>
          (exists it, In it its /\ it_res it = Some b /\ it_val it = v) /\
          (forall it y, In it its -> it_res it = Some y -> tcmp b y <> Gt)
      end.
Proof. intros V M T tcmp H1 H2 its. exact (writer_files_consistent V M T tcmp H1 H2 its). Qed.
Print Assumptions csv_and_best_seen_file_consistent.

(** sample size 1: the best-seen file's objective equals the final report's *)
Theorem best_seen_file_matches_report_ss1 :
  forall (V M T : Type) (tcmp : T -> T -> comparison) (mean : list T -> T) (hit : T -> bool)
         (nc : N) (budget : option N) (init_val : V) (os : N -> orc V M),
    (forall a b : T, tcmp b a = CompOpp (tcmp a b)) ->
    (forall a b c : T, tcmp a b <> Gt -> tcmp b c <> Gt -> tcmp a c <> Gt) ->
    (forall x : T, tcmp (mean [x]) x = Eq) ->
    forall (ls : list (label T)) (c : ctl V M T) (x : T) (v : V) (a b : N),
      exec tcmp mean hit max_pop_size min_pop_size_for_reeval 1 budget init_val os
           (init T min_pop_size_for_reeval 1 nc budget init_val os) ls = Ret c (ROk x v a b) ->
      exists vb xb, w_best V M T (wrun V M T tcmp (c_items c)) = Some (vb, xb) /\ tcmp xb x = Eq.
Proof.
  intros V M T tcmp mean hit nc budget init_val os Hsym Htr Hms ls c x v a b He.
  assert (Hpos : 1 <= max_pop_size) by (vm_compute; repeat constructor).
  destruct (best_is_evaluated_lemma V M T tcmp mean hit max_pop_size min_pop_size_for_reeval 1 nc budget init_val os
              (le_n 1) ls c x v a b He) as (id & s & _ & Hx & Hlen & _).
  destruct (vals_of V M T c id) as [|y0 [|]] eqn:Ev; try discriminate. clear Hlen.
  (* y0 is the result of a report item *)
  assert (Hy0 : exists it0, In it0 (c_items c) /\ it_res it0 = Some y0).
  { assert (Hin : In y0 (vals_of V M T c id)) by (rewrite Ev; left; reflexivity).
    unfold vals_of in Hin. apply in_flat_map in Hin. destruct Hin as (it0 & Hin0 & Hy).
    exists it0. split; [exact Hin0|]. destruct (N.eqb (it_id it0) id); [|destruct Hy].
    destruct (it_res it0) as [y|]; [|destruct Hy]. destruct Hy as [->|[]]. reflexivity. }
  destruct Hy0 as (it0 & Hin0 & Hres0).
  pose proof (writer_files_consistent V M T tcmp Hsym Htr (c_items c)) as [_ HW].
  destruct (w_best V M T (wrun V M T tcmp (c_items c))) as [[vb xb]|].
  - exists vb, xb. split; [reflexivity|]. destruct HW as [(itb & Hinb & Hresb & _) Hmin].
    assert (L1 : tcmp x xb <> Gt).
    { eapply (best_is_min_ss1_lemma V M T tcmp mean hit max_pop_size min_pop_size_for_reeval 1 nc budget init_val os);
        eauto. }
    assert (L2 : tcmp xb y0 <> Gt) by exact (Hmin it0 y0 Hin0 Hres0).
    assert (L3 : tcmp y0 x <> Gt).
    { subst x. rewrite Hsym, Hms. cbn. discriminate. }
    pose proof (Htr _ _ _ L2 L3) as L4.
    destruct (tcmp xb x) eqn:E; try reflexivity; [|congruence].
    exfalso. apply L1. rewrite Hsym, E. reflexivity.
  - rewrite (HW it0 Hin0) in Hres0. discriminate.
Qed.
Print Assumptions best_seen_file_matches_report_ss1.

Example writer_nonvacuous :
  let its := [mkItem 0%N 0%N 7 (None : option unit) (Some 5%Z); mkItem 1%N 1%N 8 None None;
              mkItem 2%N 2%N 9 None (Some 3%Z); mkItem 3%N 3%N 10 None (Some 3%Z)] in
  w_best nat unit Z (wrun nat unit Z Z.compare its) = Some (9, 3%Z) /\ length (w_rows nat unit Z (wrun nat unit Z Z.compare its)) = 4.
Proof. vm_compute. split; reflexivity. Qed.

(** ** when [launch_with_async_obj_func] returns.  The select loop awaits the writer after the
    run has completed, with a report or with an error (shape regenerated from the source); the
    writer loop is the one Writer.v models and the best-seen file is truncated before it is
    rewritten (same).  Whatever the interleaving of the controller's sends, the writer's turns
    and the time limit: on return the files are what the writer makes of every item sent. *)
From Cambrian Require Import Sync.
Example sync_drain_shape : sync_launch_drains_writer_before_return = true.  Proof. reflexivity. Qed.
Example writer_loop_shape : writer_is_row_then_best_on_strict_improvement = true.  Proof. reflexivity. Qed.
Example best_seen_write_shape : best_seen_file_is_truncated_then_written = true.  Proof. reflexivity. Qed.

Theorem files_complete_when_launch_returns :
  forall (V M T : Type) (tcmp : T -> T -> comparison) (evs : list (sev V M T)),
    let s := srun V M T tcmp (N.to_nat channel_buf_size) evs in
    sfinish V M T tcmp sync_launch_drains_writer_before_return s = wrun V M T tcmp (s_sent V M T s).
Proof. intros. apply drained_files_hold_all_sent. reflexivity. Qed.
Print Assumptions files_complete_when_launch_returns.

(** ... and before that the rows written are a prefix of the items sent *)
Theorem rows_written_so_far_are_a_prefix :
  forall (V M T : Type) (tcmp : T -> T -> comparison) (evs : list (sev V M T)),
    exists rest, s_sent V M T (srun V M T tcmp (N.to_nat channel_buf_size) evs) =
                 w_rows V M T (s_w V M T (srun V M T tcmp (N.to_nat channel_buf_size) evs)) ++ rest.
Proof. intros. apply rows_prefix. Qed.
Print Assumptions rows_written_so_far_are_a_prefix.

Example sync_nonvacuous :
  let a := mkItem 0%N 0%N 7 (None : option unit) (Some 5%Z) in
  let b := mkItem 1%N 1%N 8 (None : option unit) (Some 3%Z) in
  let s := srun nat unit Z Z.compare (N.to_nat channel_buf_size) [EvSend nat unit Z a; EvWrite nat unit Z; EvTimeout nat unit Z; EvSend nat unit Z b] in
  s_queue nat unit Z s = [b] /\ w_best nat unit Z (sfinish nat unit Z Z.compare true s) = Some (8, 3%Z).
Proof. vm_compute. split; reflexivity. Qed.

(** ** the bytes of best_seen.json.  [write_best_seen_file] truncates the file, hands the text to a
    background write and waits for it before returning (shape regenerated from the source):
    after any history the file holds exactly the text of the last rewrite -- never a stale text
    and never a mixture of two ([BestFile.unawaited_write_corrupts] shows both without the wait) *)
From Cambrian Require Import BestFile.
Example best_seen_write_is_awaited : best_seen_write_awaited = true.  Proof. reflexivity. Qed.
Theorem best_seen_file_holds_last_text :
  forall (A : Type) (evs : list (bev A)),
    b_pending A (brun A best_seen_write_awaited evs) = [] /\
    b_disk A (brun A best_seen_write_awaited evs) = last_text A evs.
Proof. intros. exact (awaited_file_is_last_text A evs). Qed.
Print Assumptions best_seen_file_holds_last_text.

(** ** end to end.  A run that returns (with a report or with an error), under any schedule of the
    select loop whose accepted sends are the controller's report items: the CSV holds exactly the
    items of the processed evaluations, in order, the final counters are the numbers of its
    records with and without a value, and the best-seen file is consistent with it. *)
Theorem files_agree_with_the_run :
  forall (V M T : Type) (tcmp : T -> T -> comparison) (mean : list T -> T) (hit : T -> bool)
         (max_pop min_reeval ss : nat) (nc : N) (budget : option N) (init_val : V) (os : N -> orc V M),
    1 <= ss ->
    (forall a b : T, tcmp b a = CompOpp (tcmp a b)) ->
    (forall a b c : T, tcmp a b <> Gt -> tcmp b c <> Gt -> tcmp a c <> Gt) ->
    forall (ls : list (label T)) (c : ctl V M T) (r : result V T) (evs : list (sev V M T)),
      exec tcmp mean hit max_pop min_reeval ss budget init_val os
           (init T min_reeval ss nc budget init_val os) ls = Ret c r ->
      s_sent V M T (srun V M T tcmp (N.to_nat channel_buf_size) evs) = c_items c ->
      let w := sfinish V M T tcmp sync_launch_drains_writer_before_return
                       (srun V M T tcmp (N.to_nat channel_buf_size) evs) in
      w_rows V M T w = c_items c /\
      c_acc c = n_some V M T (w_rows V M T w) /\ c_rej c = n_none V M T (w_rows V M T w) /\
      match w_best V M T w with
      | None => forall it, In it (c_items c) -> it_res it = None
      | Some (v, b) =>
          (exists it, In it (c_items c) /\ it_res it = Some b /\ it_val it = v) /\
          (forall it y, In it (c_items c) -> it_res it = Some y -> tcmp b y <> Gt)
      end.
Proof.
  intros V M T tcmp mean hit max_pop min_reeval ss nc budget init_val os Hss Hsym Htr ls c r evs He Hs w.
  assert (Hw : w = wrun V M T tcmp (c_items c)).
  { unfold w. rewrite <- Hs. apply drained_files_hold_all_sent. reflexivity. }
  pose proof (writer_files_consistent V M T tcmp Hsym Htr (c_items c)) as [Hrows Hbest].
  pose proof (counts_and_items_agree V M T tcmp mean hit max_pop min_reeval ss nc budget init_val os Hss ls) as Hc.
  rewrite He in Hc. destruct Hc as (Ha & Hr & _).
  rewrite Hw. rewrite Hrows. repeat split; try assumption.
Qed.
Print Assumptions files_agree_with_the_run.

Example files_agree_nonvacuous :
  match exec Z.compare (fun l => hd 0%Z l) (fun _ => false) 100 20 1 (Some 3%N) 7 ex_os
             (init Z 20 1 2%N (Some 3%N) 7 ex_os)
             [LDone 1%N (OVal 5%Z) true; LDone 0%N OReject true; LDone 2%N (OVal 4%Z) true]
  with
  | Ret c r =>
      let evs := EvSend nat unit Z (hd (mkItem 0%N 0%N 0 None None) (c_items c)) :: EvWrite nat unit Z ::
                 map (EvSend nat unit Z) (tl (c_items c)) in
      s_sent nat unit Z (srun nat unit Z Z.compare (N.to_nat channel_buf_size) evs) = c_items c /\ length (c_items c) = 3
  | _ => False
  end.
Proof. vm_compute. split; reflexivity. Qed.
