(** * C14  Counts, detailed report and best-seen file agree with what was evaluated
    (controller part: counts and report items). *)
From Coq Require Import List Arith NArith ZArith Bool Lia.
From Cambrian Require Import SourceFacts Ctl CtlProofs CtlStruct CtlMin.
Import ListNotations.

(** For every reachable state of every execution (any termination cause, concurrency, order):
    - the accepted / rejected counters equal the numbers of report items with / without a value;
    - every report item carries the id, seed and value of an evaluation that was created;
    - no seed is reported twice, and no reported seed is still in flight. *)
Theorem counts_and_items_agree :
  forall (V M T : Type) (tcmp : T -> T -> comparison) (mean : list T -> T) (hit : T -> bool)
         (max_pop min_reeval ss : nat) (nc : N) (budget : option N) (init_val : V) (os : N -> orc V M),
    1 <= ss ->
    forall (ls : list (label T)),
    match exec tcmp mean hit max_pop min_reeval ss budget init_val os
               (init T min_reeval ss nc budget init_val os) ls with
    | Cont c | Ret c _ =>
        c_acc c = n_some V M T (c_items c) /\ c_rej c = n_none V M T (c_items c) /\
        (forall it, In it (c_items c) -> In (it_id it, it_seed it, it_val it) (c_started c)) /\
        NoDup (map (fun it => it_seed it) (c_items c) ++ map fst (c_infl c))
    | _ => True
    end.
Proof.
  intros V M T tcmp mean hit max_pop min_reeval ss nc budget init_val os Hss ls.
  pose proof (P_reachable V M T tcmp mean hit max_pop min_reeval ss nc budget init_val os Hss ls) as H.
  destruct (exec _ _ _ _ _ _ _ _ _ _ ls) as [c|c r| |]; try exact I; destruct H as [_ H];
    (split; [eapply v_acc; eauto|]; split; [eapply v_rej; eauto|];
     split; [eapply v_items_started; eauto | eapply v_items_seeds; eauto]).
Qed.
Print Assumptions counts_and_items_agree.

(** exactly one record per processed evaluation: a turn that processes a non-failed evaluation
    appends exactly one item, carrying that evaluation's seed and result and the id, value and
    meta-parameters of the in-flight individual; every other turn appends none *)
Theorem one_record_per_processed_evaluation :
  forall (V M T : Type) (tcmp : T -> T -> comparison) (mean : list T -> T) (hit : T -> bool)
         (max_pop min_reeval ss : nat) (budget : option N) (init_val : V) (os : N -> orc V M)
         (c : ctl V M T) (l : label T),
    match step tcmp mean hit max_pop min_reeval ss budget init_val os c l with
    | Cont c' | Ret c' _ =>
        match l with
        | LDone seed (OFail _) _ => c_items c' = c_items c
        | LDone seed o true =>
            exists i rest, take seed (c_infl c) = Some (i, rest) /\
              c_items c' = c_items c ++ [mkItem (i_id i) seed (i_val i) (i_meta i) (res_of o)]
        | _ => c_items c' = c_items c
        end
    | _ => True
    end.
Proof.
  intros. pose proof (push_fields V M T min_reeval ss init_val os) as PF.
  destruct l as [seed o ok| |]; cbn [step].
  - destruct (take seed (c_infl c)) as [[i rest]|] eqn:Ht; [|exact I].
    unfold done_turn. destruct o as [x| |e].
    + unfold ok_turn. destruct ok; cbn [negb]; [|reflexivity].
      match goal with |- context [process ?a ?b ?c ?d ?e ?f ?g] => destruct (process a b c d e f g) as [a'|] end; [|exact I].
      unfold decide.
      repeat match goal with |- context [if ?b then _ else _] => destruct b end;
        try (exists i, rest; split; [reflexivity|]; reflexivity).
      exists i, rest. split; [reflexivity|].
      match goal with |- context [push _ _ _ _ ?cc] => destruct (PF cc) as (_ & _ & _ & _ & _ & _ & _ & _ & _ & P10); rewrite P10 end.
      reflexivity.
    + unfold ok_turn. destruct ok; cbn [negb]; [|reflexivity].
      match goal with |- context [process ?a ?b ?c ?d ?e ?f ?g] => destruct (process a b c d e f g) as [a'|] end; [|exact I].
      unfold decide.
      repeat match goal with |- context [if ?b then _ else _] => destruct b end;
        try (exists i, rest; split; [reflexivity|]; reflexivity).
      exists i, rest. split; [reflexivity|].
      match goal with |- context [push _ _ _ _ ?cc] => destruct (PF cc) as (_ & _ & _ & _ & _ & _ & _ & _ & _ & P10); rewrite P10 end.
      reflexivity.
    + unfold fail_turn. cbn. destruct (c_aborted c); reflexivity.
  - reflexivity.
  - destruct (c_infl c); [reflexivity|exact I].
Qed.
Print Assumptions one_record_per_processed_evaluation.

Definition ex_os : N -> orc nat unit := fun s => mkOrc false (N.to_nat s) tt.
Example counts_nonvacuous :
  match exec Z.compare (fun l => hd 0%Z l) (fun _ => false) 100 20 1 (Some 3%N) 7 ex_os
             (init Z 20 1 2%N (Some 3%N) 7 ex_os)
             [LDone 1%N (OVal 5%Z) true; LDone 0%N OReject true; LDone 2%N (OVal 4%Z) true]
  with Ret c r => length (c_items c) = 3 /\ c_acc c = 2%N /\ c_rej c = 1%N | _ => False end.
Proof. vm_compute. repeat split. Qed.
