(** * C16  Command-line and child-process protocol (decision tables; clap, serde_json's text layer,
    execve and the file system are exercised by the CLI stream, not modelled). *)
From Coq Require Import String.
From Coq Require Import List ZArith NArith Bool.
From Cambrian Require Import Base.F64 SourceFacts Syntax SpecBuild Codec Cli CliProofs.
Import ListNotations.
Local Open Scope string_scope.

Example result_must_be_object : child_result_must_be_object = true.
Proof. reflexivity. Qed.
(** [get_child_result] collects both pipes to the end, looks at the exit status first, then reads
    the whole of stdout as one JSON document that must be an object of the strict result type:
    the decision [classify_child] models (shape regenerated from the source) *)
Example child_result_decision : child_result_decision_shape = true.
Proof. reflexivity. Qed.
(** the best-seen file is truncated before it is rewritten (one JSON document at any time) *)
Example best_seen_write_shape : best_seen_file_is_truncated_then_written = true.
Proof. reflexivity. Qed.

(** child argv: the user arguments, then the JSON parameters, then the decimal seed *)
Theorem argv_is_args_json_seed :
  forall args j seed,
    length (argv_of args j seed) = S (S (length args)) /\
    firstn (length args) (argv_of args j seed) = args /\
    skipn (length args) (argv_of args j seed) = [j; Codec.N2s seed].
Proof. exact argv_shape. Qed.
Print Assumptions argv_is_args_json_seed.

(** accepted results are exactly the objects {"objFuncVal": number}; null or absent is a rejection;
    a non-zero exit, a non-JSON output, an unknown or additional field, or any non-object
    document is a failure *)
Theorem child_result_classes :
  (forall d x, classify_child true d = CAccept x <->
               exists v, d = DocJson (JObj [("objFuncVal", v)]) /\ num_of v = Some x /\ v <> JNull) /\
  classify_child true (DocJson (JObj [("objFuncVal", JNull)])) = CReject /\
  classify_child true (DocJson (JObj [])) = CReject /\
  (forall d, classify_child false d = CFail) /\
  classify_child true DocNotJson = CFail /\
  (forall k v, k <> "objFuncVal" -> classify_child true (DocJson (JObj [(k, v)])) = CFail) /\
  (forall a b r, classify_child true (DocJson (JObj (a :: b :: r))) = CFail) /\
  (forall j, (forall m, j <> JObj m) -> classify_child true (DocJson j) = CFail).
Proof.
  split; [intros; apply class_accept_iff; reflexivity|].
  repeat split; intros; first [reflexivity | apply class_fail_unknown_field; assumption
                               | apply class_fail_two_fields | apply class_fail_non_object; assumption].
Qed.
Print Assumptions child_result_classes.

(** invalid options are rejected before the launch; an existing output directory without --force is
    refused before it is touched; the launch happens only when every option is valid *)
Theorem cli_decision_table :
  (forall o, co_ss_zero o = true \/ co_nc_zero o = true \/ co_bad_terminate_after o = true \/ co_outdir o = ODExisting \/
             co_spec_ok o = false \/ co_bad_kill_after o = true \/ co_guess_json_ok o = false ->
             exists t, pre_launch o = PreError t) /\
  (forall o, co_ss_zero o = false -> co_nc_zero o = false -> co_bad_terminate_after o = false ->
             co_outdir o = ODExisting -> pre_launch o = PreError false) /\
  (forall o, pre_launch o = PreLaunch ->
             co_ss_zero o = false /\ co_nc_zero o = false /\ co_bad_terminate_after o = false /\ co_outdir o <> ODExisting /\
             co_spec_ok o = true /\ co_bad_kill_after o = false /\ co_guess_json_ok o = true).
Proof.
  split; [exact pre_invalid_options_rejected|]. split; [exact pre_existing_dir_untouched | exact pre_launch_only_if_valid].
Qed.
Print Assumptions cli_decision_table.

(** ** the bytes of best_seen.json.  [write_best_seen_file] truncates the file, hands the text to a
    background write and waits for it before returning (shape regenerated from the source):
    after any history the file holds exactly the text of the last rewrite -- never a stale text
    and never a mixture of two ([BestFile.unawaited_write_corrupts] shows both without the wait) *)
From Cambrian Require Import BestFile.
Example best_seen_write_is_awaited : best_seen_write_awaited = true.  Proof. reflexivity. Qed.
Theorem best_seen_file_holds_last_text :
  forall (A : Type) (evs : list (bev A)),
    b_pending A (brun A best_seen_write_awaited evs) = [] /\
    b_disk A (brun A best_seen_write_awaited evs) = last_text A evs.
Proof. intros. exact (awaited_file_is_last_text A evs). Qed.
Print Assumptions best_seen_file_holds_last_text.
