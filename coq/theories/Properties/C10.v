(** * C10  Spec parsing: total, faithful, and accepts only well-formed parameter spaces.
    The model input is the serde_yaml::Value tree (text -> tree is serde_yaml's job and is
    exercised by the correspondence stream, not modelled). *)
From Coq Require Import String.
From Coq Require Import List ZArith NArith Bool.
From Cambrian Require Import Base.F64 SourceFacts Syntax SpecBuild SpecProofs SpecFaithful.
Import ListNotations.
Local Open Scope string_scope.

(** regenerated from src/spec_util.rs on every run: both passes over a sub use the same
    type-definition prefix, and enum values are checked for two distinct ones *)
Example typedef_prefixes_agree :
  typedef_prefix_pass1 = "typeDef " /\ typedef_prefix_pass2 = "typeDef " /\ typedef_strip_prefix = "typeDef ".
Proof. repeat split; reflexivity. Qed.
Example enum_distinct_checked : enum_values_checked_distinct = true.
Proof. reflexivity. Qed.

(** parsing is a total function of the document tree: every tree is accepted with a spec or
    rejected with one of the listed errors (there is no third outcome in the model: each
    [unwrap()] of the source is guarded by a preceding mandatory extraction) *)
Theorem build_total : forall y, (exists s, build y = Ok s) \/ (exists e, build y = Err e).
Proof. intros y. destruct (build y) as [s|e]; [left|right]; eauto. Qed.
Print Assumptions build_total.

(** every accepted document yields a well-formed parameter space: min < max, init within
    bounds, finite numbers, strictly positive scale, at least two distinct enum values, at
    least two variant options with a declared initial option, array size >= 2, consistent map
    size bounds, distinct member names, nested specs well-formed *)
Theorem accepted_is_wellformed : forall y s, build y = Ok s -> wf s = true.
Proof. exact build_wf. Qed.
Print Assumptions accepted_is_wellformed.

(** hence its initial value conforms to it *)
Theorem wellformed_init_conforms : forall s, wf s = true -> conforms s (init_val s) = true.
Proof. exact wf_init_conforms. Qed.
Print Assumptions wellformed_init_conforms.

Theorem accepted_initial_value_conforms : forall y s, build y = Ok s -> conforms s (init_val s) = true.
Proof. exact accepted_init_conforms. Qed.
Print Assumptions accepted_initial_value_conforms.

(** rejections (instances of the rules; computed) *)
Definition doc_real (mn mx i sc : Z) : yaml :=
  YMap [(YStr "type", YStr "real"); (YStr "min", YInt mn); (YStr "max", YInt mx); (YStr "init", YInt i); (YStr "scale", YInt sc)].
Example rejects_min_eq_max : build (doc_real 1 1 1 1) = Err EInvalidBounds.
Proof. vm_compute. reflexivity. Qed.
Example rejects_init_outside : build (doc_real 0 2 3 1) = Err EInitNotWithinBounds.
Proof. vm_compute. reflexivity. Qed.
Example rejects_zero_scale : build (doc_real 0 2 1 0) = Err EScaleMustBeStrictlyPositive.
Proof. vm_compute. reflexivity. Qed.
Example rejects_equal_enum_values :
  build (YMap [(YStr "type", YStr "enum"); (YStr "values", YSeq [YStr "a"; YStr "a"]); (YStr "init", YStr "a")])
  = Err ENotEnoughEnumValues.
Proof. vm_compute. reflexivity. Qed.
Example rejects_unknown_attribute :
  build (YMap [(YStr "type", YStr "bool"); (YStr "init", YBool true); (YStr "bogus", YInt 1)]) = Err EUnexpectedAttribute.
Proof. vm_compute. reflexivity. Qed.
Example rejects_unknown_type : build (YMap [(YStr "type", YStr "nope")]) = Err EUnknownTypeName.
Proof. vm_compute. reflexivity. Qed.

(** type definitions: hoisted within a sub, visible to later definitions and to nested subs,
    shadowed by inner definitions; a member named like "typeDefault" is a member *)
Example typedefs_hoisted_and_shadowed :
  build (YMap [(YStr "a", YMap [(YStr "type", YStr "t")]);
               (YStr "typeDef t", YMap [(YStr "type", YStr "bool"); (YStr "init", YBool true)]);
               (YStr "typeDefault", YMap [(YStr "type", YStr "const")]);
               (YStr "inner", YMap [(YStr "typeDef t", YMap [(YStr "type", YStr "const")]);
                                    (YStr "b", YMap [(YStr "type", YStr "t")])])])
  = Ok (SSub [("a", SBool true); ("typeDefault", SConst); ("inner", SSub [("b", SConst)])]).
Proof. vm_compute. reflexivity. Qed.

(** ** every declared parameter present.  For an accepted sub (inline or [type: sub]): the members
    are exactly the document's entries whose string key is neither [type] nor a type definition;
    the spec under a name is what the last entry of that name builds to, in the sub's own scope
    (outer definitions plus the sub's definitions, whatever their position: hoisting).  Likewise the
    options of a variant are its entries other than [type] and [init]. *)
Theorem every_declared_parameter_is_present :
  forall f e m ms,
    build_node (S f) e (YMap m) = Ok (SSub ms) ->
    (yget "type" m = None \/ exists t, yget "type" m = Some t /\ as_str t = Some "sub"%string) ->
    forall k, (exists s, slookup k ms = Some s) <-> (exists v, last_decl sub_skip m k = Some v).
Proof. exact declared_iff_member. Qed.
Print Assumptions every_declared_parameter_is_present.

Theorem members_are_built_in_the_subs_scope :
  forall f e m ms,
    build_node (S f) e (YMap m) = Ok (SSub ms) ->
    (yget "type" m = None \/ exists t, yget "type" m = Some t /\ as_str t = Some "sub"%string) ->
    exists e', defs_loop (build_node f) m e = Ok e' /\
      forall k, slookup k ms = match last_decl sub_skip m k with
                               | Some v => built (build_node f e') v
                               | None => None
                               end.
Proof. exact sub_members_are_the_declared_ones. Qed.
Print Assumptions members_are_built_in_the_subs_scope.

Theorem variant_options_are_the_declared_entries :
  forall f e m os i,
    build_node (S f) e (YMap m) = Ok (SVariant os i) ->
    (exists t, yget "type" m = Some t /\ as_str t = Some "variant"%string) ->
    forall k, slookup k os = match last_decl variant_skip m k with
                             | Some v => built (build_node f e) v
                             | None => None
                             end.
Proof. exact variant_options_are_the_declared_ones. Qed.
Print Assumptions variant_options_are_the_declared_entries.

