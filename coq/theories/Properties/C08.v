(** * C08  Unique seeds, stable individual identity, bounded sampling, initial value first. *)
From Coq Require Import List Arith NArith ZArith Bool Lia.
From Cambrian Require Import SourceFacts Ctl CtlProofs CtlStruct.
Import ListNotations.

(** For every reachable state (running or returned) of every execution, the log of created
    evaluations (id, seed, value) satisfies:
    - seeds are 0,1,2,... in creation order (hence pairwise distinct);
    - two evaluations with the same id carry the same value;
    - no id occurs more than [ss] times;
    - ids are below the id counter, and a fresh individual gets the counter's value;
    - the first evaluation has id 0, seed 0 and the initial value. *)
Theorem start_log_wellformed :
  forall (V M T : Type) (tcmp : T -> T -> comparison) (mean : list T -> T) (hit : T -> bool)
         (max_pop min_reeval ss : nat) (nc : N) (budget : option N) (init_val : V) (os : N -> orc V M),
    1 <= ss ->
    forall (ls : list (label T)),
    match exec tcmp mean hit max_pop min_reeval ss budget init_val os
               (init T min_reeval ss nc budget init_val os) ls with
    | Cont c | Ret c _ =>
        map (fun x => snd (fst x)) (c_started c) = map N.of_nat (seq 0 (length (c_started c))) /\
        (forall id s v s' v', In (id, s, v) (c_started c) -> In (id, s', v') (c_started c) -> v = v') /\
        (forall j, length (filter (fun x => N.eqb (fst (fst x)) j) (c_started c)) <= ss) /\
        (forall id s v, In (id, s, v) (c_started c) -> (id < a_next_id (c_algo c))%N) /\
        (forall x, nth_error (c_started c) 0 = Some x -> x = (0%N, 0%N, init_val))
    | _ => True
    end.
Proof.
  intros V M T tcmp mean hit max_pop min_reeval ss nc budget init_val os Hss ls.
  pose proof (InvS_reachable V M T tcmp mean hit max_pop min_reeval ss nc budget init_val os Hss ls) as H.
  destruct (exec _ _ _ _ _ _ _ _ _ _ ls) as [c|c r| |]; try exact I;
    (split; [apply (s_seeds _ _ _ _ _ _ H)|]; split; [apply (s_same_val _ _ _ _ _ _ H)|];
     split; [apply (s_cnt _ _ _ _ _ _ H)|]; split; [apply (s_started_lt _ _ _ _ _ _ H) | apply (s_first _ _ _ _ _ _ H)]).
Qed.
Print Assumptions start_log_wellformed.

(** The [unreachable!()] branches of [transition_state]/[next_individual] are never taken:
    no reachable state steps to [Panic]. *)
Theorem controller_never_panics :
  forall (V M T : Type) (tcmp : T -> T -> comparison) (mean : list T -> T) (hit : T -> bool)
         (max_pop min_reeval ss : nat) (nc : N) (budget : option N) (init_val : V) (os : N -> orc V M),
    1 <= ss ->
    forall (ls : list (label T)),
    exec tcmp mean hit max_pop min_reeval ss budget init_val os
         (init T min_reeval ss nc budget init_val os) ls <> Panic.
Proof.
  intros V M T tcmp mean hit max_pop min_reeval ss nc budget init_val os Hss ls.
  pose proof (InvS_reachable V M T tcmp mean hit max_pop min_reeval ss nc budget init_val os Hss) as HR.
  assert (G : forall ls c, InvS V M T ss init_val c ->
              exec tcmp mean hit max_pop min_reeval ss budget init_val os c ls <> Panic).
  { induction ls0 as [|l ls0 IH]; intros c Hc; cbn [exec]; [discriminate|].
    pose proof (no_panic V M T tcmp mean hit max_pop min_reeval ss budget init_val os c l Hc) as Hn.
    pose proof (InvS_step V M T tcmp mean hit max_pop min_reeval ss budget init_val os Hss c l Hc) as Hs.
    destruct (step _ _ _ _ _ _ _ _ _ c l) as [c'|c' r| |]; try discriminate; [apply IH; exact Hs | contradiction]. }
  apply G. specialize (HR []). exact HR.
Qed.
Print Assumptions controller_never_panics.

(** Non-vacuity: sample size 2, a population of 20 Ready individuals, the re-evaluation draw
    [true]: the next evaluation re-uses id 0 with its value; the log stays well-formed. *)
Definition ex_os (s : N) : orc nat unit := mkOrc (N.leb 21 s) (N.to_nat s) tt.
Definition ex_labels : list (label Z) :=
  map (fun k => LDone (N.of_nat k) (OVal (Z.of_nat k)) true) (seq 0 21).
Example reevaluation_happens :
  match exec Z.compare (fun l => hd 0%Z l) (fun _ => false) 100 20 2 None 7 ex_os
             (init Z 20 2 1%N None 7 ex_os) ex_labels with
  | Cont c => nth_error (c_started c) 21 = Some (0%N, 21%N, 7)
  | _ => False
  end.
Proof. vm_compute. reflexivity. Qed.
