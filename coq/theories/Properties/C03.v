(** * C03  The evaluation budget is never exceeded and is used exactly.
    Only statements, each closed by [exact] of a lemma from CtlProofs, with its
    assumptions printed. *)
From Coq Require Import List NArith ZArith Bool.
From Cambrian Require Import Ctl CtlProofs.
Import ListNotations.

(** Whatever the value/meta/objective types, ordering, mean, target predicate,
    static parameters, sample size, concurrency, initial value, oracle stream
    (= RNG) and label sequence (= outcomes and completion order): at most [n]
    evaluations are ever created, and the counter the controller tests is the
    number created. *)
Theorem starts_le_budget :
  forall (V M T : Type) (tcmp : T -> T -> comparison) (mean : list T -> T) (hit : T -> bool)
         (max_pop min_reeval ss : nat) (nc n : N) (init_val : V) (os : N -> orc V M)
         (ls : list (label T)),
    match exec tcmp mean hit max_pop min_reeval ss (Some n) init_val os
               (init T min_reeval ss nc (Some n) init_val os) ls with
    | Cont c | Ret c _ =>
        (N.of_nat (length (c_started c)) <= n)%N /\ c_pushed c = N.of_nat (length (c_started c))
    | _ => True
    end.
Proof. intros. apply starts_le_budget_lemma. reflexivity. Qed.
Print Assumptions starts_le_budget.

(** If the run returned and nothing but the budget ended it (no failure or
    terminate request was processed, the report consumer stayed, the target
    criterion did not fire), exactly [n] evaluations were created and the
    accepted and rejected counts sum to [n]; the report carries those counts. *)
Theorem starts_eq_budget :
  forall (V M T : Type) (tcmp : T -> T -> comparison) (mean : list T -> T) (hit : T -> bool)
         (max_pop min_reeval ss : nat) (nc n : N) (init_val : V) (os : N -> orc V M)
         (ls : list (label T)) (c : ctl V M T) (r : result V T),
    (1 <= nc)%N ->
    exec tcmp mean hit max_pop min_reeval ss (Some n) init_val os
         (init T min_reeval ss nc (Some n) init_val os) ls = Ret c r ->
    c_aborted c = false -> c_failed c = 0%N -> hit_now hit c = false ->
    N.of_nat (length (c_started c)) = n /\ (c_acc c + c_rej c = n)%N /\
    match r with ROk _ _ a b => (a + b = n)%N | RErr e => e = ENoIndividuals end.
Proof. intros. eapply starts_eq_budget_lemma; eauto. Qed.
Print Assumptions starts_eq_budget.

(** Non-vacuity: a concrete run (Z-valued objective, budget 3, two at a time)
    that meets the hypotheses of [starts_eq_budget]. *)
Definition ex_os : N -> orc nat unit := fun s => mkOrc false (N.to_nat s) tt.
Definition ex_run :=
  exec Z.compare (fun l => hd 0%Z l) (fun _ => false) 100 20 1 (Some 3%N) 7 ex_os
       (init Z 20 1 2%N (Some 3%N) 7 ex_os)
       [LDone 1%N (OVal 5%Z) true; LDone 0%N OReject true; LDone 2%N (OVal 4%Z) true].
Example starts_eq_budget_nonvacuous :
  match ex_run with
  | Ret c r => c_aborted c = false /\ c_failed c = 0%N /\ hit_now (fun _ : Z => false) c = false /\
               r = ROk 4%Z 2 2%N 1%N /\ length (c_started c) = 3
  | _ => False
  end.
Proof. vm_compute. repeat split. Qed.

(** ** the budget reaches the controller.  [termination::compile] folds the caller's list of
    criteria into one record ([Termination.compile]); the budget passed to the controller is the
    record's.  For every list: compilation succeeds exactly when no kind of criterion occurs
    twice; a listed budget is the compiled budget, whatever else is listed and in whatever
    order. *)
From Cambrian Require Import Termination.
From Coq Require Import Permutation.
Theorem listed_budget_is_the_budget :
  forall l c n, compile l = Some c -> In (KNum n) l -> k_num c = Some n.
Proof. intros l c n H Hin. destruct (compile_keeps_every_criterion l c H) as [H1 _]. exact (H1 (KNum n) Hin). Qed.
Print Assumptions listed_budget_is_the_budget.

Theorem criteria_order_does_not_matter : forall l l', Permutation l l' -> compile l = compile l'.
Proof. exact compile_order_independent. Qed.
Print Assumptions criteria_order_does_not_matter.

Theorem criteria_compile_iff_no_kind_twice :
  forall l, (exists c, compile l = Some c) <-> NoDup (map kind l).
Proof. exact compile_succeeds_iff_no_kind_twice. Qed.
Print Assumptions criteria_compile_iff_no_kind_twice.

Example budget_then_time_limit :
  compile [KNum 5%N; KAfter 3600000%N] = Some (mkComp (Some 5%N) None (Some 3600000%N) false) /\
  compile [KAfter 3600000%N; KNum 5%N] = Some (mkComp (Some 5%N) None (Some 3600000%N) false) /\
  compile [KNum 5%N; KNum 5%N] = None.
Proof. vm_compute. repeat split. Qed.
