(** * CliProofs *)
From Coq Require Import String.
From Coq Require Import List ZArith NArith Bool Lia.
From Cambrian Require Import Base.F64 SourceFacts Syntax SpecBuild Codec Cli.
Import ListNotations.
Local Open Scope string_scope.

(** ** process groups *)
Lemma pstep_terminal guard s l : terminal s = true -> pstep guard s l = s.
Proof. destruct s; cbn; [discriminate| |]; reflexivity. Qed.

Lemma pexec_terminal guard ls : forall s, terminal s = true -> pexec guard s ls = s.
Proof.
  induction ls as [|l ls IH]; intros s H; cbn; [reflexivity|]. unfold pexec in IH.
  rewrite (pstep_terminal guard s l H). apply IH. exact H.
Qed.

(** with the guard, whenever the evaluation is over (returned or dropped) its group is empty *)
Lemma fold_terminal guard ls s : terminal s = true -> fold_left (pstep guard) ls s = s.
Proof. apply pexec_terminal. Qed.

Lemma guarded_terminal_empty ls : forall g,
  terminal (pexec true (PRunning g) ls) = true -> group_empty (group_of (pexec true (PRunning g) ls)) = true.
Proof.
  unfold pexec. induction ls as [|l ls IH]; intros g H; [cbn in H; discriminate|].
  cbn [fold_left] in *.
  destruct l; cbn [pstep] in *;
    try (rewrite fold_terminal in * by reflexivity; reflexivity);
    apply IH; exact H.
Qed.

(** without it a dropped future leaves the leader running, and a completed evaluation leaves its
    other group members running *)
Lemma unguarded_drop_survives :
  group_empty (group_of (pexec false (PRunning (mkPg true 0)) [LDrop])) = false.
Proof. reflexivity. Qed.
Lemma unguarded_grandchild_survives :
  group_empty (group_of (pexec false (PRunning (mkPg true 0)) [LFork; LLeaderExits])) = false.
Proof. reflexivity. Qed.

(** the timer / abort kills the whole group and the evaluation counts as rejected *)
Lemma timer_kills_and_rejects guard g :
  pstep guard (PRunning g) LTimer = PDone (mkPg false 0) true true /\
  pstep guard (PRunning g) LAbort = PDone (mkPg false 0) true true.
Proof. split; reflexivity. Qed.

(** an evaluation whose result arrives first is not killed by the timeout/abort branch, and later
    timer or abort labels change nothing *)
Lemma in_time_not_killed guard g ls :
  exists g', pexec guard (PRunning g) (LLeaderExits :: ls) = PDone g' false false.
Proof.
  unfold pexec. cbn [fold_left pstep]. eexists. apply fold_terminal. reflexivity.
Qed.

(** ** child results *)
Section Classes.
  Hypothesis must_be_object : child_result_must_be_object = true.

  Lemma class_accept_int z : classify_child true (DocJson (JObj [("objFuncVal", JInt z)])) = CAccept (f64_of_Z z).
  Proof. reflexivity. Qed.
  Lemma class_accept_float x : classify_child true (DocJson (JObj [("objFuncVal", JFloat x)])) = CAccept x.
  Proof. reflexivity. Qed.
  Lemma class_reject_null : classify_child true (DocJson (JObj [("objFuncVal", JNull)])) = CReject.
  Proof. reflexivity. Qed.
  Lemma class_reject_absent : classify_child true (DocJson (JObj [])) = CReject.
  Proof. reflexivity. Qed.
  Lemma class_fail_exit d : classify_child false d = CFail.
  Proof. reflexivity. Qed.
  Lemma class_fail_notjson : classify_child true DocNotJson = CFail.
  Proof. reflexivity. Qed.
  Lemma class_fail_two_fields a b r : classify_child true (DocJson (JObj (a :: b :: r))) = CFail.
  Proof. destruct a. reflexivity. Qed.
  Lemma class_fail_unknown_field k v : k <> "objFuncVal" -> classify_child true (DocJson (JObj [(k, v)])) = CFail.
  Proof. intros H. cbn. destruct (String.eqb k "objFuncVal") eqn:E; [apply String.eqb_eq in E; contradiction | reflexivity]. Qed.
  Lemma class_fail_non_object j : (forall m, j <> JObj m) -> classify_child true (DocJson j) = CFail.
  Proof.
    intros H. destruct j; try reflexivity.
    - cbn. destruct l as [|v [|]]; reflexivity.
    - exfalso. apply (H m). reflexivity.
  Qed.

  (** accepted results are exactly the one-field objects whose field is a number *)
  Lemma class_accept_iff d x :
    classify_child true d = CAccept x <->
    exists v, d = DocJson (JObj [("objFuncVal", v)]) /\ num_of v = Some x /\ v <> JNull.
  Proof.
    split.
    - destruct d as [j|]; [|discriminate]. destruct j; try discriminate.
      + cbn. destruct l as [|v [|]]; discriminate.
      + cbn. destruct m as [|[k v] [|]]; try discriminate.
        destruct (String.eqb k "objFuncVal") eqn:E; [|discriminate]. apply String.eqb_eq in E. subst.
        destruct v; try discriminate; cbn; intros H; inversion H; subst; eexists; repeat split; try reflexivity; discriminate.
    - intros (v & -> & Hn & Hv). cbn. destruct v; try discriminate; cbn in *; try congruence.
  Qed.
End Classes.

(** ** main(): checks before the launch *)
Lemma pre_existing_dir_untouched o : co_ss_zero o = false -> co_nc_zero o = false -> co_bad_terminate_after o = false ->
  co_outdir o = ODExisting -> pre_launch o = PreError false.
Proof. intros A B C D. unfold pre_launch. rewrite A, B, C, D. reflexivity. Qed.

Lemma pre_invalid_options_rejected o :
  co_ss_zero o = true \/ co_nc_zero o = true \/ co_bad_terminate_after o = true \/ co_outdir o = ODExisting \/
  co_spec_ok o = false \/ co_bad_kill_after o = true \/ co_guess_json_ok o = false ->
  exists t, pre_launch o = PreError t.
Proof.
  unfold pre_launch. intros H.
  destruct (co_ss_zero o) eqn:A; [eexists; reflexivity|]. destruct (co_nc_zero o) eqn:B; [eexists; reflexivity|].
  cbn. destruct (co_bad_terminate_after o) eqn:C; [eexists; reflexivity|].
  destruct (co_outdir o) eqn:D; try (eexists; reflexivity);
    (destruct (co_spec_ok o) eqn:E; cbn; [|eexists; reflexivity];
     destruct (co_bad_kill_after o) eqn:F; [eexists; reflexivity|];
     destruct (co_guess_json_ok o) eqn:G; cbn; [|eexists; reflexivity];
     destruct H as [H|[H|[H|[H|[H|[H|H]]]]]]; congruence).
Qed.

Lemma pre_launch_only_if_valid o : pre_launch o = PreLaunch ->
  co_ss_zero o = false /\ co_nc_zero o = false /\ co_bad_terminate_after o = false /\ co_outdir o <> ODExisting /\
  co_spec_ok o = true /\ co_bad_kill_after o = false /\ co_guess_json_ok o = true.
Proof.
  unfold pre_launch. destruct (co_ss_zero o), (co_nc_zero o); cbn; try discriminate.
  destruct (co_bad_terminate_after o); try discriminate.
  destruct (co_outdir o) eqn:D; try discriminate;
    (destruct (co_spec_ok o); cbn; try discriminate; destruct (co_bad_kill_after o); try discriminate;
     destruct (co_guess_json_ok o); cbn; try discriminate; intros _; repeat split; auto; discriminate).
Qed.

(** ** argv *)
Lemma argv_shape args j seed :
  length (argv_of args j seed) = S (S (length args)) /\
  firstn (length args) (argv_of args j seed) = args /\
  skipn (length args) (argv_of args j seed) = [j; Codec.N2s seed].
Proof.
  unfold argv_of. rewrite app_length. cbn. split; [lia|]. split.
  - rewrite firstn_app, Nat.sub_diag, firstn_all. cbn. apply app_nil_r.
  - rewrite skipn_app, Nat.sub_diag, skipn_all. reflexivity.
Qed.
