(** * Cli: the decision logic of [bin/cambrian.rs] and of [process.rs] that is logic
    (not OS behaviour): classification of a child's result, the order of the checks in [main],
    and the life cycle of one evaluation's process group. *)
From Coq Require Import String.
From Coq Require Import List ZArith NArith Bool Lia.
From Flocq Require Import IEEE754.BinarySingleNaN.
From Cambrian Require Import Base.F64 SourceFacts Syntax SpecBuild Codec.
Import ListNotations.
Local Open Scope string_scope.

(** ** child result: [get_child_result] *)
Inductive child_doc := DocJson (j : json) | DocNotJson.
Inductive child_class := CAccept (x : f64) | CReject | CFail.

(** [serde_json::from_slice::<ObjFuncChildResult>] with [deny_unknown_fields] and one optional
    field.  serde's derived [Deserialize] for a struct also accepts a sequence of the fields; when
    [child_result_must_be_object] (regenerated from the source) a non-object document is refused
    before the struct is read. *)
Definition num_of (j : json) : option f64 :=
  match j with JInt z => Some (f64_of_Z z) | JFloat x => Some x | _ => None end.

Definition classify_child (exit_ok : bool) (d : child_doc) : child_class :=
  if negb exit_ok then CFail else
  match d with
  | DocNotJson => CFail
  | DocJson (JObj []) => CReject
  | DocJson (JObj [(k, v)]) =>
      if String.eqb k "objFuncVal" then
        match v with
        | JNull => CReject
        | _ => match num_of v with Some x => CAccept x | None => CFail end
        end
      else CFail
  | DocJson (JObj _) => CFail
  | DocJson (JArr [v]) =>
      if child_result_must_be_object then CFail else
      match v with
      | JNull => CReject
      | _ => match num_of v with Some x => CAccept x | None => CFail end
      end
  | DocJson _ => CFail
  end.

(** ** argv of a child: program, user arguments, JSON text, decimal seed *)
Definition argv_of (user_args : list string) (json_text : string) (seed : N) : list string :=
  (user_args ++ [json_text; Codec.N2s seed])%list.

(** ** [main]: the order of the checks before anything is evaluated *)
Inductive outdir_mode := ODNone | ODNew | ODExisting | ODExistingForce.
Record cli_opts := mkOpts {
  co_nc_zero : bool;            (* --num-concurrent 0 *)
  co_ss_zero : bool;            (* --sample-size 0 *)
  co_bad_terminate_after : bool;
  co_outdir : outdir_mode;
  co_spec_ok : bool;            (* the spec file exists and parses to a spec *)
  co_bad_kill_after : bool;
  co_guess_json_ok : bool;      (* --initial-guess absent or valid JSON *)
  co_guess_conforms : bool;     (* ... and accepted by value_util::from_json_value *)
}.

Inductive pre_outcome :=
| PreError (outdir_touched : bool)     (* exits non-zero before any evaluation; was the output directory (re)created? *)
| PreLaunch.                           (* sync_launch is called *)

(** follows the statement order of [main] *)
Definition pre_launch (o : cli_opts) : pre_outcome :=
  if co_ss_zero o || co_nc_zero o then PreError false
  else if co_bad_terminate_after o then PreError false
  else match co_outdir o with
       | ODExisting => PreError false
       | _ =>
           let touched := match co_outdir o with ODNone => false | _ => true end in
           if negb (co_spec_ok o) then PreError touched
           else if co_bad_kill_after o then PreError touched
           else if negb (co_guess_json_ok o) then PreError touched
           else PreLaunch
       end.

(** ** one evaluation's process group ([ObjFuncProcessDef::evaluate]) *)
Record pgroup := mkPg { pg_leader : bool; pg_others : nat }.   (* live leader?, live other members *)

Inductive pstate :=
| PRunning (g : pgroup)            (* spawned; select over child_result / timeout / abort pending *)
| PDone (g : pgroup) (killed : bool) (rejected : bool)   (* the evaluate future has returned *)
| PDropped (g : pgroup).           (* the future was dropped before returning *)

Inductive plabel :=
| LLeaderExits          (* the child exits and its pipes reach EOF: child_result becomes ready *)
| LFork                 (* a member forks another member *)
| LMemberExits
| LTimer                (* kill_obj_func_after elapsed *)
| LAbort                (* the abort broadcast is received *)
| LDrop.                (* the controller drops the future (target reached, early return) *)

Definition kill_group (g : pgroup) : pgroup := mkPg false 0.

(** [guard]: a value whose [Drop] kills the group, created right after the spawn
    ([process_group_guard_present], regenerated from the source) *)
Definition pstep (guard : bool) (s : pstate) (l : plabel) : pstate :=
  match s with
  | PRunning g =>
      match l with
      | LLeaderExits =>
          let g' := mkPg false (pg_others g) in
          PDone (if guard then kill_group g' else g') false false
      | LFork => PRunning (mkPg (pg_leader g) (S (pg_others g)))
      | LMemberExits => PRunning (mkPg (pg_leader g) (pred (pg_others g)))
      | LTimer | LAbort => PDone (kill_group g) true true
      | LDrop => PDropped (if guard then kill_group g else g)
      end
  | _ => s
  end.

Definition pexec (guard : bool) (s : pstate) (ls : list plabel) : pstate := fold_left (pstep guard) ls s.

Definition group_of (s : pstate) : pgroup :=
  match s with PRunning g | PDone g _ _ | PDropped g => g end.
Definition group_empty (g : pgroup) : bool := negb (pg_leader g) && Nat.eqb (pg_others g) 0.
Definition terminal (s : pstate) : bool := match s with PRunning _ => false | _ => true end.

(** ** reaping after the kill ([kill_and_reap_child_proc_group]).  The timeout and the abort arm
    send SIGKILL to the group and then wait for the leader.  The task that collects the child's
    output waits for the leader too once both pipes are at EOF -- at once if the child closed
    them itself -- so either of the two gets the zombie; the one that does not gets ECHILD.
    [tolerates_echild]: the arm takes ECHILD as "already reaped" (regenerated from the source). *)
Inductive reaper := ReapedByArm | ReapedByCollector.
Inductive arm_outcome := ARejected | AFailedToReap.
Definition reap_outcome (tolerates_echild : bool) (r : reaper) : arm_outcome :=
  match r with
  | ReapedByArm => ARejected
  | ReapedByCollector => if tolerates_echild then ARejected else AFailedToReap
  end.
