(** * MetaAdapt: [meta_adapt::mutate] / [create_exploratory] on binary64.

    [rescale(value)] multiplies by [10^exponent] clamped to [floor, ceil]; the
    exponent is a Cauchy sample, so the factor is modelled as an arbitrary float
    ([f1..f4] below: "for every state of the RNG").  [rescale_prob] cuts the
    result at 1.  Proved: the three adaptive probabilities stay valid Bernoulli
    parameters (in [0,1], not NaN) for every factor, also NaN and infinities;
    the mutation scale stays non-negative and not NaN for every non-NaN factor.
    Constants come from SourceFacts (regenerated from the source). *)
From Coq Require Import ZArith Reals Bool Lia Lra List.
From Flocq Require Import Core IEEE754.BinarySingleNaN.
From Cambrian Require Import Base.F64 Base.F64Proofs SourceFacts.

Definition mfloor : f64 := of_bits meta_rescale_floor_bits.
Definition mceil : f64 := of_bits meta_rescale_ceil_bits.

(** Rust [f64::clamp]: NaN stays NaN *)
Definition fclamp (lo hi x : f64) : f64 := if flt x lo then lo else if flt hi x then hi else x.

Definition rescale (value factor : f64) : f64 := fmul value (fclamp mfloor mceil factor).
Definition rescale_prob (value factor : f64) : f64 :=
  if rescale_prob_clamped_to_one then fmin (rescale value factor) fone else rescale value factor.

Record mparams := mkMp { m_cprob : f64; m_spress : f64; m_mprob : f64; m_mscale : f64 }.

Definition meta_mutate (m : mparams) (f1 f2 f3 f4 : f64) : mparams :=
  mkMp (rescale_prob (m_cprob m) f1) (rescale_prob (m_spress m) f2) (rescale_prob (m_mprob m) f3) (rescale (m_mscale m) f4).

Definition expl_base : mparams :=
  mkMp (of_bits expl_crossover_prob_bits) (of_bits expl_selection_pressure_bits)
       (of_bits expl_mutation_prob_bits) (of_bits expl_mutation_scale_bits).
Definition exploratory (f1 f2 f3 f4 : f64) : mparams := meta_mutate expl_base f1 f2 f3 f4.

Definition unit_ok (p : f64) : bool := fle fzero p && fle p fone.
Definition m_valid (m : mparams) : bool := unit_ok (m_cprob m) && unit_ok (m_spress m) && unit_ok (m_mprob m).

(** ** sign lemmas *)
Lemma nonneg_of_sign z : fnan z = false -> Bsign z = false -> fle fzero z = true.
Proof. destruct z as [s|s| |s m e H]; cbn; intros Hn Hs; try discriminate; subst; reflexivity. Qed.

Lemma fmul_sign x y :
  fin x = true -> fin y = true ->
  fnan (fmul x y) = false /\ Bsign (fmul x y) = xorb (Bsign x) (Bsign y).
Proof.
  intros Fx Fy. unfold fmul. pose proof (Bmult_correct 53 1024 prec_gt_0_53 prec_lt_emax_53 mode_NE x y) as H.
  destruct (Rlt_bool _ _).
  - destruct H as (_ & Hf & Hs). unfold fin in *. rewrite Fx, Fy in Hf. cbn in Hf.
    assert (Hn : is_nan (Bmult mode_NE x y) = false) by (destruct (Bmult mode_NE x y); cbn in *; congruence).
    split; [exact Hn | apply Hs; exact Hn].
  - unfold binary_overflow in H. cbn [overflow_to_inf] in H.
    destruct (Bmult mode_NE x y) as [s|s| |s m e Hb]; cbn in H; try discriminate.
    inversion H; subst. split; reflexivity.
Qed.

(** the clamped factor is NaN, or finite and positive *)
Lemma mfloor_shape : exists m e H, mfloor = B754_finite false m e H.
Proof. unfold mfloor. destruct (of_bits meta_rescale_floor_bits) as [s|s| |s m e H] eqn:E; try (vm_compute in E; discriminate).
  destruct s; [vm_compute in E; discriminate|]. eauto. Qed.
Lemma mceil_shape : exists m e H, mceil = B754_finite false m e H.
Proof. unfold mceil. destruct (of_bits meta_rescale_ceil_bits) as [s|s| |s m e H] eqn:E; try (vm_compute in E; discriminate).
  destruct s; [vm_compute in E; discriminate|]. eauto. Qed.

Lemma clamp_shape f :
  let c := fclamp mfloor mceil f in
  fnan c = true \/ (fin c = true /\ Bsign c = false /\ fnan f = false).
Proof.
  destruct mfloor_shape as (ml & el & Hl & El). destruct mceil_shape as (mh & eh & Hh & Eh).
  unfold fclamp. rewrite El, Eh.
  destruct f as [s|s| |s m e H].
  - (* zero < floor *) right. cbn. repeat split.
  - destruct s; cbn; right; repeat split.
  - left. reflexivity.
  - destruct s.
    + right. cbn. repeat split.
    + destruct (flt (B754_finite false m e H) (B754_finite false ml el Hl)); [right; cbn; repeat split|].
      destruct (flt (B754_finite false mh eh Hh) (B754_finite false m e H)); right; cbn; repeat split.
Qed.

(** ** probabilities stay in [0,1] *)
Lemma fone_shape : exists m e H, fone = B754_finite false m e H.
Proof. destruct fone as [s|s| |s m e H] eqn:E; try (vm_compute in E; discriminate).
  destruct s; [vm_compute in E; discriminate|]. eauto. Qed.
Lemma fone_not_nan : fnan fone = false.  Proof. vm_compute. reflexivity. Qed.

Lemma unit_shape v : unit_ok v = true -> fin v = true /\ (Bsign v = false \/ exists s, v = B754_zero s).
Proof.
  destruct fone_shape as (m1 & e1 & Hb1 & E1). unfold unit_ok. rewrite E1.
  intros H. apply andb_prop in H. destruct H as [H0 H1].
  destruct v as [s|s| |s m e Hb].
  - split; [reflexivity|]. right. eauto.
  - destruct s; [cbn in H0; discriminate | cbn in H1; discriminate].
  - cbn in H0. discriminate.
  - destruct s; [cbn in H0; discriminate|]. split; [reflexivity|left; reflexivity].
Qed.

Lemma one_unit : unit_ok fone = true.  Proof. vm_compute. reflexivity. Qed.

Lemma fmin_one_unit z : fnan z = true \/ fle fzero z = true -> unit_ok (fmin z fone) = true.
Proof.
  intros H. unfold fmin. destruct (fnan z) eqn:En; [exact one_unit|].
  destruct H as [H|H]; [discriminate|].
  rewrite fone_not_nan.
  destruct (flt fone z) eqn:E1; [exact one_unit|].
  unfold unit_ok. rewrite H. cbn [andb].
  (* not (1 < z), z not NaN: z <= 1 *)
  destruct fone_shape as (m1 & e1 & Hb1 & Eo). rewrite Eo in *.
  destruct z as [s|s| |s m e Hb]; try discriminate.
  - destruct s; reflexivity.
  - destruct s; [reflexivity | cbn in E1; discriminate].
  - apply flt_false_fle; [reflexivity|reflexivity|exact E1].
Qed.

Theorem rescale_prob_in_unit v f :
  rescale_prob_clamped_to_one = true -> unit_ok v = true -> unit_ok (rescale_prob v f) = true.
Proof.
  intros Hc Hv. unfold rescale_prob. rewrite Hc. apply fmin_one_unit. unfold rescale.
  destruct (unit_shape v Hv) as [Fv Sv].
  destruct (clamp_shape f) as [Hn|(Fc & Sc & _)].
  - left. destruct (fclamp mfloor mceil f); try discriminate. destruct v; reflexivity.
  - destruct (fmul_sign v (fclamp mfloor mceil f) Fv Fc) as [Hnn Hs].
    destruct Sv as [Sv|[s Ez]].
    + right. apply nonneg_of_sign; [exact Hnn|]. rewrite Hs, Sv, Sc. reflexivity.
    + right. subst v. destruct (fclamp mfloor mceil f) as [s'|s'| |s' m e Hb]; cbn in *; try discriminate.
      * destruct (xorb s s'); reflexivity.
      * destruct (xorb s s'); reflexivity.
Qed.

Theorem meta_mutate_valid m f1 f2 f3 f4 :
  rescale_prob_clamped_to_one = true -> m_valid m = true -> m_valid (meta_mutate m f1 f2 f3 f4) = true.
Proof.
  intros Hc H. unfold m_valid in *. apply andb_prop in H. destruct H as [H H3]. apply andb_prop in H. destruct H as [H1 H2].
  cbn [meta_mutate m_cprob m_spress m_mprob].
  rewrite !rescale_prob_in_unit by assumption. reflexivity.
Qed.

Lemma expl_base_valid : m_valid expl_base = true.  Proof. vm_compute. reflexivity. Qed.

Theorem exploratory_valid f1 f2 f3 f4 :
  rescale_prob_clamped_to_one = true -> m_valid (exploratory f1 f2 f3 f4) = true.
Proof. intros Hc. apply meta_mutate_valid; [exact Hc|exact expl_base_valid]. Qed.

(** ** the scale never becomes negative or NaN (for a non-NaN factor); it can reach 0 or
    infinity only through repeated extreme factors (floor^k, ceil^k) *)
Theorem rescale_scale_sign s f :
  fin s = true -> Bsign s = false -> fnan f = false ->
  fnan (rescale s f) = false /\ fle fzero (rescale s f) = true.
Proof.
  intros Fs Ss Nf. unfold rescale.
  destruct (clamp_shape f) as [Hn|(Fc & Sc & _)].
  - exfalso. unfold fclamp in Hn. destruct mfloor_shape as (ml & el & Hl & El). destruct mceil_shape as (mh & eh & Hh & Eh).
    rewrite El, Eh in Hn. destruct (flt f _); [discriminate|]. destruct (flt _ f); [discriminate|]. congruence.
  - destruct (fmul_sign s (fclamp mfloor mceil f) Fs Fc) as [Hnn Hs]. split; [exact Hnn|].
    apply nonneg_of_sign; [exact Hnn|]. rewrite Hs, Ss, Sc. reflexivity.
Qed.
