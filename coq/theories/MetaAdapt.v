(** * MetaAdapt: [meta_adapt::mutate] / [create_exploratory] on binary64.

    [rescale(value)] multiplies by [10^exponent] clamped to [floor, ceil]; the
    exponent is a Cauchy sample, so the factor is modelled as an arbitrary float
    ([f1..f4] below: "for every state of the RNG").  [rescale_prob] cuts the
    result at 1.  Proved: the three adaptive probabilities stay valid Bernoulli
    parameters (in [0,1], not NaN) for every factor, also NaN and infinities;
    the mutation scale stays non-negative and not NaN for every non-NaN factor.
    Constants come from SourceFacts (regenerated from the source). *)
From Coq Require Import ZArith Reals Bool Lia Lra List.
From Flocq Require Import Core IEEE754.BinarySingleNaN.
From Cambrian Require Import Base.F64 Base.F64Proofs SourceFacts.

Definition mfloor : f64 := of_bits meta_rescale_floor_bits.
Definition mceil : f64 := of_bits meta_rescale_ceil_bits.

(** Rust [f64::clamp]: NaN stays NaN *)
Definition fclamp (lo hi x : f64) : f64 := if flt x lo then lo else if flt hi x then hi else x.

Definition rescale (value factor : f64) : f64 := fmul value (fclamp mfloor mceil factor).
Definition rescale_prob (value factor : f64) : f64 :=
  if rescale_prob_clamped_to_one then fmin (rescale value factor) fone else rescale value factor.

Record mparams := mkMp { m_cprob : f64; m_spress : f64; m_mprob : f64; m_mscale : f64 }.

Definition meta_mutate (m : mparams) (f1 f2 f3 f4 : f64) : mparams :=
  mkMp (rescale_prob (m_cprob m) f1) (rescale_prob (m_spress m) f2) (rescale_prob (m_mprob m) f3) (rescale (m_mscale m) f4).

Definition expl_base : mparams :=
  mkMp (of_bits expl_crossover_prob_bits) (of_bits expl_selection_pressure_bits)
       (of_bits expl_mutation_prob_bits) (of_bits expl_mutation_scale_bits).
Definition exploratory (f1 f2 f3 f4 : f64) : mparams := meta_mutate expl_base f1 f2 f3 f4.

Definition unit_ok (p : f64) : bool := fle fzero p && fle p fone.
Definition m_valid (m : mparams) : bool := unit_ok (m_cprob m) && unit_ok (m_spress m) && unit_ok (m_mprob m).

(** ** sign lemmas *)
Lemma nonneg_of_sign z : fnan z = false -> Bsign z = false -> fle fzero z = true.
Proof. destruct z as [s|s| |s m e H]; cbn; intros Hn Hs; try discriminate; subst; reflexivity. Qed.

Lemma fmul_sign x y :
  fin x = true -> fin y = true ->
  fnan (fmul x y) = false /\ Bsign (fmul x y) = xorb (Bsign x) (Bsign y).
Proof.
  intros Fx Fy. unfold fmul. pose proof (Bmult_correct 53 1024 prec_gt_0_53 prec_lt_emax_53 mode_NE x y) as H.
  destruct (Rlt_bool _ _).
  - destruct H as (_ & Hf & Hs). unfold fin in *. rewrite Fx, Fy in Hf. cbn in Hf.
    assert (Hn : is_nan (Bmult mode_NE x y) = false) by (destruct (Bmult mode_NE x y); cbn in *; congruence).
    split; [exact Hn | apply Hs; exact Hn].
  - unfold binary_overflow in H. cbn [overflow_to_inf] in H.
    destruct (Bmult mode_NE x y) as [s|s| |s m e Hb]; cbn in H; try discriminate.
    inversion H; subst. split; reflexivity.
Qed.

(** the clamped factor is NaN, or finite and positive *)
Lemma mfloor_shape : exists m e H, mfloor = B754_finite false m e H.
Proof. unfold mfloor. destruct (of_bits meta_rescale_floor_bits) as [s|s| |s m e H] eqn:E; try (vm_compute in E; discriminate).
  destruct s; [vm_compute in E; discriminate|]. eauto. Qed.
Lemma mceil_shape : exists m e H, mceil = B754_finite false m e H.
Proof. unfold mceil. destruct (of_bits meta_rescale_ceil_bits) as [s|s| |s m e H] eqn:E; try (vm_compute in E; discriminate).
  destruct s; [vm_compute in E; discriminate|]. eauto. Qed.

Lemma clamp_shape f :
  let c := fclamp mfloor mceil f in
  fnan c = true \/ (fin c = true /\ Bsign c = false /\ fnan f = false).
Proof.
  destruct mfloor_shape as (ml & el & Hl & El). destruct mceil_shape as (mh & eh & Hh & Eh).
  unfold fclamp. rewrite El, Eh.
  destruct f as [s|s| |s m e H].
  - (* zero < floor *) right. cbn. repeat split.
  - destruct s; cbn; right; repeat split.
  - left. reflexivity.
  - destruct s.
    + right. cbn. repeat split.
    + destruct (flt (B754_finite false m e H) (B754_finite false ml el Hl)); [right; cbn; repeat split|].
      destruct (flt (B754_finite false mh eh Hh) (B754_finite false m e H)); right; cbn; repeat split.
Qed.

(** ** probabilities stay in [0,1] *)
Lemma fone_shape : exists m e H, fone = B754_finite false m e H.
Proof. destruct fone as [s|s| |s m e H] eqn:E; try (vm_compute in E; discriminate).
  destruct s; [vm_compute in E; discriminate|]. eauto. Qed.
Lemma fone_not_nan : fnan fone = false.  Proof. vm_compute. reflexivity. Qed.

Lemma unit_shape v : unit_ok v = true -> fin v = true /\ (Bsign v = false \/ exists s, v = B754_zero s).
Proof.
  destruct fone_shape as (m1 & e1 & Hb1 & E1). unfold unit_ok. rewrite E1.
  intros H. apply andb_prop in H. destruct H as [H0 H1].
  destruct v as [s|s| |s m e Hb].
  - split; [reflexivity|]. right. eauto.
  - destruct s; [cbn in H0; discriminate | cbn in H1; discriminate].
  - cbn in H0. discriminate.
  - destruct s; [cbn in H0; discriminate|]. split; [reflexivity|left; reflexivity].
Qed.

Lemma one_unit : unit_ok fone = true.  Proof. vm_compute. reflexivity. Qed.

Lemma fmin_one_unit z : fnan z = true \/ fle fzero z = true -> unit_ok (fmin z fone) = true.
Proof.
  intros H. unfold fmin. destruct (fnan z) eqn:En; [exact one_unit|].
  destruct H as [H|H]; [discriminate|].
  rewrite fone_not_nan.
  destruct (flt fone z) eqn:E1; [exact one_unit|].
  unfold unit_ok. rewrite H. cbn [andb].
  (* not (1 < z), z not NaN: z <= 1 *)
  destruct fone_shape as (m1 & e1 & Hb1 & Eo). rewrite Eo in *.
  destruct z as [s|s| |s m e Hb]; try discriminate.
  - destruct s; reflexivity.
  - destruct s; [reflexivity | cbn in E1; discriminate].
  - apply flt_false_fle; [reflexivity|reflexivity|exact E1].
Qed.

Theorem rescale_prob_in_unit v f :
  rescale_prob_clamped_to_one = true -> unit_ok v = true -> unit_ok (rescale_prob v f) = true.
Proof.
  intros Hc Hv. unfold rescale_prob. rewrite Hc. apply fmin_one_unit. unfold rescale.
  destruct (unit_shape v Hv) as [Fv Sv].
  destruct (clamp_shape f) as [Hn|(Fc & Sc & _)].
  - left. destruct (fclamp mfloor mceil f); try discriminate. destruct v; reflexivity.
  - destruct (fmul_sign v (fclamp mfloor mceil f) Fv Fc) as [Hnn Hs].
    destruct Sv as [Sv|[s Ez]].
    + right. apply nonneg_of_sign; [exact Hnn|]. rewrite Hs, Sv, Sc. reflexivity.
    + right. subst v. destruct (fclamp mfloor mceil f) as [s'|s'| |s' m e Hb]; cbn in *; try discriminate.
      * destruct (xorb s s'); reflexivity.
      * destruct (xorb s s'); reflexivity.
Qed.

Theorem meta_mutate_valid m f1 f2 f3 f4 :
  rescale_prob_clamped_to_one = true -> m_valid m = true -> m_valid (meta_mutate m f1 f2 f3 f4) = true.
Proof.
  intros Hc H. unfold m_valid in *. apply andb_prop in H. destruct H as [H H3]. apply andb_prop in H. destruct H as [H1 H2].
  cbn [meta_mutate m_cprob m_spress m_mprob].
  rewrite !rescale_prob_in_unit by assumption. reflexivity.
Qed.

Lemma expl_base_valid : m_valid expl_base = true.  Proof. vm_compute. reflexivity. Qed.

Theorem exploratory_valid f1 f2 f3 f4 :
  rescale_prob_clamped_to_one = true -> m_valid (exploratory f1 f2 f3 f4) = true.
Proof. intros Hc. apply meta_mutate_valid; [exact Hc|exact expl_base_valid]. Qed.

(** ** the scale never becomes negative or NaN (for a non-NaN factor); it can reach 0 or
    infinity only through repeated extreme factors (floor^k, ceil^k) *)
Theorem rescale_scale_sign s f :
  fin s = true -> Bsign s = false -> fnan f = false ->
  fnan (rescale s f) = false /\ fle fzero (rescale s f) = true.
Proof.
  intros Fs Ss Nf. unfold rescale.
  destruct (clamp_shape f) as [Hn|(Fc & Sc & _)].
  - exfalso. unfold fclamp in Hn. destruct mfloor_shape as (ml & el & Hl & El). destruct mceil_shape as (mh & eh & Hh & Eh).
    rewrite El, Eh in Hn. destruct (flt f _); [discriminate|]. destruct (flt _ f); [discriminate|]. congruence.
  - destruct (fmul_sign s (fclamp mfloor mceil f) Fs Fc) as [Hnn Hs]. split; [exact Hnn|].
    apply nonneg_of_sign; [exact Hnn|]. rewrite Hs, Ss, Sc. reflexivity.
Qed.

(** ** inside [2^-900, 2^900] the scale stays finite and strictly positive
    (the factor is at most 10^12 < 2^40 either way, so neither overflow nor underflow to 0) *)
Definition tame_lo : f64 := of_bits 0x07B0000000000000.   (* 2^-900 *)
Definition tame_hi : f64 := of_bits 0x7830000000000000.   (* 2^900 *)
Definition p2_m40 : f64 := of_bits 0x3D70000000000000.    (* 2^-40 *)
Definition p2_40 : f64 := of_bits 0x4270000000000000.     (* 2^40 *)

Local Open Scope R_scope.

Lemma pow2_value (x : f64) (k : Z) :
  (exists H, x = B754_finite false 4503599627370496 (k - 52) H) -> B2R x = bpow radix2 k.
Proof.
  intros [H ->]. cbn [B2R]. unfold F2R. cbn [Fnum Fexp cond_Zopp].
  change (IZR 4503599627370496) with (bpow radix2 52). rewrite <- bpow_plus. f_equal. lia.
Qed.

Ltac pow2_tac c k :=
  apply (pow2_value c k);
  let E := fresh "E" in
  destruct c as [s|s| |s m e H] eqn:E; try (vm_compute in E; discriminate);
  destruct s; [vm_compute in E; discriminate|];
  assert (Hm : m = 4503599627370496%positive /\ e = (k - 52)%Z) by (vm_compute in E; inversion E; split; reflexivity);
  destruct Hm as [-> ->]; exists H; reflexivity.

Lemma tame_lo_R : B2R tame_lo = bpow radix2 (-900).  Proof. pow2_tac tame_lo (-900)%Z. Qed.
Lemma tame_hi_R : B2R tame_hi = bpow radix2 900.  Proof. pow2_tac tame_hi 900%Z. Qed.
Lemma p2_m40_R : B2R p2_m40 = bpow radix2 (-40).  Proof. pow2_tac p2_m40 (-40)%Z. Qed.
Lemma p2_40_R : B2R p2_40 = bpow radix2 40.  Proof. pow2_tac p2_40 40%Z. Qed.

Lemma fle_R a b : fin a = true -> fin b = true -> fle a b = true -> B2R a <= B2R b.
Proof.
  intros Fa Fb H. unfold fle, Bleb, SpecFloat.SFleb in H. fold (Bcompare a b) in H.
  rewrite (bcompare_fin a b Fa Fb) in H.
  destruct (Rcompare_spec (B2R a) (B2R b)); try discriminate; lra.
Qed.

Lemma floor_ceil_facts :
  fin mfloor = true /\ fin mceil = true /\ fle p2_m40 mfloor = true /\ fle mceil p2_40 = true /\
  fin p2_m40 = true /\ fin p2_40 = true /\ fin tame_lo = true /\ fin tame_hi = true.
Proof. vm_compute. repeat split. Qed.

(** the clamped factor lies between floor and ceil *)
Lemma clamp_bounds f : fnan f = false ->
  let c := fclamp mfloor mceil f in fin c = true /\ B2R mfloor <= B2R c <= B2R mceil.
Proof.
  intros Nf. destruct floor_ceil_facts as (Fl & Fh & _).
  assert (Hlh : B2R mfloor <= B2R mceil).
  { apply fle_R; [exact Fl|exact Fh|vm_compute; reflexivity]. }
  unfold fclamp. cbv zeta.
  destruct (flt f mfloor) eqn:E1; [split; [exact Fl|lra]|].
  destruct (flt mceil f) eqn:E2; [split; [exact Fh|lra]|].
  (* f is not NaN, not below floor, not above ceil: finite and in between *)
  destruct mfloor_shape as (ml & el & Hl & El). destruct mceil_shape as (mh & eh & Hh & Eh).
  assert (Ff : fin f = true).
  { rewrite El in E1. rewrite Eh in E2. destruct f as [s|s| |s m e H]; try reflexivity; try discriminate.
    destruct s; cbn in E1, E2; discriminate. }
  split; [exact Ff|]. split.
  - assert (G : fle mfloor f = true) by (apply flt_false_fle; auto). apply fle_R; auto.
  - assert (G : fle f mceil = true) by (apply flt_false_fle; auto). apply fle_R; auto.
Qed.

Theorem rescale_keeps_pos_fin s f :
  fin s = true -> fle tame_lo s = true -> fle s tame_hi = true -> fnan f = false ->
  fin (rescale s f) = true /\ flt fzero (rescale s f) = true.
Proof.
  intros Fs Hlo Hhi Nf.
  destruct floor_ceil_facts as (Fl & Fh & Hfl & Hch & F1 & F2 & F3 & F4).
  destruct (clamp_bounds f Nf) as [Fc [Hc1 Hc2]]. set (c := fclamp mfloor mceil f) in *.
  pose proof (fle_R _ _ F3 Fs Hlo) as S1. pose proof (fle_R _ _ Fs F4 Hhi) as S2.
  pose proof (fle_R _ _ F1 Fl Hfl) as C1. pose proof (fle_R _ _ Fh F2 Hch) as C2.
  rewrite tame_lo_R in S1. rewrite tame_hi_R in S2. rewrite p2_m40_R in C1. rewrite p2_40_R in C2.
  set (x := B2R s * B2R c).
  assert (P1 : 0 < bpow radix2 (-900)) by apply bpow_gt_0.
  assert (P2 : 0 < bpow radix2 (-40)) by apply bpow_gt_0.
  assert (X1 : bpow radix2 (-940) <= x).
  { replace (-940)%Z with (-900 + -40)%Z by lia. rewrite bpow_plus. unfold x. apply Rmult_le_compat; lra. }
  assert (X2 : x <= bpow radix2 940).
  { replace 940%Z with (900 + 40)%Z by lia. rewrite bpow_plus. unfold x. apply Rmult_le_compat; lra. }
  assert (R1 : bpow radix2 (-940) <= round radix2 (SpecFloat.fexp 53 1024) (round_mode mode_NE) x).
  { apply round_ge_generic; [apply fexp_correct; reflexivity | apply valid_rnd_N | | exact X1].
    apply generic_format_bpow. unfold SpecFloat.fexp, SpecFloat.emin. lia. }
  assert (R2 : round radix2 (SpecFloat.fexp 53 1024) (round_mode mode_NE) x <= bpow radix2 940).
  { apply round_le_generic; [apply fexp_correct; reflexivity | apply valid_rnd_N | | exact X2].
    apply generic_format_bpow. unfold SpecFloat.fexp, SpecFloat.emin. lia. }
  assert (P3 : 0 < bpow radix2 (-940)) by apply bpow_gt_0.
  pose proof (Bmult_correct 53 1024 prec_gt_0_53 prec_lt_emax_53 mode_NE s c) as H. fold x in H.
  rewrite Rlt_bool_true in H.
  - destruct H as (Hv & Hf & _). unfold rescale. fold c. unfold fmul. unfold fin in *. rewrite Hf, Fs, Fc.
    split; [reflexivity|].
    unfold flt, Bltb, SpecFloat.SFltb. fold (Bcompare fzero (Bmult mode_NE s c)).
    rewrite (bcompare_fin fzero (Bmult mode_NE s c) eq_refl); [|unfold fin; rewrite Hf, Fs, Fc; reflexivity].
    rewrite Hv. change (B2R fzero) with 0. rewrite Rcompare_Lt; [reflexivity|lra].
  - rewrite Rabs_pos_eq by lra. eapply Rle_lt_trans; [exact R2|]. apply bpow_lt. lia.
Qed.
