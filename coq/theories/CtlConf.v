(** * CtlConf: lifting a closure property of the operators through the controller.
    Whatever predicate [Good] the initial value satisfies and offspring creation preserves,
    every value ever handed to the objective function, every value in a report item and the
    value a run returns satisfy it — for every schedule, oracle stream and configuration. *)
From Coq Require Import List Arith NArith Bool Lia.
From RecordUpdate Require Import RecordSet.
From Cambrian Require Import Ctl CtlProofs CtlStruct CtlMin.
Import ListNotations.

Section Conf.
  Variables V M T : Type.
  Variable tcmp : T -> T -> comparison.
  Variable mean : list T -> T.
  Variable hit : T -> bool.
  Variables max_pop min_reeval ss : nat.
  Variable nc : N.
  Variable budget : option N.
  Variable init_val : V.
  Variable os : N -> orc V M.

  Notation ctl := (Ctl.ctl V M T).
  Notation init := (Ctl.init T min_reeval ss nc budget init_val os).
  Notation exec := (Ctl.exec tcmp mean hit max_pop min_reeval ss budget init_val os).
  Notation InvS := (CtlStruct.InvS V M T ss init_val).

  Hypothesis ss_pos : (1 <= ss)%nat.

  Variable Good : V -> Prop.
  Variable Gen : list V -> V -> Prop.      (* "offspring [v] can be created from the values [vs]" *)
  Hypothesis Hinit : Good init_val.
  Hypothesis Hclos : forall vs v, (forall x, In x vs -> Good x) -> Gen vs v -> Good v.

  (** derivation discipline of a start log: an entry is the first one, or repeats the id of an
      earlier entry (re-evaluation), or its value is generated from values of earlier entries *)
  Definition derived (st : list (N * N * V)) : Prop :=
    forall n id s v, nth_error st n = Some (id, s, v) ->
      n = 0%nat \/
      (exists m s' v', (m < n)%nat /\ nth_error st m = Some (id, s', v')) \/
      (exists vs, (forall x, In x vs -> exists m id' s', (m < n)%nat /\ nth_error st m = Some (id', s', x)) /\ Gen vs v).

  Lemma started_good (c : ctl) :
    InvS c -> derived (c_started c) ->
    forall n id s v, nth_error (c_started c) n = Some (id, s, v) -> Good v.
  Proof.
    intros I D n. induction n as [n IH] using lt_wf_ind. intros id s v Hn.
    destruct (D n id s v Hn) as [E|[(m & s' & v' & Hm & Hv)|(vs & Hvs & Hg)]].
    - subst n. pose proof (s_first _ _ _ _ _ _ I _ Hn) as E. inversion E; subst. exact Hinit.
    - assert (v = v').
      { eapply (s_same_val _ _ _ _ _ _ I); eapply nth_error_In; eauto. }
      subst v'. eapply IH; eauto.
    - apply (Hclos vs v); [|exact Hg]. intros x Hx. destruct (Hvs x Hx) as (m & id' & s' & Hm & Hx'). eapply IH; eauto.
  Qed.

  (** every evaluation created, every in-flight evaluation, every population member and every
      report item carries a [Good] value; so does the returned best *)
  Theorem all_values_good (ls : list (label T)) :
    match exec init ls with
    | Cont c =>
        derived (c_started c) -> forall id s v, In (id, s, v) (c_started c) -> Good v
    | Ret c r =>
        derived (c_started c) ->
        (forall id s v, In (id, s, v) (c_started c) -> Good v) /\
        (forall x v a b, r = ROk x v a b -> Good v)
    | _ => True
    end.
  Proof.
    pose proof (InvS_reachable V M T tcmp mean hit max_pop min_reeval ss nc budget init_val os ss_pos ls) as HI.
    pose proof (ret_shape V M T tcmp mean hit max_pop min_reeval ss budget init_val os ls init) as HS.
    destruct (exec init ls) as [c|c r| |]; try exact I.
    - intros D id s v Hin. apply In_nth_error in Hin. destruct Hin as [n Hn]. eapply started_good; eauto.
    - intros D.
      assert (G : forall id s v, In (id, s, v) (c_started c) -> Good v).
      { intros id s v Hin. apply In_nth_error in Hin. destruct Hin as [n Hn]. eapply started_good; eauto. }
      split; [exact G|]. intros x v a b Er.
      destruct HS as [HS|[HS _]]; [|rewrite HS in Er; discriminate].
      rewrite HS in Er. unfold Ctl.finish in Er. destruct (c_err c); [discriminate|].
      destruct (best_seen_final (a_pop (c_algo c))) as [[x' v']|] eqn:Eb; [|discriminate].
      inversion Er; subst.
      destruct (bsf_in V M T _ _ _ Eb) as (k & i & Hin & _ & Hv). subst v.
      destruct (s_pop_started _ _ _ _ _ _ HI k i Hin) as [s Hs]. eapply G; eauto.
  Qed.
End Conf.

(** ** meta parameters: whatever holds of every meta parameter the oracle hands out holds of the
    meta parameters of every report item (an item's meta parameters are those its individual
    was created with; the initial individual has none) *)
Section Meta.
  Variables V M T : Type.
  Variable tcmp : T -> T -> comparison.
  Variable mean : list T -> T.
  Variable hit : T -> bool.
  Variables max_pop min_reeval ss : nat.
  Variable nc : N.
  Variable budget : option N.
  Variable init_val : V.
  Variable os : N -> orc V M.

  Notation ctl := (Ctl.ctl V M T).
  Notation ind := (Ctl.ind V M T).
  Notation push := (Ctl.push (T:=T) min_reeval ss init_val os).
  Notation push_n := (Ctl.push_n (T:=T) min_reeval ss init_val os).
  Notation init := (Ctl.init T min_reeval ss nc budget init_val os).
  Notation step := (Ctl.step tcmp mean hit max_pop min_reeval ss budget init_val os).
  Notation exec := (Ctl.exec tcmp mean hit max_pop min_reeval ss budget init_val os).

  Variable GM : M -> Prop.
  Hypothesis Hos : forall n, GM (o_meta (os n)).

  Definition gm_ind (i : ind) : Prop := forall m, i_meta i = Some m -> GM m.
  Record InvM (c : ctl) : Prop := {
    m_pop : forall k i, In (k, i) (a_pop (c_algo c)) -> gm_ind i;
    m_infl : forall s i, In (s, i) (c_infl c) -> gm_ind i;
    m_items : forall it m, In it (c_items c) -> it_meta it = Some m -> GM m;
  }.

  Lemma InvM_push c : InvM c -> InvM (push c).
  Proof.
    intros [M1 M2 M3]. unfold Ctl.push.
    destruct (Ctl.next_individual min_reeval ss init_val (c_algo c) (os (c_next_seed c))) as [i a'] eqn:En.
    unfold Ctl.next_individual in En.
    assert (Hfresh : Ctl.fresh init_val (c_algo c) (os (c_next_seed c)) = (i, a') ->
                     gm_ind i /\ a_pop a' = a_pop (c_algo c)).
    { unfold Ctl.fresh. destruct (a_init_used (c_algo c)); intros H; inversion H; subst; cbn; split; try reflexivity;
        intros m Hm; cbn in Hm; [inversion Hm; subst; apply Hos | discriminate]. }
    assert (G : gm_ind i /\ forall y, In y (a_pop a') -> In y (a_pop (c_algo c))).
    { destruct (Ctl.try_reeval _ _ _ _).
      - destruct (extract_best_ready (a_pop (c_algo c))) as [[j p']|] eqn:Ex.
        + destruct (extract_split _ _ _ _ _ _ Ex) as (k & l1 & l2 & Ep & Ep' & _). inversion En; subst i a'. split.
          * intros m Hm. cbn in Hm. apply (M1 k j); [rewrite Ep; apply in_or_app; right; left; reflexivity|exact Hm].
          * cbn. intros y Hy. rewrite Ep. rewrite Ep' in Hy. apply in_app_or in Hy. apply in_or_app.
            destruct Hy; [left|right; right]; assumption.
        + destruct (Hfresh En) as [G1 G2]. split; [exact G1|rewrite G2; auto].
      - destruct (Hfresh En) as [G1 G2]. split; [exact G1|rewrite G2; auto]. }
    destruct G as [G1 G2]. constructor; cbn.
    - intros k i0 Hin. destruct i0 as [? ? ? ?]. eapply M1. apply G2. exact Hin.
    - intros s i0 Hin. apply in_app_or in Hin. destruct Hin as [Hin|[Hin|[]]]; [eapply M2; eauto|].
      inversion Hin; subst. exact G1.
    - exact M3.
  Qed.

  Lemma InvM_step c l : InvM c -> match step c l with Cont c' | Ret c' _ => InvM c' | _ => True end.
  Proof.
    revert c l. apply (step_inv V M T tcmp mean hit max_pop min_reeval ss budget init_val os InvM).
    - intros c [M1 M2 M3]. constructor; cbn; assumption.
    - intros c seed i rest e [M1 M2 M3] Ht. unfold Ctl.fail_turn.
      assert (Hr : forall s j, In (s, j) rest -> In (s, j) (c_infl c)).
      { intros s j Hin. apply (Permutation.Permutation_in (l := (seed, i) :: rest)); [symmetry; eapply take_perm; eauto | right; exact Hin]. }
      destruct (c_aborted _); constructor; cbn; eauto.
    - intros c seed i rest [M1 M2 M3] Ht.
      assert (Hr : forall s j, In (s, j) rest -> In (s, j) (c_infl c)).
      { intros s j Hin. apply (Permutation.Permutation_in (l := (seed, i) :: rest)); [symmetry; eapply take_perm; eauto | right; exact Hin]. }
      constructor; cbn; eauto.
    - intros c seed i rest o a' [M1 M2 M3] Ht Hnf Hp.
      assert (Hr : forall s j, In (s, j) rest -> In (s, j) (c_infl c)).
      { intros s j Hin. apply (Permutation.Permutation_in (l := (seed, i) :: rest)); [symmetry; eapply take_perm; eauto | right; exact Hin]. }
      assert (Hi : gm_ind i).
      { apply (M2 seed i). apply (Permutation.Permutation_in (l := (seed, i) :: rest)); [symmetry; eapply take_perm; eauto | left; reflexivity]. }
      assert (Hpop : forall k j, In (k, j) (a_pop a') -> gm_ind j).
      { unfold Ctl.process in Hp. destruct o as [x| |e]; cbn [res_of] in Hp.
        - destruct (Ctl.transition mean ss (i_st i) x) as [s'|]; [|discriminate]. inversion Hp; subst a'. cbn.
          intros k j Hin. apply firstn_incl in Hin. apply insert_in in Hin. destruct Hin as [Hin|Hin].
          + inversion Hin; subst. intros m Hm. cbn in Hm. apply Hi. exact Hm.
          + eapply M1; eauto.
        - inversion Hp; subst a'. exact M1.
        - inversion Hp; subst a'. exact M1. }
      unfold Ctl.count_turn. destruct o as [x| |e]; constructor; cbn; eauto;
        intros it m Hin Hm; apply in_app_or in Hin; destruct Hin as [Hin|[Hin|[]]]; eauto; subst it; cbn in Hm; apply Hi; exact Hm.
    - intros c Hc _ _ _. apply InvM_push. exact Hc.
  Qed.

  Theorem item_metas_good (ls : list (label T)) :
    match exec init ls with
    | Cont c | Ret c _ => forall it m, In it (c_items c) -> it_meta it = Some m -> GM m
    | _ => True
    end.
  Proof.
    pose proof (exec_inv V M T tcmp mean hit max_pop min_reeval ss budget init_val os InvM InvM_step ls init) as H.
    assert (H0 : InvM init).
    { unfold Ctl.init. generalize (N.to_nat (Ctl.initial_num nc budget)). intros k.
      assert (G : forall k c, InvM c -> InvM (push_n k c)).
      { induction k0 as [|k0 IH]; intros c Hc; cbn [Ctl.push_n]; [exact Hc|]. apply IH. apply InvM_push. exact Hc. }
      apply G. constructor; cbn; intros; contradiction. }
    specialize (H H0). destruct (exec init ls) as [c|c r| |]; try exact I; apply (m_items _ H).
  Qed.
End Meta.

