(** * CtlConf: lifting a closure property of the operators through the controller.
    Whatever predicate [Good] the initial value satisfies and offspring creation preserves,
    every value ever handed to the objective function, every value in a report item and the
    value a run returns satisfy it — for every schedule, oracle stream and configuration. *)
From Coq Require Import List Arith NArith Bool Lia.
From RecordUpdate Require Import RecordSet.
From Cambrian Require Import Ctl CtlProofs CtlStruct CtlMin.
Import ListNotations.

Section Conf.
  Variables V M T : Type.
  Variable tcmp : T -> T -> comparison.
  Variable mean : list T -> T.
  Variable hit : T -> bool.
  Variables max_pop min_reeval ss : nat.
  Variable nc : N.
  Variable budget : option N.
  Variable init_val : V.
  Variable os : N -> orc V M.

  Notation ctl := (Ctl.ctl V M T).
  Notation init := (Ctl.init T min_reeval ss nc budget init_val os).
  Notation exec := (Ctl.exec tcmp mean hit max_pop min_reeval ss budget init_val os).
  Notation InvS := (CtlStruct.InvS V M T ss init_val).

  Hypothesis ss_pos : (1 <= ss)%nat.

  Variable Good : V -> Prop.
  Variable Gen : list V -> V -> Prop.      (* "offspring [v] can be created from the values [vs]" *)
  Hypothesis Hinit : Good init_val.
  Hypothesis Hclos : forall vs v, (forall x, In x vs -> Good x) -> Gen vs v -> Good v.

  (** derivation discipline of a start log: an entry is the first one, or repeats the id of an
      earlier entry (re-evaluation), or its value is generated from values of earlier entries *)
  Definition derived (st : list (N * N * V)) : Prop :=
    forall n id s v, nth_error st n = Some (id, s, v) ->
      n = 0%nat \/
      (exists m s' v', (m < n)%nat /\ nth_error st m = Some (id, s', v')) \/
      (exists vs, (forall x, In x vs -> exists m id' s', (m < n)%nat /\ nth_error st m = Some (id', s', x)) /\ Gen vs v).

  Lemma started_good (c : ctl) :
    InvS c -> derived (c_started c) ->
    forall n id s v, nth_error (c_started c) n = Some (id, s, v) -> Good v.
  Proof.
    intros I D n. induction n as [n IH] using lt_wf_ind. intros id s v Hn.
    destruct (D n id s v Hn) as [E|[(m & s' & v' & Hm & Hv)|(vs & Hvs & Hg)]].
    - subst n. pose proof (s_first _ _ _ _ _ _ I _ Hn) as E. inversion E; subst. exact Hinit.
    - assert (v = v').
      { eapply (s_same_val _ _ _ _ _ _ I); eapply nth_error_In; eauto. }
      subst v'. eapply IH; eauto.
    - apply (Hclos vs v); [|exact Hg]. intros x Hx. destruct (Hvs x Hx) as (m & id' & s' & Hm & Hx'). eapply IH; eauto.
  Qed.

  (** every evaluation created, every in-flight evaluation, every population member and every
      report item carries a [Good] value; so does the returned best *)
  Theorem all_values_good (ls : list (label T)) :
    match exec init ls with
    | Cont c =>
        derived (c_started c) -> forall id s v, In (id, s, v) (c_started c) -> Good v
    | Ret c r =>
        derived (c_started c) ->
        (forall id s v, In (id, s, v) (c_started c) -> Good v) /\
        (forall x v a b, r = ROk x v a b -> Good v)
    | _ => True
    end.
  Proof.
    pose proof (InvS_reachable V M T tcmp mean hit max_pop min_reeval ss nc budget init_val os ss_pos ls) as HI.
    pose proof (ret_shape V M T tcmp mean hit max_pop min_reeval ss budget init_val os ls init) as HS.
    destruct (exec init ls) as [c|c r| |]; try exact I.
    - intros D id s v Hin. apply In_nth_error in Hin. destruct Hin as [n Hn]. eapply started_good; eauto.
    - intros D.
      assert (G : forall id s v, In (id, s, v) (c_started c) -> Good v).
      { intros id s v Hin. apply In_nth_error in Hin. destruct Hin as [n Hn]. eapply started_good; eauto. }
      split; [exact G|]. intros x v a b Er.
      destruct HS as [HS|[HS _]]; [|rewrite HS in Er; discriminate].
      rewrite HS in Er. unfold Ctl.finish in Er. destruct (c_err c); [discriminate|].
      destruct (best_seen_final (a_pop (c_algo c))) as [[x' v']|] eqn:Eb; [|discriminate].
      inversion Er; subst.
      destruct (bsf_in V M T _ _ _ Eb) as (k & i & Hin & _ & Hv). subst v.
      destruct (s_pop_started _ _ _ _ _ _ HI k i Hin) as [s Hs]. eapply G; eauto.
  Qed.
End Conf.
