(** * MutLocal: mutation with probability 0 is the identity on whole trees: every leaf of the
    output, at any path, is the leaf of the input at that path, and vice versa (so also every
    map key, variant option and optional presence is unchanged). *)
From Coq Require Import String.
From Coq Require Import List ZArith NArith Bool Lia.
From Flocq Require Import IEEE754.BinarySingleNaN.
From Cambrian Require Import Base.F64 Base.F64Proofs SourceFacts Syntax Ops OpsProofs MutProofs CrossProofs.
Import ListNotations.

Definition same_leaves (v v' : value) : Prop :=
  forall q lf, is_leaf_value lf = true -> (leaf_at v' q = Some lf <-> leaf_at v q = Some lf).

Lemma same_leaves_refl v : same_leaves v v.
Proof. intros q lf _. tauto. Qed.

Lemma nlookup_in_keys {A} k (m : list (N * A)) a : nlookup k m = Some a -> In k (map fst m).
Proof. intros H. apply nlookup_In in H. apply in_map_iff. exists (k, a). auto. Qed.

Lemma filter_nil_all {A} (f : A -> bool) l : filter f l = [] -> forall x, In x l -> f x = false.
Proof.
  induction l as [|a r IH]; intros H x Hin; [destruct Hin|]. cbn in H. destruct (f a) eqn:E; [discriminate|].
  destruct Hin as [->|Hin]; [exact E|apply IH; assumption].
Qed.

Theorem mutate_p0_identity : forall s ms p c v v' c',
  wf s = true -> conforms_g false s v = true -> mut_check fzero ms s p c v v' = Some c' -> same_leaves v v'.
Proof.
  induction s using spec_ind'; intros msc p c v v' c' W C Hm;
    destruct v; cbn [conforms_g] in C; try discriminate;
    destruct v'; cbn [mut_check] in Hm; try discriminate.
  - (* real *)
    destruct (p0_real msc p c c' i s mn mx x x0) as [E _]; [cbn [mut_check]; exact Hm|]. subst. apply same_leaves_refl.
  - destruct (p0_int msc p c c' i s mn mx z z0) as [E _]; [cbn [mut_check]; exact Hm|]. subst. apply same_leaves_refl.
  - destruct (p0_bool msc p c c' b b0 b1) as [E _]; [cbn [mut_check]; exact Hm|]. subst. apply same_leaves_refl.
  - (* sub *)
    destruct (negb _) eqn:En; [discriminate|]. apply negb_false_iff in En. apply andb_prop in En. destruct En as [En1 En2].
    apply Nat.eqb_eq in En1.
    cbn [wf] in W. apply andb_prop in W. destruct W as [W W3]. apply andb_prop in W. destruct W as [_ W2].
    apply andb_prop in C. destruct C as [C C3]. apply andb_prop in C. destruct C as [C1 C2]. apply Nat.eqb_eq in C2.
    rewrite Forall_forall in H. rewrite forallb_forall in W3, C3.
    assert (Gen : forall l c c',
               (forall kv, In kv l -> In kv ms) ->
               (fix go (l : list (string * spec)) (c : pctx) : option pctx :=
                  match l with
                  | [] => Some c
                  | (k, cs) :: r =>
                      match slookup k m, slookup k m0 with
                      | Some a, Some b => match mut_check fzero msc cs (p ++ [PName k]) c a b with Some c' => go r c' | None => None end
                      | _, _ => None
                      end
                  end) l c = Some c' ->
               forall k cs, In (k, cs) l -> exists a b, slookup k m = Some a /\ slookup k m0 = Some b /\ same_leaves a b).
    { induction l as [|[k0 cs0] r IHr]; intros c1 c2 Hsub Hg k cs Hin; [destruct Hin|].
      destruct (slookup k0 m) as [a|] eqn:Ea; [|discriminate]. destruct (slookup k0 m0) as [b|] eqn:Eb; [|discriminate].
      destruct (mut_check fzero msc cs0 (p ++ [PName k0]) c1 a b) as [c3|] eqn:Ec; [|discriminate].
      destruct Hin as [Heq|Hin].
      - inversion Heq; subst. exists a, b. split; [exact Ea|]. split; [exact Eb|].
        assert (Hin0 : In (k, cs) ms) by (apply Hsub; left; reflexivity).
        refine (H (k, cs) Hin0 msc (p ++ [PName k])%list c1 a b c3 (W3 (k, cs) Hin0) _ Ec).
        specialize (C3 (k, cs) Hin0). cbn [fst snd] in C3. rewrite Ea in C3. exact C3.
      - eapply IHr; eauto. intros kv Hkv. apply Hsub. right. exact Hkv. }
    specialize (Gen ms c c' (fun kv H0 => H0) Hm).
    (* the keys of input and output are exactly the members *)
    assert (Hk' : incl (map fst m0) (map fst ms)).
    { apply (NoDup_length_incl (l := map fst ms) (l' := map fst m0) (nodup_s_NoDup _ W2)).
      - rewrite !map_length. lia.
      - intros k Hk. apply in_keys_entry in Hk. destruct Hk as [cs Hk].
        destruct (Gen k cs Hk) as (a & b & _ & Hb & _). eapply slookup_in_keys; eauto. }
    assert (Hk : incl (map fst m) (map fst ms)).
    { apply (NoDup_length_incl (l := map fst ms) (l' := map fst m) (nodup_s_NoDup _ W2)).
      - rewrite !map_length. lia.
      - intros k Hk0. apply in_keys_entry in Hk0. destruct Hk0 as [cs Hk0].
        destruct (Gen k cs Hk0) as (a & b & Ha & _ & _). eapply slookup_in_keys; eauto. }
    intros q lf Hv. destruct q as [|e q]; [cbn; split; intros E; inversion E; subst; discriminate|].
    destruct e; cbn [leaf_at]; try tauto.
    destruct (slookup s m0) as [b|] eqn:Eb.
    + assert (Hs : In s (map fst ms)) by (apply Hk'; eapply slookup_in_keys; eauto).
      apply in_keys_entry in Hs. destruct Hs as [cs Hs].
      destruct (Gen s cs Hs) as (a & b' & Ha & Hb & Hab). rewrite Eb in Hb. inversion Hb; subst b'. rewrite Ha.
      apply Hab. exact Hv.
    + destruct (slookup s m) as [a|] eqn:Ea; [|tauto]. exfalso.
      assert (Hs : In s (map fst ms)) by (apply Hk; eapply slookup_in_keys; eauto).
      apply in_keys_entry in Hs. destruct Hs as [cs Hs].
      destruct (Gen s cs Hs) as (a' & b' & _ & Hb & _). congruence.
  - (* array *)
    destruct (negb _) eqn:En; [discriminate|]. apply negb_false_iff in En. apply Nat.eqb_eq in En.
    cbn [wf] in W. apply andb_prop in W. destruct W as [_ W]. apply andb_prop in C. destruct C as [_ C].
    assert (Gen : forall l1 l2 i c1 c2, forallb (conforms_g false s) l1 = true ->
               arr_check (mut_check fzero msc s) p l1 l2 i c1 = Some c2 ->
               forall j, match nth_error l1 j, nth_error l2 j with
                         | Some a, Some b => same_leaves a b
                         | None, None => True
                         | _, _ => False
                         end).
    { induction l1 as [|a r IHr]; intros l2 i c1 c2 Hc Ha j; destruct l2 as [|b r2]; cbn [arr_check] in Ha; try discriminate.
      - destruct j; exact I.
      - destruct (mut_check fzero msc s (p ++ [PIdx i]) c1 a b) as [c3|] eqn:Ec; [|discriminate].
        cbn in Hc. apply andb_prop in Hc. destruct Hc as [Hc1 Hc2].
        destruct j as [|j]; cbn [nth_error].
        + eapply IHs; eauto.
        + eapply IHr; eauto. }
    specialize (Gen l l0 0%nat c c' C Hm).
    intros q lf Hv. destruct q as [|e q]; [cbn; split; intros E; inversion E; subst; discriminate|].
    destruct e; cbn [leaf_at]; try tauto. specialize (Gen n0).
    destruct (nth_error l n0), (nth_error l0 n0); try tauto. apply Gen. exact Hv.
  - (* anon map *)
    destruct (negb _) eqn:En; [discriminate|]. apply negb_false_iff in En. apply andb_prop in En. destruct En as [_ Nd'].
    cbn [wf] in W. repeat (apply andb_prop in W; destruct W as [W ?]).
    repeat (apply andb_prop in C; destruct C as [C ?]). rename H2 into Cel. rename C into Nd.
    destruct (p0_no_resize fzero msc s i mn mx p c c' m m0 eq_refl) as [A R].
    { cbn [mut_check]. rewrite Nd'. rewrite p_valid_zero. cbn [negb andb]. exact Hm. }
    unfold added, removed in A, R.
    rewrite A, R in Hm. rewrite can_false_zero in Hm.
    destruct (map_children (mut_check fzero msc s) p m m0 c) as [c1|] eqn:Emc.
    2:{ exfalso. destruct (mem_n (fresh_key c p m) (keys_n m)); [|discriminate].
        rewrite can_true_zero in Hm. cbn in Hm. discriminate. }
    (* same key sets *)
    assert (K1 : forall k, In k (map fst m0) -> In k (map fst m)).
    { intros k Hk. pose proof (filter_nil_all _ _ A k Hk) as F. apply negb_false_iff in F. apply mem_n_In in F. exact F. }
    assert (K2 : forall k, In k (map fst m) -> In k (map fst m0)).
    { intros k Hk. pose proof (filter_nil_all _ _ R k Hk) as F. apply negb_false_iff in F. apply mem_n_In in F. exact F. }
    intros q lf Hv. destruct q as [|e q]; [cbn; split; intros E; inversion E; subst; discriminate|].
    destruct e; cbn [leaf_at]; try tauto.
    destruct (nlookup k m0) as [b|] eqn:Eb.
    + assert (Hin : In k (map fst m)) by (apply K1; eapply nlookup_in_keys; eauto).
      destruct (nlookup k m) as [a|] eqn:Ea.
      2:{ apply nlookup_none_notin in Ea. apply mem_n_In in Hin. unfold mem_n in *. congruence. }
      destruct (map_children_spec _ _ _ _ _ _ Emc k b a (nlookup_In _ _ _ Eb) Ea) as (q1 & q2 & Hq).
      assert (Hab : same_leaves a b).
      { eapply IHs; [exact W| |exact Hq]. rewrite forallb_forall in Cel. apply (Cel (k, a)). apply nlookup_In. exact Ea. }
      apply Hab. exact Hv.
    + destruct (nlookup k m) as [a|] eqn:Ea; [|tauto]. exfalso.
      assert (Hin : In k (map fst m0)) by (apply K2; eapply nlookup_in_keys; eauto).
      apply nlookup_none_notin in Eb. apply mem_n_In in Hin. unfold mem_n in *. congruence.
  - (* variant *)
    rewrite p_valid_zero in Hm. cbn [negb] in Hm. cbn [wf] in W. apply andb_prop in W. destruct W as [_ W].
    assert (G : name = name0 /\ same_leaves v v').
    { revert H W C Hm. clear. induction os as [|[k cs] os IHos]; intros HF W C Hm; [discriminate|].
      inversion HF as [|? ? Hh Ht]; subst. cbn [snd] in Hh. cbn in W. apply andb_prop in W. destruct W as [W1 W2].
      destruct (String.eqb name0 k) eqn:E0.
      - destruct (String.eqb name name0) eqn:E1.
        + apply String.eqb_eq in E1. subst name0. rewrite E0 in C. rewrite can_false_zero in Hm.
          split; [reflexivity|]. eapply Hh; eauto.
        + rewrite can_true_zero in Hm. discriminate.
      - destruct (String.eqb name k) eqn:E2.
        + (* the input sits on option k, the output on a later option: a switch, impossible at probability 0 *)
          exfalso. clear -Hm E0 E2. assert (Hne : String.eqb name name0 = false).
          { destruct (String.eqb name name0) eqn:E; [|reflexivity]. apply String.eqb_eq in E. subst. congruence. }
          revert Hm. induction os as [|[k1 cs1] os IH]; [discriminate|].
          destruct (String.eqb name0 k1); [rewrite Hne, can_true_zero; discriminate|exact IH].
        + apply IHos; assumption. }
    destruct G as [<- G]. intros q lf Hv. destruct q as [|e q]; [cbn; split; intros E; inversion E; subst; discriminate|].
    destruct e; cbn [leaf_at]; try tauto. destruct (String.eqb s name); [apply G; exact Hv|tauto].
  - (* enum *)
    destruct (p0_enum msc p c c' vs i name name0) as [E _]; [cbn [mut_check]; exact Hm|]. subst. apply same_leaves_refl.
  - (* optional *)
    cbn [wf] in W. destruct o as [x|], o0 as [y|]; rewrite ?can_true_zero, ?can_false_zero in Hm; try discriminate.
    + assert (G : same_leaves x y) by (eapply IHs; eauto).
      intros q lf Hv. destruct q as [|e q]; [cbn; split; intros E; inversion E; subst; discriminate|].
      destruct e; cbn [leaf_at]; try tauto. apply G. exact Hv.
    + apply same_leaves_refl.
  - (* const *)
    apply same_leaves_refl.
Qed.
