(** * Sync: the select loop of [sync_launch::launch_with_async_obj_func] as far as the report
    files are concerned.  The controller (inside [launch_fut]) sends report items into a bounded
    channel; the writer future ([handle_detailed_report_items], Writer.v) takes them out one at
    a time; the time limit only sends a command.  When [launch_fut] completes -- with a report
    or with an error -- the loop awaits the writer, which then consumes whatever is still in
    the channel, and only then returns ([drains]: regenerated from the source).
    Not modelled: I/O errors of the writer (the [?] on its result). *)
From Coq Require Import List NArith ZArith Bool Lia.
From Cambrian Require Import Ctl Writer.
Import ListNotations.

Section Sync.
  Variables V M T : Type.
  Variable tcmp : T -> T -> comparison.
  Variable cap : nat.                     (* CHANNEL_BUF_SIZE *)
  Notation item := (Ctl.item V M T).
  Notation wstate := (Writer.wstate V M T).
  Notation wstep := (Writer.wstep V M T tcmp).
  Notation wrun := (Writer.wrun V M T tcmp).

  Record sstate := mkS { s_sent : list item; s_queue : list item; s_w : wstate }.
  Definition s0 : sstate := mkS [] [] (Writer.w0 V M T).

  Inductive sev :=
  | EvSend (it : item)     (* the controller's [detailed_report_sender.send(item)]; pending while the channel is full *)
  | EvWrite                (* one turn of the writer's [while let Some(item) = item_receiver.next().await] *)
  | EvTimeout.             (* the time limit fires: [cmd_sender.send(Command::Terminate)] *)

  Definition sstep (s : sstate) (e : sev) : sstate :=
    match e with
    | EvSend it =>
        if Nat.ltb (length (s_queue s)) cap
        then mkS (s_sent s ++ [it]) (s_queue s ++ [it]) (s_w s)
        else s
    | EvWrite =>
        match s_queue s with
        | [] => s
        | it :: q => mkS (s_sent s) q (wstep (s_w s) it)
        end
    | EvTimeout => s
    end.
  Definition srun (evs : list sev) : sstate := fold_left sstep evs s0.

  (** [launch_fut] has completed (the sender is dropped with it): what the files hold when
      [launch_with_async_obj_func] returns *)
  Definition sfinish (drains : bool) (s : sstate) : wstate :=
    if drains then fold_left wstep (s_queue s) (s_w s) else s_w s.

  Definition SInv (s : sstate) : Prop := fold_left wstep (s_queue s) (s_w s) = wrun (s_sent s).

  Lemma SInv_step s e : SInv s -> SInv (sstep s e).
  Proof.
    unfold SInv. intros H. destruct e as [it| |]; cbn [sstep].
    - destruct (Nat.ltb (length (s_queue s)) cap); [|exact H]. cbn [s_sent s_queue s_w].
      rewrite fold_left_app, H. unfold Writer.wrun. rewrite fold_left_app. reflexivity.
    - destruct (s_queue s) as [|it q] eqn:Eq; [rewrite Eq; exact H|]. cbn [s_sent s_queue s_w]. exact H.
    - exact H.
  Qed.

  Lemma SInv_run evs : SInv (srun evs).
  Proof.
    unfold srun. assert (H0 : SInv s0) by reflexivity. revert H0. generalize s0.
    induction evs as [|e evs IH]; intros s H; cbn [fold_left]; [exact H|]. apply IH. apply SInv_step. exact H.
  Qed.

  (** whatever the interleaving of sends, writer turns and the time limit, and whether the run
      ends with a report or an error: on return the files are what the writer makes of every
      item the controller sent *)
  Theorem drained_files_hold_all_sent (drains : bool) evs :
    drains = true -> sfinish drains (srun evs) = wrun (s_sent (srun evs)).
  Proof. intros ->. exact (SInv_run evs). Qed.

  (** between two returns nothing is lost either: rows written so far are a prefix of the items sent *)
  Lemma rows_prefix evs : exists rest, s_sent (srun evs) = Writer.w_rows V M T (s_w (srun evs)) ++ rest.
  Proof.
    exists (s_queue (srun evs)).
    assert (G : forall s, s_sent s = Writer.w_rows V M T (s_w s) ++ s_queue s ->
                forall e, s_sent (sstep s e) = Writer.w_rows V M T (s_w (sstep s e)) ++ s_queue (sstep s e)).
    { intros s H e. destruct e as [it| |]; cbn [sstep].
      - destruct (Nat.ltb (length (s_queue s)) cap); [|exact H]. cbn [s_sent s_queue s_w]. rewrite H, app_assoc. reflexivity.
      - destruct (s_queue s) as [|it q] eqn:Eq; [rewrite Eq; exact H|]. cbn [s_sent s_queue s_w].
        unfold Writer.wstep. cbn [Writer.w_rows]. rewrite H, <- app_assoc. reflexivity.
      - exact H. }
    unfold srun. assert (H0 : s_sent s0 = Writer.w_rows V M T (s_w s0) ++ s_queue s0) by reflexivity.
    revert H0. generalize s0. induction evs as [|e evs IH]; intros s H; cbn [fold_left]; [exact H|].
    apply IH. apply G. exact H.
  Qed.
End Sync.

(** the flag matters: returning without the drain loses the items still in the channel *)
Example undrained_return_loses_items :
  let it := mkItem 0%N 0%N 7 (None : option unit) (Some 5%Z) in
  let s := srun nat unit Z Z.compare 256 [EvSend nat unit Z it] in
  Writer.w_rows nat unit Z (sfinish nat unit Z Z.compare false s) = [] /\
  Writer.w_rows nat unit Z (sfinish nat unit Z Z.compare true s) = [it].
Proof. vm_compute. split; reflexivity. Qed.
