(** * SpecProofs: an accepted spec is well-formed, and the initial value of a
    well-formed spec conforms to it (C10). *)
From Coq Require Import String Ascii.
From Coq Require Import List Arith ZArith NArith Bool Lia.
From Flocq Require Import IEEE754.BinarySingleNaN.
From Cambrian Require Import Base.F64 Base.F64Proofs SourceFacts Syntax SpecBuild.
Import ListNotations.
Local Open Scope string_scope.

(** ** extraction helpers *)
Lemma bind_ok {A B} (r : res A) (f : A -> res B) b :
  bind r f = Ok b -> exists a, r = Ok a /\ f a = Ok b.
Proof. destruct r; cbn; [eauto | discriminate]. Qed.

Lemma extract_mandatory {T} m n (f : yaml -> option T) r :
  extract m n f true = Ok r -> exists t, r = Some t.
Proof.
  unfold extract. destruct (yget n m); [destruct (f y); [|discriminate] | discriminate].
  intros H. inversion H. eauto.
Qed.

Lemma extract_real_fin m n b r x : extract_real m n b = Ok r -> r = Some x -> fin x = true.
Proof.
  unfold extract_real. intros H E. apply bind_ok in H. destruct H as (a & _ & H).
  destruct a as [y|]; [|inversion H; subst; discriminate].
  destruct (fin y) eqn:F; [|discriminate]. inversion H; subst. inversion H1; subst. exact F.
Qed.

Lemma extract_real_mandatory m n r : extract_real m n true = Ok r -> exists x, r = Some x /\ fin x = true.
Proof.
  intros H. pose proof H as H0. unfold extract_real in H. apply bind_ok in H. destruct H as (a & Ha & H).
  apply extract_mandatory in Ha. destruct Ha as [t ->]. destruct (fin t) eqn:F; [|discriminate].
  inversion H; subst. eauto.
Qed.

Ltac ok_bind H :=
  let a := fresh "a" in let Ha := fresh "Ha" in
  apply bind_ok in H; destruct H as (a & Ha & H).

(** ** leaf builders *)
Lemma build_real_wf m s : build_real m = Ok s -> wf s = true.
Proof.
  unfold build_real. intros H.
  ok_bind H. ok_bind H. rename a0 into mn. ok_bind H. rename a0 into mx. ok_bind H. ok_bind H. rename a1 into io.
  destruct (extract_real_mandatory _ _ _ Ha3) as (init & -> & Fi). cbn [opt_unwrap] in H.
  destruct (_ || _) eqn:Eb; [discriminate|]. ok_bind H. rename a1 into so.
  destruct (extract_real_mandatory _ _ _ Ha4) as (sc & -> & Fs). cbn [opt_unwrap] in H.
  destruct (fle sc fzero) eqn:Es; [discriminate|]. inversion H; subst. clear H.
  apply orb_false_iff in Eb. destruct Eb as [E1 E2].
  assert (Fmn : forall a, mn = Some a -> fin a = true).
  { intros a1 E. exact (extract_real_fin _ _ _ _ _ Ha0 E). }
  assert (Fmx : forall a, mx = Some a -> fin a = true).
  { intros a1 E. exact (extract_real_fin _ _ _ _ _ Ha1 E). }
  cbn [wf]. rewrite Fi, Fs. cbn [andb].
  rewrite (fle_false_flt fzero sc fzero_fin Fs Es). cbn [andb].
  assert (G1 : opt_fin mn = true) by (destruct mn; cbn; auto).
  assert (G2 : opt_fin mx = true) by (destruct mx; cbn; auto).
  rewrite G1, G2. cbn [andb].
  assert (G3 : opt_le_f mn init = true).
  { destruct mn as [lo|]; cbn; auto. apply flt_false_fle; auto. }
  assert (G4 : opt_ge_f mx init = true).
  { destruct mx as [hi|]; cbn; auto. apply flt_false_fle; auto. }
  rewrite G3, G4. cbn [andb].
  destruct mn as [lo|], mx as [hi|]; auto.
  destruct (fle hi lo) eqn:E; [discriminate|]. apply fle_false_flt; auto.
Qed.

Lemma build_int_wf m s : build_int m = Ok s -> wf s = true.
Proof.
  unfold build_int. intros H.
  ok_bind H. ok_bind H. rename a0 into mn. ok_bind H. rename a0 into mx. ok_bind H. ok_bind H. rename a1 into io.
  destruct (extract_mandatory _ _ _ _ Ha3) as (init & ->). cbn [opt_unwrap] in H.
  destruct (_ || _) eqn:Eb; [discriminate|]. ok_bind H. rename a1 into so.
  destruct (extract_real_mandatory _ _ _ Ha4) as (sc & -> & Fs). cbn [opt_unwrap] in H.
  destruct (fle sc fzero) eqn:Es; [discriminate|]. inversion H; subst. clear H.
  apply orb_false_iff in Eb. destruct Eb as [E1 E2].
  cbn [wf]. rewrite Fs. cbn [andb]. rewrite (fle_false_flt fzero sc fzero_fin Fs Es). cbn [andb].
  destruct mn as [lo|], mx as [hi|]; cbn [andb];
    repeat match goal with
           | H : Z.ltb _ _ = false |- _ => apply Z.ltb_ge in H
           end;
    try (destruct (Z.leb hi lo) eqn:E; [discriminate|]; apply Z.leb_gt in E);
    repeat (apply andb_true_intro; split); try reflexivity;
    try (apply Z.leb_le; lia); try (apply Z.ltb_lt; lia).
Qed.

Lemma build_bool_wf m s : build_bool m = Ok s -> wf s = true.
Proof. unfold build_bool. intros H. ok_bind H. ok_bind H. inversion H; subst. reflexivity. Qed.

Lemma build_const_wf m s : build_const m = Ok s -> wf s = true.
Proof. unfold build_const. intros H. ok_bind H. inversion H; subst. reflexivity. Qed.

Example enum_distinctness_is_checked : enum_values_checked_distinct = true.
Proof. reflexivity. Qed.

Lemma build_enum_wf m s : build_enum m = Ok s -> wf s = true.
Proof.
  unfold build_enum. intros H. ok_bind H. ok_bind H. rename a0 into io.
  destruct (yget "values" m) as [v|]; [|discriminate]. destruct v; try discriminate.
  destruct (Nat.ltb (length l) 2) eqn:El; [discriminate|]. ok_bind H. rename a0 into names.
  rewrite enum_distinctness_is_checked in H. cbn [andb] in H.
  destruct (Nat.ltb (length (dedup_s names)) 2) eqn:Ed; [discriminate|].
  destruct (mem_s (opt_unwrap EmptyString io) names) eqn:Em; [|discriminate]. cbn [negb] in H.
  inversion H; subst. cbn [wf]. rewrite Em. apply Nat.ltb_ge in Ed. apply Nat.leb_le in Ed. rewrite Ed. reflexivity.
Qed.

(** ** members / options: keyed insertion keeps keys distinct *)
Lemma mem_set_keys e k s : map fst (mem_set e k s) = if mem_s k (map fst e) then map fst e else (map fst e ++ [k])%list.
Proof.
  induction e as [|[k' s'] e IH]; cbn [mem_set map fst mem_s existsb app]; [reflexivity|].
  destruct (String.eqb k k') eqn:E; cbn [map fst orb].
  - apply String.eqb_eq in E. subst. reflexivity.
  - rewrite IH. unfold mem_s. destruct (existsb (String.eqb k) (map fst e)); reflexivity.
Qed.

Lemma nodup_s_snoc l k : nodup_s l = true -> mem_s k l = false -> nodup_s (l ++ [k])%list = true.
Proof.
  induction l as [|a l IH]; cbn; intros H1 H2; [reflexivity|].
  apply andb_prop in H1. destruct H1 as [A B]. apply orb_false_iff in H2. destruct H2 as [C D].
  rewrite IH by assumption. rewrite andb_true_r. apply negb_true_iff in A. apply negb_true_iff.
  rewrite existsb_app. cbn. rewrite A. cbn. rewrite orb_false_r. rewrite String.eqb_sym. exact C.
Qed.

Lemma mem_set_nodup e k s : nodup_s (map fst e) = true -> nodup_s (map fst (mem_set e k s)) = true.
Proof.
  intros H. rewrite mem_set_keys. destruct (mem_s k (map fst e)) eqn:E; [exact H|]. apply nodup_s_snoc; assumption.
Qed.

Lemma mem_set_forall (P : spec -> bool) e k s :
  forallb (fun kv => P (snd kv)) e = true -> P s = true -> forallb (fun kv => P (snd kv)) (mem_set e k s) = true.
Proof.
  induction e as [|[k' s'] e IH]; cbn; intros H1 H2; [rewrite H2; reflexivity|].
  apply andb_prop in H1. destruct H1 as [A B].
  destruct (String.eqb k k'); cbn; [rewrite H2, B; reflexivity | rewrite A, IH; auto].
Qed.

Lemma mem_set_nonempty e k s : mem_set e k s <> [].
Proof. destruct e as [|[k' s'] e]; cbn; [discriminate|]. destruct (String.eqb k k'); discriminate. Qed.

(** ** environments of type definitions *)
Definition env_wf (e : env) : Prop := forallb (fun kv => wf (snd kv)) e = true.

Lemma env_set_wf e k s : env_wf e -> wf s = true -> env_wf (env_set e k s).
Proof.
  unfold env_wf. induction e as [|[k' s'] e IH]; cbn; intros H1 H2; [rewrite H2; reflexivity|].
  apply andb_prop in H1. destruct H1 as [A B].
  destruct (String.eqb k k'); cbn; [rewrite H2, B; reflexivity | rewrite A, IH; auto].
Qed.

Lemma env_lookup_wf e k s : env_wf e -> slookup k e = Some s -> wf s = true.
Proof.
  unfold env_wf. induction e as [|[k' s'] e IH]; cbn; intros H1 H2; [discriminate|].
  apply andb_prop in H1. destruct H1 as [A B].
  destruct (String.eqb k k'); [inversion H2; subst; exact A | apply IH; assumption].
Qed.

(** ** the loops of [build_sub] / [build_variant] *)
Lemma defs_loop_wf (bn : env -> yaml -> res spec) :
  (forall e y s, env_wf e -> bn e y = Ok s -> wf s = true) ->
  forall l e e', env_wf e -> defs_loop bn l e = Ok e' -> env_wf e'.
Proof.
  intros Hbn. induction l as [|[k v] r IHr]; intros e e' He H; cbn [defs_loop] in H; [inversion H; subst; exact He|].
  destruct (as_str k) as [ks|]; [|discriminate].
  destruct (starts_with typedef_prefix_pass1 ks); [|eapply IHr; eauto].
  destruct (mem_s _ built_in_type_names); [discriminate|].
  ok_bind H. eapply IHr; [|exact H]. apply env_set_wf; [exact He | eapply Hbn; eauto].
Qed.

Lemma mems_loop_wf (bn : yaml -> res spec) skip strict :
  (forall y s, bn y = Ok s -> wf s = true) ->
  forall l acc ms, nodup_s (map fst acc) = true -> forallb (fun kv => wf (snd kv)) acc = true ->
    mems_loop bn skip strict l acc = Ok ms ->
    nodup_s (map fst ms) = true /\ forallb (fun kv => wf (snd kv)) ms = true.
Proof.
  intros Hbn. induction l as [|[k v] r IHr]; intros acc ms N F H; cbn [mems_loop] in H; [inversion H; subst; auto|].
  destruct (as_str k) as [ks|].
  - destruct (skip ks); [eapply IHr; eauto|]. ok_bind H.
    eapply IHr; [| |exact H]; [apply mem_set_nodup; exact N | apply mem_set_forall; [exact F | eapply Hbn; eauto]].
  - destruct strict; [discriminate | eapply IHr; eauto].
Qed.

(** ** the main theorem *)
Theorem build_node_wf : forall fuel e y s, env_wf e -> build_node fuel e y = Ok s -> wf s = true.
Proof.
  induction fuel as [|f IH]; intros e y s He H; cbn [build_node] in H; [discriminate|].
  destruct y; try discriminate. ok_bind H. rename a into tn.
  set (type_name := opt_unwrap "sub" tn) in *.
  set (value_type := match yget "valueType" m with Some v => build_node f e v | None => Err EMandatoryAttributeMissing end) in *.
  assert (Hvt : forall vt, value_type = Ok vt -> wf vt = true).
  { subst value_type. intros vt Hv. destruct (yget "valueType" m); [eapply IH; eauto | discriminate]. }
  destruct (String.eqb type_name "real"); [eapply build_real_wf; eauto|].
  destruct (String.eqb type_name "int"); [eapply build_int_wf; eauto|].
  destruct (String.eqb type_name "bool"); [eapply build_bool_wf; eauto|].
  destruct (String.eqb type_name "sub").
  { (* sub *)
    ok_bind H. rename a into e'.
    assert (He' : env_wf e').
    { eapply (defs_loop_wf (build_node f)); [|exact He|exact Ha0]. intros; eapply IH; eauto. }
    ok_bind H. rename a into ms.
    assert (G : nodup_s (map fst ms) = true /\ forallb (fun kv => wf (snd kv)) ms = true).
    { eapply (mems_loop_wf (build_node f e')); [| | |exact Ha1]; [intros; eapply IH; eauto | reflexivity | reflexivity]. }
    destruct ms as [|m0 ms]; [discriminate|]. inversion H; subst. cbn [wf negb andb].
    destruct G as [G1 G2]. rewrite G1, G2. reflexivity. }
  destruct (String.eqb type_name "array").
  { ok_bind H. ok_bind H. ok_bind H. destruct (Nat.ltb _ 2) eqn:E; [discriminate|]. inversion H; subst.
    cbn [wf]. apply Nat.ltb_ge in E. apply Nat.leb_le in E. rewrite E. cbn. eapply Hvt; eauto. }
  destruct (String.eqb type_name "anon map").
  { ok_bind H. ok_bind H. rename a0 into vt. ok_bind H. rename a0 into mn. ok_bind H. rename a0 into mx. ok_bind H.
    destruct (match mx with Some 0%nat => true | _ => false end) eqn:Ez; [discriminate|]. ok_bind H. rename a1 into isz.
    destruct (_ || _) eqn:Eb; [discriminate|]. inversion H; subst. cbn [wf].
    match goal with Hv : value_type = Ok ?v |- _ => rewrite (Hvt _ Hv) end. cbn [andb].
    apply orb_false_iff in Eb. destruct Eb as [E1 E2].
    destruct mn as [lo|], mx as [hi|]; cbn [andb];
      repeat match goal with
             | H : Nat.ltb _ _ = false |- _ => apply Nat.ltb_ge in H
             end;
      try (destruct (Nat.leb hi lo) eqn:E; [discriminate|]; apply Nat.leb_gt in E);
      try (destruct hi; [discriminate|]);
      repeat (apply andb_true_intro; split); try reflexivity;
      try (apply Nat.leb_le; lia); try (apply Nat.ltb_lt; lia). }
  destruct (String.eqb type_name "variant").
  { ok_bind H. rename a into io. ok_bind H. rename a into os.
    destruct (Nat.ltb (length os) 2) eqn:El; [discriminate|].
    destruct (mem_s _ (map fst os)) eqn:Em; [|discriminate]. cbn [negb] in H. inversion H; subst.
    assert (G : nodup_s (map fst os) = true /\ forallb (fun kv => wf (snd kv)) os = true).
    { eapply (mems_loop_wf (build_node f e)); [| | |exact Ha1]; [intros; eapply IH; eauto | reflexivity | reflexivity]. }
    destruct G as [G1 G2]. cbn [wf]. apply Nat.ltb_ge in El. apply Nat.leb_le in El. rewrite El, G1, Em, G2. reflexivity. }
  destruct (String.eqb type_name "enum"); [eapply build_enum_wf; eauto|].
  destruct (String.eqb type_name "optional").
  { ok_bind H. ok_bind H. ok_bind H. inversion H; subst. cbn [wf]. eapply Hvt; eauto. }
  destruct (String.eqb type_name "const"); [eapply build_const_wf; eauto|].
  destruct (slookup type_name e) as [s0|] eqn:El; [|discriminate].
  ok_bind H. inversion H; subst. eapply env_lookup_wf; eauto.
Qed.

Theorem build_wf y s : build y = Ok s -> wf s = true.
Proof. unfold build. apply build_node_wf. reflexivity. Qed.

(** ** the initial value of a well-formed spec conforms to it *)
Lemma slookup_map_init k (ms : list (string * spec)) :
  slookup k (map (fun kv => (fst kv, init_val (snd kv))) ms) = option_map init_val (slookup k ms).
Proof.
  induction ms as [|[k' s'] ms IH]; cbn; [reflexivity|]. destruct (String.eqb k k'); [reflexivity|exact IH].
Qed.

Lemma slookup_nodup_in k s (ms : list (string * spec)) :
  nodup_s (map fst ms) = true -> In (k, s) ms -> slookup k ms = Some s.
Proof.
  induction ms as [|[k' s'] ms IH]; cbn; intros N H; [contradiction|].
  apply andb_prop in N. destruct N as [N1 N2]. destruct H as [H|H].
  - inversion H; subst. rewrite String.eqb_refl. reflexivity.
  - destruct (String.eqb k k') eqn:E.
    + apply String.eqb_eq in E. subst. exfalso. apply negb_true_iff in N1.
      assert (G : existsb (String.eqb k') (map fst ms) = true).
      { apply existsb_exists. exists k'. split; [|apply String.eqb_refl]. apply in_map_iff. exists (k', s). auto. }
      congruence.
    + apply IH; assumption.
Qed.

Lemma nodup_n_seq n : nodup_n (map N.of_nat (seq 0 n)) = true.
Proof.
  assert (G : forall n a, nodup_n (map N.of_nat (seq a n)) = true).
  { clear. induction n as [|n IH]; intros a; cbn; [reflexivity|]. rewrite IH. rewrite andb_true_r.
    apply negb_true_iff. destruct (existsb _ _) eqn:E; [|reflexivity]. exfalso.
    apply existsb_exists in E. destruct E as [x [Hx Ex]]. apply N.eqb_eq in Ex. subst x.
    apply in_map_iff in Hx. destruct Hx as [y [Ey Hy]]. apply in_seq in Hy. lia. }
  apply G.
Qed.

Theorem wf_init_conforms : forall s, wf s = true -> conforms s (init_val s) = true.
Proof.
  unfold conforms. induction s using spec_ind'; intros W; cbn [wf] in W; cbn [init_val conforms_g].
  - (* real *)
    repeat (apply andb_prop in W; destruct W as [W ?]).
    rewrite W. cbn [negb orb andb].
    repeat match goal with H : _ = true |- _ => rewrite H end. reflexivity.
  - repeat (apply andb_prop in W; destruct W as [W ?]).
    destruct mn, mx; cbn in *; repeat match goal with H : _ = true |- _ => rewrite H end; reflexivity.
  - reflexivity.
  - (* sub *)
    apply andb_prop in W. destruct W as [W W3]. apply andb_prop in W. destruct W as [W1 W2].
    rewrite map_map. cbn [fst].
    replace (map (fun x : string * spec => fst x) ms) with (map fst ms) by reflexivity.
    rewrite W2, map_length, Nat.eqb_refl. cbn [andb].
    apply forallb_forall. intros [k s'] Hin. cbn [fst snd]. rewrite slookup_map_init.
    rewrite (slookup_nodup_in k s' ms W2 Hin). cbn [option_map].
    rewrite Forall_forall in H. apply (H (k, s') Hin).
    rewrite forallb_forall in W3. apply (W3 (k, s') Hin).
  - (* array *)
    apply andb_prop in W. destruct W as [W1 W2]. rewrite repeat_length, Nat.eqb_refl. cbn [andb].
    apply forallb_forall. intros x Hx. apply repeat_spec in Hx. subst. apply IHs. exact W2.
  - (* anon map *)
    repeat (apply andb_prop in W; destruct W as [W ?]).
    rewrite map_map. cbn [fst].
    replace (map (fun x : nat => N.of_nat x) (seq 0 i)) with (map N.of_nat (seq 0 i)) by reflexivity.
    rewrite nodup_n_seq. rewrite map_length, seq_length. cbn [andb].
    assert (G : forallb (fun kv : N * value => conforms_g true s (snd kv))
                        (map (fun k => (N.of_nat k, init_val s)) (seq 0 i)) = true).
    { apply forallb_forall. intros [k v] Hx. apply in_map_iff in Hx. destruct Hx as [y [E _]]. inversion E; subst. cbn. apply IHs. exact W. }
    rewrite G. destruct mn as [a|], mx as [b|]; cbn in *;
      repeat match goal with
             | H : _ && _ = true |- _ => apply andb_prop in H; destruct H
             end;
      repeat match goal with H : _ = true |- _ => rewrite H end; reflexivity.
  - (* variant *)
    repeat (apply andb_prop in W; destruct W as [W ?]).
    rename H0 into Wall. rename H1 into Wmem. clear W H2.
    rewrite slookup_map_init.
    revert H Wall Wmem. induction os as [|[k s'] os IHos]; intros HF Wall Wmem; cbn in *; [discriminate|].
    inversion HF; subst. apply andb_prop in Wall. destruct Wall as [Wa Wb].
    destruct (String.eqb i k) eqn:E; cbn.
    + apply H1. exact Wa.
    + apply IHos; assumption.
  - (* enum *)
    apply andb_prop in W. apply W.
  - destruct b; [apply IHs; exact W | reflexivity].
  - reflexivity.
Qed.

(** hence: the initial value of every accepted document conforms to the accepted spec *)
Theorem accepted_init_conforms y s : build y = Ok s -> conforms s (init_val s) = true.
Proof. intros H. apply wf_init_conforms. eapply build_wf; eauto. Qed.
