(** * CtlStruct: identity invariants of the controller model (ids, seeds, values,
    sample counts) — the content of C05 (second clause), C08, and of the
    "no panic" part of C15 for [transition_state]. *)
From Coq Require Import List Arith NArith Bool Lia Permutation.
From RecordUpdate Require Import RecordSet.
From Cambrian Require Import Ctl CtlProofs.
Import ListNotations.

Section Struct.
  Variables V M T : Type.
  Variable tcmp : T -> T -> comparison.
  Variable mean : list T -> T.
  Variable hit : T -> bool.
  Variables max_pop min_reeval ss : nat.
  Variable nc : N.
  Variable budget : option N.
  Variable init_val : V.
  Variable os : N -> orc V M.

  Notation ctl := (Ctl.ctl V M T).
  Notation ind := (Ctl.ind V M T).
  Notation algo := (Ctl.algo V M T).
  Notation pop_t := (Ctl.pop_t V M T).
  Notation push := (Ctl.push (T:=T) min_reeval ss init_val os).
  Notation push_n := (Ctl.push_n (T:=T) min_reeval ss init_val os).
  Notation init := (Ctl.init T min_reeval ss nc budget init_val os).
  Notation step := (Ctl.step tcmp mean hit max_pop min_reeval ss budget init_val os).
  Notation exec := (Ctl.exec tcmp mean hit max_pop min_reeval ss budget init_val os).
  Notation next_individual := (Ctl.next_individual (T:=T) min_reeval ss init_val).
  Notation process := (Ctl.process tcmp mean max_pop ss).
  Notation insert := (Ctl.insert (V:=V) (M:=M) tcmp).
  Notation kcmp := (Ctl.kcmp tcmp).
  Notation fail_turn := (Ctl.fail_turn (V:=V) (M:=M) (T:=T)).
  Notation count_turn := (Ctl.count_turn (V:=V) (M:=M) (T:=T)).
  Notation maxp := (Ctl.maxp (V:=V) (M:=M) (T:=T) budget).
  Notation maxc := (Ctl.maxc (V:=V) (M:=M) (T:=T) budget).

  (** ** list lemmas about the model's primitives *)
  Lemma take_split seed l i r :
    take (V:=V) (M:=M) (T:=T) seed l = Some (i, r) ->
    exists l1 l2, l = l1 ++ (seed, i) :: l2 /\ r = l1 ++ l2.
  Proof.
    revert i r. induction l as [|[s j] l IH]; intros i r H; cbn [take] in H; [discriminate|].
    destruct (N.eqb s seed) eqn:Es.
    - inversion H; subst. apply N.eqb_eq in Es. subst. exists [], r. split; reflexivity.
    - destruct (take seed l) as [[j' r']|] eqn:E; [|discriminate].
      inversion H; subst. destruct (IH _ _ eq_refl) as (l1 & l2 & E1 & E2). subst.
      exists ((s, j) :: l1), l2. split; reflexivity.
  Qed.

  Lemma take_perm seed l i r :
    take (V:=V) (M:=M) (T:=T) seed l = Some (i, r) -> Permutation l ((seed, i) :: r).
  Proof.
    intros H. destruct (take_split _ _ _ _ H) as (l1 & l2 & E1 & E2). subst.
    symmetry. apply Permutation_middle.
  Qed.

  Lemma extract_split (p : pop_t) i p' :
    extract_best_ready p = Some (i, p') ->
    exists k l1 l2, p = l1 ++ (k, i) :: l2 /\ p' = l1 ++ l2 /\ is_ready i = true.
  Proof.
    revert i p'. induction p as [|[k j] p IH]; intros i p' H; cbn [extract_best_ready] in H; [discriminate|].
    destruct (is_ready j) eqn:Er.
    - inversion H; subst. exists k, [], p'. repeat split; auto.
    - destruct (extract_best_ready p) as [[j' r']|] eqn:E; [|discriminate].
      inversion H; subst. destruct (IH _ _ eq_refl) as (k' & l1 & l2 & E1 & E2 & E3). subst.
      exists k', ((k, j) :: l1), l2. repeat split; auto.
  Qed.

  Lemma extract_perm (p : pop_t) i p' :
    extract_best_ready p = Some (i, p') -> exists k, Permutation p ((k, i) :: p') /\ is_ready i = true.
  Proof.
    intros H. destruct (extract_split _ _ _ H) as (k & l1 & l2 & E1 & E2 & E3). subst.
    exists k. split; [symmetry; apply Permutation_middle | exact E3].
  Qed.

  Lemma insert_in k i (p : pop_t) x : In x (insert k i p) -> x = (k, i) \/ In x p.
  Proof.
    induction p as [|[k' i'] p IH]; cbn [Ctl.insert]; intros H.
    - destruct H as [H|[]]; left; auto.
    - destruct (kcmp k k').
      + destruct H as [H|H]; [left; auto | right; right; exact H].
      + destruct H as [H|H]; [left; auto | right; exact H].
      + destruct H as [H|H]; [right; left; exact H|].
        destruct (IH H) as [G|G]; [left; exact G | right; right; exact G].
  Qed.

  Lemma insert_perm k i (p : pop_t) :
    (forall k' i', In (k', i') p -> kcmp k k' <> Eq) -> Permutation (insert k i p) ((k, i) :: p).
  Proof.
    induction p as [|[k' i'] p IH]; cbn [Ctl.insert]; intros H; [reflexivity|].
    destruct (kcmp k k') eqn:E.
    - exfalso. apply (H k' i'); [left; reflexivity | exact E].
    - reflexivity.
    - rewrite IH; [apply perm_swap|]. intros k2 i2 Hin. apply (H k2 i2). right. exact Hin.
  Qed.

  Lemma firstn_incl {A} n (l : list A) x : In x (firstn n l) -> In x l.
  Proof. intros H. rewrite <- (firstn_skipn n l). apply in_or_app. left. exact H. Qed.

  Lemma NoDup_app_l {A} (l1 l2 : list A) : NoDup (l1 ++ l2) -> NoDup l1.
  Proof.
    induction l1 as [|a l1 IH]; cbn; intros H; [constructor|].
    inversion H; subst. constructor; [|apply IH; assumption].
    intros Hin. apply H2. apply in_or_app. left. exact Hin.
  Qed.

  Lemma NoDup_map_firstn {A B} (f : A -> B) n (l : list A) : NoDup (map f l) -> NoDup (map f (firstn n l)).
  Proof.
    intros H. rewrite <- (firstn_skipn n l), map_app in H. apply NoDup_app_l in H. exact H.
  Qed.

  Lemma NoDup_snoc {A} (l : list A) a : NoDup l -> ~ In a l -> NoDup (l ++ [a]).
  Proof.
    intros H1 H2. apply (Permutation_NoDup (l := a :: l)); [|constructor; assumption].
    apply Permutation_cons_append.
  Qed.

  (** ** the structural invariant *)
  Definition ids_infl (c : ctl) : list N := map (fun x => i_id (snd x)) (c_infl c).
  Definition ids_pop (a : algo) : list N := map (fun x => i_id (snd x)) (a_pop a).
  Definition cnt (c : ctl) (j : N) : nat :=
    length (filter (fun x => N.eqb (fst (fst x)) j) (c_started c)).

  Arguments cnt : simpl never.

  Definition st_ok_infl (c : ctl) (i : ind) : Prop :=
    exists vs, i_st i = PendingEval vs /\ cnt c (i_id i) = S (length vs) /\ (length vs < ss)%nat.
  Definition st_ok_pop (c : ctl) (i : ind) : Prop :=
    match i_st i with
    | Ready vs => cnt c (i_id i) = length vs /\ (length vs < ss)%nat
    | Final _ => (cnt c (i_id i) <= ss)%nat
    | PendingEval _ => False
    end.

  Record InvS (c : ctl) : Prop := {
    s_nodup : NoDup (ids_infl c ++ ids_pop (c_algo c));
    s_lt : forall j, In j (ids_infl c ++ ids_pop (c_algo c)) -> (j < a_next_id (c_algo c))%N;
    s_started_lt : forall id s v, In (id, s, v) (c_started c) -> (id < a_next_id (c_algo c))%N;
    s_same_val : forall id s v s' v', In (id, s, v) (c_started c) -> In (id, s', v') (c_started c) -> v = v';
    s_infl_started : forall s i, In (s, i) (c_infl c) -> In (i_id i, s, i_val i) (c_started c);
    s_pop_started : forall k i, In (k, i) (a_pop (c_algo c)) -> exists s, In (i_id i, s, i_val i) (c_started c);
    s_key_id : forall k i, In (k, i) (a_pop (c_algo c)) -> snd k = i_id i;
    s_infl_st : forall s i, In (s, i) (c_infl c) -> st_ok_infl c i;
    s_pop_st : forall k i, In (k, i) (a_pop (c_algo c)) -> st_ok_pop c i;
    s_cnt : forall j, (cnt c j <= ss)%nat;
    s_seeds : map (fun x => snd (fst x)) (c_started c) = map N.of_nat (seq 0 (length (c_started c)));
    s_next_seed : c_next_seed c = N.of_nat (length (c_started c));
    s_infl_seeds : NoDup (map fst (c_infl c));
    s_first : forall x, nth_error (c_started c) 0 = Some x -> x = (0%N, 0%N, init_val);
    s_init_used : a_init_used (c_algo c) = false -> c_started c = [] /\ a_next_id (c_algo c) = 0%N;
    s_init_used2 : a_init_used (c_algo c) = true -> c_started c <> [];
  }.

  Hypothesis ss_pos : (1 <= ss)%nat.

  (** cnt is unchanged by updates that leave [c_started] alone *)
  Lemma cnt_ext (c c' : ctl) j : c_started c' = c_started c -> cnt c' j = cnt c j.
  Proof. unfold cnt. intros ->. reflexivity. Qed.

  Lemma cnt_app (c c' : ctl) id s v j :
    c_started c' = c_started c ++ [(id, s, v)] ->
    cnt c' j = (cnt c j + if N.eqb id j then 1 else 0)%nat.
  Proof.
    unfold cnt. intros ->. rewrite filter_app, app_length. cbn. destruct (N.eqb id j); cbn; lia.
  Qed.

  Lemma cnt_zero (c : ctl) j :
    (forall id s v, In (id, s, v) (c_started c) -> id <> j) -> cnt c j = 0%nat.
  Proof.
    unfold cnt. intros H. induction (c_started c) as [|[[id s] v] l IH]; [reflexivity|].
    cbn. destruct (N.eqb id j) eqn:E.
    - apply N.eqb_eq in E. exfalso. apply (H id s v); [left; reflexivity | exact E].
    - apply IH. intros id' s' v' Hin. apply (H id' s' v'). right. exact Hin.
  Qed.

  (** *** push preserves InvS *)
  Lemma InvS_push c : InvS c -> InvS (push c).
  Proof.
    intros I. unfold Ctl.push.
    destruct (next_individual (c_algo c) (os (c_next_seed c))) as [i a'] eqn:En.
    unfold Ctl.next_individual in En.
    set (o := os (c_next_seed c)) in *.
    assert (Hfresh : Ctl.fresh init_val (c_algo c) o = (i, a') ->
                     InvS (set (c_pushed (T:=T)) (fun _ => N.succ (c_pushed c))
                          (set (c_next_seed (T:=T)) (fun _ => N.succ (c_next_seed c))
                          (set (c_started (T:=T)) (fun _ => c_started c ++ [(i_id i, c_next_seed c, i_val i)])
                          (set (c_infl (T:=T)) (fun _ => c_infl c ++ [(c_next_seed c, i)])
                          (set (c_algo (T:=T)) (fun _ => a') c)))))).
    { clear En. intros Ef. unfold Ctl.fresh in Ef.
      destruct I as [I1 I2 I3 I4 I5 I6 I7 I8 I9 I10 I11 I12 I13 I14 I15 I16].
      set (v := if a_init_used (c_algo c) then o_val o else init_val) in *.
      set (m := if a_init_used (c_algo c) then Some (o_meta o) else None) in *.
      assert (Ei : i = mkInd (a_next_id (c_algo c)) v m (PendingEval []) /\
                   a' = mkAlgo (a_pop (c_algo c)) true (N.succ (a_next_id (c_algo c)))).
      { subst v m. destruct (a_init_used (c_algo c)); inversion Ef; subst; split; reflexivity. }
      destruct Ei as [Ei Ea]. subst i a'. clear Ef.
      set (nid := a_next_id (c_algo c)) in *.
      assert (Hnew : forall id s v0, In (id, s, v0) (c_started c) -> id <> nid).
      { intros id s v0 Hin E. specialize (I3 _ _ _ Hin). subst nid. lia. }
      constructor; cbn.
      - (* nodup *)
        unfold ids_infl, ids_pop in *. cbn. rewrite map_app. cbn. rewrite <- app_assoc. cbn.
        apply (Permutation_NoDup (l := nid :: (map (fun x => i_id (snd x)) (c_infl c) ++ map (fun x => i_id (snd x)) (a_pop (c_algo c))))).
        + apply Permutation_middle.
        + constructor; [|exact I1]. intros Hin. specialize (I2 _ Hin). subst nid. lia.
      - intros j Hj. unfold ids_infl, ids_pop in *. cbn in Hj. rewrite map_app in Hj. cbn in Hj.
        rewrite <- app_assoc in Hj. apply in_app_or in Hj. destruct Hj as [Hj|[Hj|Hj]].
        + specialize (I2 j (in_or_app _ _ _ (or_introl Hj))). lia.
        + subst j. lia.
        + specialize (I2 j (in_or_app _ _ _ (or_intror Hj))). lia.
      - intros id s v0 Hin. apply in_app_or in Hin. destruct Hin as [Hin|[Hin|[]]].
        + specialize (I3 _ _ _ Hin). lia.
        + inversion Hin; subst. lia.
      - intros id s v0 s' v' H1 H2. apply in_app_or in H1. apply in_app_or in H2.
        destruct H1 as [H1|[H1|[]]]; destruct H2 as [H2|[H2|[]]].
        + eapply I4; eauto.
        + inversion H2; subst. exfalso. eapply Hnew; eauto.
        + inversion H1; subst. exfalso. eapply Hnew; eauto.
        + inversion H1; inversion H2; subst. reflexivity.
      - intros s i Hin. apply in_app_or in Hin. destruct Hin as [Hin|[Hin|[]]].
        + apply in_or_app. left. apply I5. exact Hin.
        + inversion Hin; subst. apply in_or_app. right. left. reflexivity.
      - intros k i Hin. destruct (I6 k i Hin) as [s Hs]. exists s. apply in_or_app. left. exact Hs.
      - exact I7.
      - intros s i Hin. apply in_app_or in Hin. destruct Hin as [Hin|[Hin|[]]].
        + destruct (I8 s i Hin) as (vs & E1 & E2 & E3). exists vs. split; [exact E1|]. split; [|exact E3].
          erewrite cnt_app by (cbn; reflexivity). cbn.
          assert (nid <> i_id i).
          { intros E. specialize (I5 s i Hin). eapply Hnew; eauto. }
          destruct (N.eqb nid (i_id i)) eqn:Eq; [apply N.eqb_eq in Eq; contradiction|]. lia.
        + inversion Hin; subst. exists []. split; [reflexivity|]. cbn. split; [|lia].
          erewrite cnt_app by (cbn; reflexivity). cbn. rewrite N.eqb_refl.
          rewrite (cnt_zero c nid Hnew). reflexivity.
      - intros k i Hin. specialize (I9 k i Hin). unfold st_ok_pop in *.
        assert (nid <> i_id i).
        { intros E. destruct (I6 k i Hin) as [s Hs]. eapply Hnew; eauto. }
        assert (Ec : cnt (set (c_pushed (T:=T)) (fun _ => N.succ (c_pushed c))
                          (set (c_next_seed (T:=T)) (fun _ => N.succ (c_next_seed c))
                          (set (c_started (T:=T)) (fun _ => c_started c ++ [(nid, c_next_seed c, v)])
                          (set (c_infl (T:=T)) (fun _ => c_infl c ++ [(c_next_seed c, mkInd nid v m (PendingEval []))])
                          (set (c_algo (T:=T)) (fun _ => mkAlgo (a_pop (c_algo c)) true (N.succ nid)) c))))) (i_id i) = cnt c (i_id i)).
        { erewrite cnt_app by (cbn; reflexivity). cbn.
          destruct (N.eqb nid (i_id i)) eqn:Eq; [apply N.eqb_eq in Eq; contradiction|]. lia. }
        cbn in Ec. destruct (i_st i); [exact I9 | rewrite Ec; exact I9 | rewrite Ec; exact I9].
      - intros j. erewrite cnt_app by (cbn; reflexivity). cbn.
        destruct (N.eqb nid j) eqn:Eq.
        + apply N.eqb_eq in Eq. subst j. rewrite (cnt_zero c nid Hnew). lia.
        + specialize (I10 j). lia.
      - rewrite map_app, app_length. cbn. rewrite I11. rewrite Nat.add_1_r, seq_S, map_app. cbn.
        rewrite I12. reflexivity.
      - rewrite app_length. cbn. rewrite I12. lia.
      - rewrite map_app. cbn. apply NoDup_snoc; [exact I13|]. intros Hin. apply in_map_iff in Hin. destruct Hin as [[s i] [E Hin]]. cbn in E. subst s.
          specialize (I5 _ _ Hin).
          assert (Hs : In (c_next_seed c) (map (fun x => snd (fst x)) (c_started c))).
          { apply in_map_iff. exists (i_id i, c_next_seed c, i_val i). split; [reflexivity | exact I5]. }
          rewrite I11 in Hs. apply in_map_iff in Hs. destruct Hs as [n [E Hn]]. apply in_seq in Hn.
          rewrite I12 in E. lia.
      - intros x Hx. destruct (c_started c) as [|y l] eqn:El.
        + cbn in Hx. inversion Hx; subst. subst v nid.
          destruct (a_init_used (c_algo c)) eqn:Eu.
          * (* cannot happen: init_used = true means something was started *)
            exfalso. apply (I16 eq_refl). reflexivity.
          * destruct (I15 eq_refl) as [_ E0]. rewrite E0. rewrite I12. reflexivity.
        + cbn in Hx. apply I14. exact Hx.
      - discriminate.
      - intros _. destruct (c_started c); discriminate. }
    destruct (Ctl.try_reeval min_reeval ss (c_algo c) o) eqn:Etr; [|apply Hfresh; exact En].
    destruct (extract_best_ready (a_pop (c_algo c))) as [[j p']|] eqn:Ex; [|apply Hfresh; exact En].
      inversion En; subst i a'. clear En Hfresh.
      destruct (extract_split _ _ _ Ex) as (k & l1 & l2 & Ep & Ep' & Er).
      assert (Perm : Permutation (a_pop (c_algo c)) ((k, j) :: p')).
      { rewrite Ep, Ep'. symmetry. apply Permutation_middle. }
      destruct I as [I1 I2 I3 I4 I5 I6 I7 I8 I9 I10 I11 I12 I13 I14 I15 I16].
      assert (Hjin : In (k, j) (a_pop (c_algo c))).
      { rewrite Ep. apply in_or_app. right. left. reflexivity. }
      assert (Hsub : forall x, In x p' -> In x (a_pop (c_algo c))).
      { intros x Hx. apply (Permutation_in (l := (k, j) :: p')); [symmetry; exact Perm | right; exact Hx]. }
      pose proof (I9 k j Hjin) as Hst. unfold st_ok_pop in Hst. unfold is_ready in Er.
      destruct (i_st j) as [vs|vs|x] eqn:Est; try discriminate. destruct Hst as [Hc1 Hc2].
      destruct (I6 k j Hjin) as [s0 Hs0].
      assert (PermIds : Permutation (ids_infl c ++ ids_pop (c_algo c))
                                    (i_id j :: (ids_infl c ++ map (fun x => i_id (snd x)) p'))).
      { unfold ids_pop. rewrite (Permutation_map (fun x => i_id (snd x)) Perm). cbn.
        symmetry. apply Permutation_middle. }
      pose proof (Permutation_NoDup PermIds I1) as ND. pose proof ND as ND0. apply NoDup_cons_iff in ND0. destruct ND0 as [Hnotin ND'].
      set (j' := set_st j (PendingEval vs)).
      assert (Hidj : i_id j' = i_id j) by reflexivity.
      assert (Hvalj : i_val j' = i_val j) by reflexivity.
      constructor; cbn.
      - unfold ids_infl, ids_pop. cbn. rewrite map_app. cbn. rewrite <- app_assoc. cbn.
        apply (Permutation_NoDup (l := i_id j :: (ids_infl c ++ map (fun x => i_id (snd x)) p'))); [|exact ND].
        apply Permutation_middle.
      - intros i0 Hi. apply I2. apply (Permutation_in (l := i_id j :: (ids_infl c ++ map (fun x => i_id (snd x)) p'))); [symmetry; exact PermIds|].
        unfold ids_infl, ids_pop in Hi. cbn in Hi. rewrite map_app in Hi. cbn in Hi. rewrite <- app_assoc in Hi.
        apply in_app_or in Hi. destruct Hi as [Hi|[Hi|Hi]].
        + right. apply in_or_app. left. exact Hi.
        + left. exact Hi.
        + right. apply in_or_app. right. exact Hi.
      - intros id s v0 Hin. apply in_app_or in Hin. destruct Hin as [Hin|[Hin|[]]].
        + eapply I3; eauto.
        + inversion Hin; subst. eapply I3; eauto.
      - intros id s v0 s' v' H1 H2. apply in_app_or in H1. apply in_app_or in H2.
        destruct H1 as [H1|[H1|[]]]; destruct H2 as [H2|[H2|[]]].
        + eapply I4; eauto.
        + inversion H2; subst. eapply I4; eauto.
        + inversion H1; subst. eapply I4; eauto.
        + inversion H1; inversion H2; subst. reflexivity.
      - intros s i Hin. apply in_app_or in Hin. destruct Hin as [Hin|[Hin|[]]].
        + apply in_or_app. left. apply I5. exact Hin.
        + inversion Hin; subst. apply in_or_app. right. left. reflexivity.
      - intros k0 i Hin. destruct (I6 k0 i (Hsub _ Hin)) as [s Hs]. exists s. apply in_or_app. left. exact Hs.
      - intros k0 i Hin. apply I7. apply Hsub. exact Hin.
      - intros s i Hin. apply in_app_or in Hin. destruct Hin as [Hin|[Hin|[]]].
        + destruct (I8 s i Hin) as (vs0 & E1 & E2 & E3). exists vs0. split; [exact E1|]. split; [|exact E3].
          erewrite cnt_app by (cbn; reflexivity).
          assert (i_id j <> i_id i).
          { intros E. apply Hnotin. apply in_or_app. left. unfold ids_infl. apply in_map_iff.
            exists (s, i). split; [cbn; symmetry; exact E | exact Hin]. }
          destruct (N.eqb (i_id j) (i_id i)) eqn:Eq; [apply N.eqb_eq in Eq; contradiction|]. lia.
        + inversion Hin; subst. exists vs. split; [reflexivity|]. split; [|exact Hc2].
          erewrite cnt_app by (cbn; reflexivity). cbn. rewrite N.eqb_refl. lia.
      - intros k0 i Hin. pose proof (I9 k0 i (Hsub _ Hin)) as H9. unfold st_ok_pop in *.
        assert (i_id j <> i_id i).
        { intros E. apply Hnotin. apply in_or_app. right. apply in_map_iff.
          exists (k0, i). split; [cbn; symmetry; exact E | exact Hin]. }
        assert (Ec : forall c', c_started c' = c_started c ++ [(i_id j, c_next_seed c, i_val j)] -> cnt c' (i_id i) = cnt c (i_id i)).
        { intros c' Hc'. erewrite cnt_app by exact Hc'.
          destruct (N.eqb (i_id j) (i_id i)) eqn:Eq; [apply N.eqb_eq in Eq; contradiction|]. lia. }
        destruct (i_st i); [exact H9 | rewrite Ec by reflexivity; exact H9 | rewrite Ec by reflexivity; exact H9].
      - intros i0. erewrite cnt_app by (cbn; reflexivity).
        destruct (N.eqb (i_id j) i0) eqn:Eq.
        + apply N.eqb_eq in Eq. subst i0. lia.
        + specialize (I10 i0). lia.
      - rewrite map_app, app_length. cbn. rewrite I11. rewrite Nat.add_1_r, seq_S, map_app. cbn.
        rewrite I12. reflexivity.
      - rewrite app_length. cbn. rewrite I12. lia.
      - rewrite map_app. cbn. apply NoDup_snoc; [exact I13|]. intros Hin.
        apply in_map_iff in Hin. destruct Hin as [[s i] [E Hin]]. cbn in E. subst s.
        specialize (I5 _ _ Hin).
        assert (Hs : In (c_next_seed c) (map (fun x => snd (fst x)) (c_started c))).
        { apply in_map_iff. exists (i_id i, c_next_seed c, i_val i). split; [reflexivity | exact I5]. }
        rewrite I11 in Hs. apply in_map_iff in Hs. destruct Hs as [n [E Hn]]. apply in_seq in Hn.
        rewrite I12 in E. lia.
      - intros x Hx. apply I14. destruct (c_started c) as [|y l]; [destruct Hs0|]. cbn in Hx |- *. exact Hx.
      - intros Hu. destruct (I15 Hu) as [E0 _]. rewrite E0 in Hs0. destruct Hs0.
      - intros _. destruct (c_started c); discriminate.
  Qed.

  (** *** changes that do not touch the structure *)
  Lemma InvS_ext (c c' : ctl) :
    c_algo c' = c_algo c -> c_infl c' = c_infl c -> c_started c' = c_started c ->
    c_next_seed c' = c_next_seed c -> InvS c -> InvS c'.
  Proof.
    intros Ea Ei Es En [I1 I2 I3 I4 I5 I6 I7 I8 I9 I10 I11 I12 I13 I14 I15 I16].
    assert (Ec : forall j, cnt c' j = cnt c j) by (intros j; apply cnt_ext; exact Es).
    constructor; unfold ids_infl, st_ok_infl, st_ok_pop in *; rewrite ?Ea, ?Ei, ?Es, ?En; try assumption.
    - intros s i Hin. destruct (I8 s i Hin) as (vs & E1 & E2 & E3). exists vs. rewrite Ec. auto.
    - intros k i Hin. specialize (I9 k i Hin). rewrite Ec. exact I9.
    - intros j. rewrite Ec. apply I10.
  Qed.

  (** *** an evaluation leaves the in-flight set and is dropped *)
  Lemma InvS_drop (c c' : ctl) seed i rest :
    take seed (c_infl c) = Some (i, rest) ->
    c_algo c' = c_algo c -> c_infl c' = rest -> c_started c' = c_started c ->
    c_next_seed c' = c_next_seed c -> InvS c -> InvS c'.
  Proof.
    intros Ht Ea Ei Es En [I1 I2 I3 I4 I5 I6 I7 I8 I9 I10 I11 I12 I13 I14 I15 I16].
    pose proof (take_perm _ _ _ _ Ht) as Perm.
    assert (Hsub : forall x, In x rest -> In x (c_infl c)).
    { intros x Hx. apply (Permutation_in (l := (seed, i) :: rest)); [symmetry; exact Perm | right; exact Hx]. }
    assert (Ec : forall j, cnt c' j = cnt c j) by (intros j; apply cnt_ext; exact Es).
    assert (PermIds : Permutation (ids_infl c ++ ids_pop (c_algo c))
                                  (i_id i :: (map (fun x => i_id (snd x)) rest ++ ids_pop (c_algo c)))).
    { unfold ids_infl. rewrite (Permutation_map (fun x => i_id (snd x)) Perm). reflexivity. }
    constructor; unfold ids_infl, st_ok_infl, st_ok_pop in *; rewrite ?Ea, ?Ei, ?Es, ?En; try assumption.
    - pose proof (Permutation_NoDup PermIds I1) as ND. apply NoDup_cons_iff in ND. apply ND.
    - intros j Hj. apply I2. apply (Permutation_in (l := i_id i :: (map (fun x => i_id (snd x)) rest ++ ids_pop (c_algo c)))); [symmetry; exact PermIds | right; exact Hj].
    - intros s i0 Hin. apply I5. apply Hsub. exact Hin.
    - intros s i0 Hin. destruct (I8 s i0 (Hsub _ Hin)) as (vs & E1 & E2 & E3). exists vs. rewrite Ec. auto.
    - intros k i0 Hin. specialize (I9 k i0 Hin). rewrite Ec. exact I9.
    - intros j. rewrite Ec. apply I10.
    - pose proof (Permutation_NoDup (Permutation_map fst Perm) I13) as ND. apply NoDup_cons_iff in ND. apply ND.
  Qed.

  (** *** an accepted result: the individual moves from the in-flight set into the population *)
  Lemma InvS_accept (c c' : ctl) seed i rest x a' :
    take seed (c_infl c) = Some (i, rest) ->
    process (c_algo c) i (Some x) = Some a' ->
    c_algo c' = a' -> c_infl c' = rest -> c_started c' = c_started c ->
    c_next_seed c' = c_next_seed c -> InvS c -> InvS c'.
  Proof.
    intros Ht Hp Ea Ei Es En [I1 I2 I3 I4 I5 I6 I7 I8 I9 I10 I11 I12 I13 I14 I15 I16].
    pose proof (take_perm _ _ _ _ Ht) as Perm.
    assert (Hiin : In (seed, i) (c_infl c)).
    { apply (Permutation_in (l := (seed, i) :: rest)); [symmetry; exact Perm | left; reflexivity]. }
    assert (Hsub : forall y, In y rest -> In y (c_infl c)).
    { intros y Hy. apply (Permutation_in (l := (seed, i) :: rest)); [symmetry; exact Perm | right; exact Hy]. }
    assert (Ec : forall j, cnt c' j = cnt c j) by (intros j; apply cnt_ext; exact Es).
    destruct (I8 seed i Hiin) as (vs & Est & Ecnt & Elen).
    unfold Ctl.process, Ctl.transition in Hp. rewrite Est in Hp. inversion Hp as [Ha']. clear Hp.
    set (st' := if Nat.eqb (length (vs ++ [x])) ss then Final (mean (vs ++ [x])) else Ready (vs ++ [x])) in *.
    set (i' := set_st i st') in *.
    set (k := (summary mean st', i_id i)) in *.
    assert (PermIds : Permutation (ids_infl c ++ ids_pop (c_algo c))
                                  (i_id i :: (map (fun y => i_id (snd y)) rest ++ ids_pop (c_algo c)))).
    { unfold ids_infl. rewrite (Permutation_map (fun y => i_id (snd y)) Perm). reflexivity. }
    pose proof (Permutation_NoDup PermIds I1) as ND. apply NoDup_cons_iff in ND. destruct ND as [Hnotin ND].
    assert (Hkne : forall k' i0, In (k', i0) (a_pop (c_algo c)) -> kcmp k k' <> Eq).
    { intros k' i0 Hin E. unfold Ctl.kcmp in E. subst k. cbn in E.
      destruct (tcmp (summary mean st') (fst k')); try discriminate.
      apply N.compare_eq in E. apply Hnotin. apply in_or_app. right. unfold ids_pop.
      apply in_map_iff. exists (k', i0). split; [cbn; rewrite <- (I7 k' i0 Hin); symmetry; exact E | exact Hin]. }
    pose proof (insert_perm k i' (a_pop (c_algo c)) Hkne) as PermIns.
    set (ins := insert k i' (a_pop (c_algo c))) in *.
    assert (Hpop : a_pop a' = firstn max_pop ins) by (rewrite <- Ha'; reflexivity).
    assert (Hnid : a_next_id a' = a_next_id (c_algo c)) by (rewrite <- Ha'; reflexivity).
    assert (Hiu : a_init_used a' = a_init_used (c_algo c)) by (rewrite <- Ha'; reflexivity).
    assert (Hinpop : forall y, In y (a_pop a') -> y = (k, i') \/ In y (a_pop (c_algo c))).
    { intros y Hy. rewrite Hpop in Hy. apply firstn_incl in Hy. apply insert_in in Hy. exact Hy. }
    assert (Hlen' : length (vs ++ [x]) = S (length vs)) by (rewrite app_length; cbn; lia).
    constructor; unfold ids_infl, ids_pop, st_ok_infl, st_ok_pop in *; rewrite ?Ea, ?Ei, ?Es, ?En, ?Hnid, ?Hiu; try assumption.
    - (* nodup *)
      rewrite Hpop.
      assert (NDall : NoDup (map (fun y => i_id (snd y)) rest ++ map (fun y => i_id (snd y)) ins)).
      { rewrite (Permutation_map (fun y => i_id (snd y)) PermIns). cbn.
        apply (Permutation_NoDup (l := i_id i :: (map (fun y => i_id (snd y)) rest ++ map (fun y => i_id (snd y)) (a_pop (c_algo c))))).
        - apply Permutation_middle.
        - constructor; assumption. }
      rewrite <- (firstn_skipn max_pop ins) in NDall. rewrite map_app, app_assoc in NDall.
      apply NoDup_app_l in NDall. exact NDall.
    - intros j Hj. apply in_app_or in Hj. destruct Hj as [Hj|Hj].
      + apply I2. apply in_or_app. left. apply in_map_iff in Hj. destruct Hj as [y [E Hy]].
        apply in_map_iff. exists y. split; [exact E | apply Hsub; exact Hy].
      + apply in_map_iff in Hj. destruct Hj as [y [E Hy]]. destruct (Hinpop y Hy) as [Hy'|Hy'].
        * subst y j. cbn. apply I2. apply in_or_app. left. apply in_map_iff. exists (seed, i). split; [reflexivity|exact Hiin].
        * apply I2. apply in_or_app. right. apply in_map_iff. exists y. split; assumption.
    - intros s i0 Hin. apply I5. apply Hsub. exact Hin.
    - intros k0 i0 Hin. destruct (Hinpop _ Hin) as [Hy|Hy].
      + inversion Hy; subst. exists seed. cbn. apply I5. exact Hiin.
      + eapply I6; eauto.
    - intros k0 i0 Hin. destruct (Hinpop _ Hin) as [Hy|Hy].
      + inversion Hy; subst. reflexivity.
      + eapply I7; eauto.
    - intros s i0 Hin. destruct (I8 s i0 (Hsub _ Hin)) as (vs0 & E1 & E2 & E3). exists vs0. rewrite Ec. auto.
    - intros k0 i0 Hin. destruct (Hinpop _ Hin) as [Hy|Hy].
      + inversion Hy; subst. cbn. rewrite Ec. subst st'.
        destruct (Nat.eqb (length (vs ++ [x])) ss) eqn:El.
        * specialize (I10 (i_id i)). exact I10.
        * apply Nat.eqb_neq in El. split; lia.
      + specialize (I9 k0 i0 Hy). rewrite Ec. exact I9.
    - intros j. rewrite Ec. apply I10.
    - pose proof (Permutation_NoDup (Permutation_map fst Perm) I13) as ND2. apply NoDup_cons_iff in ND2. apply ND2.
  Qed.

  Lemma InvS_step c l : InvS c -> match step c l with Cont c' | Ret c' _ => InvS c' | _ => True end.
  Proof.
    revert c l. apply step_inv.
    - intros c I. apply (InvS_ext c); [reflexivity | reflexivity | reflexivity | reflexivity | exact I].
    - intros c seed i rest e I Ht. unfold Ctl.fail_turn. cbn.
      destruct (c_aborted c); apply (InvS_drop c _ seed i rest Ht); try reflexivity; exact I.
    - intros c seed i rest I Ht. apply (InvS_drop c _ seed i rest Ht); try reflexivity; exact I.
    - intros c seed i rest o a' I Ht Ho Hp. destruct o as [x| |e]; [| |destruct Ho].
      + apply (InvS_accept c _ seed i rest x a' Ht Hp); try reflexivity; exact I.
      + cbn in Hp. inversion Hp; subst. apply (InvS_drop c _ seed i rest Ht); try reflexivity; exact I.
    - intros c I _ _ _. apply InvS_push. exact I.
  Qed.

  Lemma InvS_push_n k : forall c, InvS c -> InvS (push_n k c).
  Proof. induction k as [|k IH]; intros c I; cbn [Ctl.push_n]; [exact I|]. apply IH. apply InvS_push. exact I. Qed.

  Lemma InvS_ctl0 : InvS (ctl0 V M T).
  Proof.
    constructor; cbn; try (intros; contradiction); try constructor; try reflexivity; try lia.
    - intros j. unfold cnt. cbn. lia.
    - intros x Hx. discriminate.
  Qed.

  Theorem InvS_reachable ls :
    match exec init ls with Cont c | Ret c _ => InvS c | _ => True end.
  Proof.
    pose proof (exec_lift V M T tcmp mean hit max_pop min_reeval ss budget init_val os InvS (fun c _ => InvS c)) as G.
    assert (G2 : match exec init ls with Cont c => InvS c | Ret c r => (fun c _ => InvS c) c r | _ => True end).
    { apply G.
      - intros c l I. pose proof (InvS_step c l I) as K. destruct (step c l); exact K.
      - apply InvS_push_n. apply InvS_ctl0. }
    destruct (exec init ls); exact G2.
  Qed.

  (** the [unreachable!()] of [transition_state] is never reached *)
  Theorem no_panic c l : InvS c -> step c l <> Panic.
  Proof.
    intros I. destruct l as [seed o ok| |]; cbn [Ctl.step]; try discriminate.
    - destruct (take seed (c_infl c)) as [[i rest]|] eqn:Ht; [|discriminate].
      unfold Ctl.done_turn. destruct o as [x| |e]; try discriminate.
      + unfold Ctl.ok_turn. destruct (negb ok); [discriminate|].
        assert (Hiin : In (seed, i) (c_infl c)).
        { apply (Permutation_in (l := (seed, i) :: rest)); [symmetry; eapply take_perm; eauto | left; reflexivity]. }
        destruct (s_infl_st c I seed i Hiin) as (vs & Est & _).
        cbn. unfold Ctl.process, Ctl.transition. rewrite Est. unfold Ctl.decide.
        repeat match goal with |- context [if ?b then _ else _] => destruct b end; discriminate.
      + unfold Ctl.ok_turn. destruct (negb ok); [discriminate|]. cbn. unfold Ctl.decide.
        repeat match goal with |- context [if ?b then _ else _] => destruct b end; discriminate.
    - destruct (c_infl c); discriminate.
  Qed.
End Struct.
