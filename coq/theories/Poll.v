(** * Poll: one [poll] of the controller future = the [loop { select! {..} }] iterated until both
    branches are pending.  The turn-level model (Ctl) says what a turn does; this file says which
    turns one poll takes and that it takes finitely many.

    - the abort branch is ready when the one-shot abort signal has been sent (a completed one-shot
      receiver stays ready for ever) and the branch is enabled: unconditionally, or — with the
      guard [if !abort_signal_received], regenerated from the source — only until it ran once;
    - the completion branch is ready when a completion is queued ([ready], in the order
      [FuturesUnordered] yields them) or nothing is in flight;
    - [select!] picks among the ready branches at random: [pick];
    - evaluations created during a poll do not complete within it (they take time).

    Proved: with the guard every poll returns after at most [length ready + 1] turns, for every
    state, queue and choice sequence.  Without it, once the signal was sent and while an
    evaluation is in flight that does not complete, the poll never returns (for every fuel the
    result is [PSpin]): the busy spin that was found and repaired in the implementation. *)
From Coq Require Import List Arith NArith Bool Lia.
From RecordUpdate Require Import RecordSet.
From Cambrian Require Import Ctl CtlProofs CtlStop.
Import ListNotations.

Section Poll.
  Variables V M T : Type.
  Variable tcmp : T -> T -> comparison.
  Variable mean : list T -> T.
  Variable hit : T -> bool.
  Variables max_pop min_reeval ss : nat.
  Variable budget : option N.
  Variable init_val : V.
  Variable os : N -> orc V M.
  Variable guard : bool.

  Notation ctl := (Ctl.ctl V M T).
  Notation step := (Ctl.step tcmp mean hit max_pop min_reeval ss budget init_val os).

  Inductive pres := PPending (c : ctl) | PReady (c : ctl) (r : result V T) | PSpin | PStuck | PPanic.

  Definition abort_ready (sent : bool) (c : ctl) : bool := sent && (negb guard || negb (c_aborted c)).

  Definition turn (c : ctl) (l : label T) (k : ctl -> pres) : pres :=
    match step c l with
    | Cont c' => k c'
    | Ret c' r => PReady c' r
    | Stuck => PStuck
    | Panic => PPanic
    end.

  Fixpoint poll (fuel : nat) (pick : nat -> bool) (sent : bool) (c : ctl) (ready : list (N * outcome T * bool)) : pres :=
    match fuel with
    | O => PSpin
    | S f =>
        let ab := abort_ready sent c in
        match ready with
        | [] =>
            if ab then turn c LAbort (fun c' => poll f pick sent c' [])
            else match c_infl c with
                 | [] => turn c LEmpty (fun c' => poll f pick sent c' [])
                 | _ => PPending c
                 end
        | (seed, o, ok) :: r =>
            if ab && pick f then turn c LAbort (fun c' => poll f pick sent c' ready)
            else turn c (LDone seed o ok) (fun c' => poll f pick sent c' r)
        end
    end.

  (** the abort flag only goes up *)
  Lemma aborted_mono c l :
    c_aborted c = true -> match step c l with Cont c' | Ret c' _ => c_aborted c' = true | _ => True end.
  Proof.
    intros Ha.
    pose proof (aborted_step V M T tcmp mean hit max_pop min_reeval ss budget init_val os
                  (c_started c) (c_pushed c) (length (c_infl c)) c l) as H.
    assert (H0 : Ab V M T (c_started c) (c_pushed c) (length (c_infl c)) c) by (unfold Ab; repeat split; auto).
    specialize (H H0). destruct (step c l); try exact I; apply H.
  Qed.

  Lemma abort_ready_mono sent c l :
    abort_ready sent c = false ->
    match step c l with Cont c' | Ret c' _ => abort_ready sent c' = false | _ => True end.
  Proof.
    unfold abort_ready. intros H. destruct sent; cbn in *; [|destruct (step c l); auto].
    destruct guard; cbn in *; [|discriminate].
    apply negb_false_iff in H. pose proof (aborted_mono c l H) as K.
    destruct (step c l); auto; rewrite K; reflexivity.
  Qed.

  Definition aborted_c (c : ctl) : ctl := set (c_aborted (T:=T)) (fun _ => true) c.
  Lemma step_abort c : step c LAbort = Cont (aborted_c c).  Proof. reflexivity. Qed.
  Lemma abort_turn_disables sent c : guard = true -> abort_ready sent (aborted_c c) = false.
  Proof. intros G. unfold abort_ready. rewrite G. cbn. apply andb_false_r. Qed.
  Lemma step_empty c : step c LEmpty = match c_infl c with [] => Ret c (Ctl.finish c) | _ => Stuck end.
  Proof. reflexivity. Qed.

  (** once the abort branch is disabled the poll consumes the queue and stops *)
  Lemma poll_drains sent : forall r pick c f,
    abort_ready sent c = false -> (length r < f)%nat -> poll f pick sent c r <> PSpin.
  Proof.
    induction r as [|[[s1 o1] k1] r IHr]; intros pick c f Hd Hl.
    - destruct f; [lia|]. cbn [poll]. rewrite Hd.
      destruct (c_infl c) eqn:Ei; [|discriminate]. unfold turn. rewrite step_empty, Ei. discriminate.
    - destruct f; [cbn in Hl; lia|]. cbn [poll]. rewrite Hd. cbn [andb]. unfold turn.
      pose proof (abort_ready_mono sent c (LDone s1 o1 k1) Hd) as Mo.
      destruct (step c (LDone s1 o1 k1)); try discriminate. apply IHr; [exact Mo|cbn in Hl; lia].
  Qed.

  (** *** with the guard every poll returns *)
  Theorem poll_returns :
    guard = true ->
    forall ready pick sent c fuel,
      (length ready + (if abort_ready sent c then 1 else 0) < fuel)%nat ->
      poll fuel pick sent c ready <> PSpin.
  Proof.
    intros G ready. induction ready as [|[[seed o] ok] r IH]; intros pick sent c fuel Hf.
    - destruct fuel as [|f]; [lia|]. cbn [poll].
      destruct (abort_ready sent c) eqn:Ea.
      + unfold turn. rewrite step_abort. apply poll_drains; [apply abort_turn_disables; exact G|cbn in *; lia].
      + destruct (c_infl c) eqn:Ei; [|discriminate]. unfold turn. rewrite step_empty, Ei. discriminate.
    - destruct fuel as [|f]; [lia|]. cbn [poll]. cbn [length] in Hf.
      destruct (abort_ready sent c && pick f) eqn:Eb.
      + apply andb_prop in Eb. destruct Eb as [Ea _]. rewrite Ea in Hf.
        unfold turn. rewrite step_abort. apply poll_drains; [apply abort_turn_disables; exact G|cbn [length]; lia].
      + unfold turn.
        destruct (abort_ready sent c) eqn:Ea.
        * destruct (step c (LDone seed o ok)) as [c'| | |] eqn:Es; try discriminate.
          apply IH. destruct (abort_ready sent c'); lia.
        * pose proof (abort_ready_mono sent c (LDone seed o ok) Ea) as Mo.
          destruct (step c (LDone seed o ok)) as [c'| | |] eqn:Es; try discriminate.
          apply IH. rewrite Mo. lia.
  Qed.

  (** *** without the guard a sent signal makes the poll spin while something stays in flight *)
  Theorem poll_spins_without_guard :
    guard = false ->
    forall fuel pick c, c_infl c <> [] -> poll fuel pick true c [] = PSpin.
  Proof.
    intros G fuel. induction fuel as [|f IH]; intros pick c Hi; [reflexivity|].
    cbn [poll]. unfold abort_ready. rewrite G. cbn [negb orb andb]. unfold turn. rewrite step_abort.
    apply IH. exact Hi.
  Qed.
End Poll.
