(** * Selection: the distribution of [SelectionImpl::select_ref] over ranks.

    The code walks the rank-ordered list, returning the current element with
    probability [p] (one Bernoulli(p) draw per element); when no draw fires it
    returns a uniformly chosen element.  [walk] follows that loop, carrying the
    probability mass that has not returned yet; probabilities are exact rationals.
    Proved: the result is a probability distribution over the ranks, and the
    probability of rank [i] never increases with [i]; at pressure 1 rank 0 is
    certain, at pressure 0 the choice is uniform. *)
From Coq Require Import List QArith Qfield Lia Lra Lqa Arith.
Import ListNotations.
Local Open Scope Q_scope.

Fixpoint walk (p mass : Q) (n : nat) : list Q * Q :=
  match n with
  | O => ([], mass)
  | S r => let (l, m) := walk p (mass * (1 - p)) r in (mass * p :: l, m)
  end.

Definition nq (n : nat) : Q := inject_Z (Z.of_nat n).

(** probability of returning rank 0, 1, ..., n-1 *)
Definition sel_dist (p : Q) (n : nat) : list Q :=
  let (l, m) := walk p 1 n in map (fun x => x + m / nq n) l.

Fixpoint qpow (q : Q) (n : nat) : Q := match n with O => 1 | S k => q * qpow q k end.
Fixpoint qsum (l : list Q) : Q := match l with [] => 0 | x :: r => x + qsum r end.

Lemma qpow_nonneg q n : 0 <= q -> 0 <= qpow q n.
Proof. intros H. induction n as [|n IH]; cbn; [lra|]. nra. Qed.

Lemma qpow_mono q i j : 0 <= q -> q <= 1 -> (i <= j)%nat -> qpow q j <= qpow q i.
Proof.
  intros H0 H1 Hij. induction Hij as [|j Hij IH]; [lra|]. cbn.
  pose proof (qpow_nonneg q j H0). nra.
Qed.

Lemma walk_length p : forall n mass, length (fst (walk p mass n)) = n.
Proof.
  induction n as [|n IH]; intros mass; cbn; [reflexivity|].
  specialize (IH (mass * (1 - p))). destruct (walk p (mass * (1 - p)) n) as [l m]. cbn in *. lia.
Qed.

Lemma walk_rest p : forall n mass, snd (walk p mass n) == mass * qpow (1 - p) n.
Proof.
  induction n as [|n IH]; intros mass; cbn; [ring|].
  specialize (IH (mass * (1 - p))). destruct (walk p (mass * (1 - p)) n) as [l m]. cbn in *. rewrite IH. ring.
Qed.

Lemma walk_nth p : forall n mass i, (i < n)%nat -> nth i (fst (walk p mass n)) 0 == mass * qpow (1 - p) i * p.
Proof.
  induction n as [|n IH]; intros mass i Hi; [lia|]. cbn.
  specialize (IH (mass * (1 - p))). destruct (walk p (mass * (1 - p)) n) as [l m]. cbn in *.
  destruct i as [|i]; cbn; [ring|]. rewrite IH by lia. ring.
Qed.

Lemma walk_sum p : forall n mass, qsum (fst (walk p mass n)) + snd (walk p mass n) == mass.
Proof.
  induction n as [|n IH]; intros mass; cbn; [ring|].
  specialize (IH (mass * (1 - p))). destruct (walk p (mass * (1 - p)) n) as [l m]. cbn in *.
  rewrite <- Qplus_assoc, IH. ring.
Qed.

Lemma nq_pos n : (1 <= n)%nat -> 0 < nq n.
Proof. intros H. unfold nq. change 0 with (inject_Z 0). rewrite <- Zlt_Qlt. lia. Qed.

Lemma sel_dist_length p n : length (sel_dist p n) = n.
Proof.
  unfold sel_dist. pose proof (walk_length p n 1) as H. destruct (walk p 1 n) as [l m]. cbn in *.
  rewrite map_length. exact H.
Qed.

Lemma sel_dist_nth p n i : (i < n)%nat ->
  nth i (sel_dist p n) 0 == qpow (1 - p) i * p + qpow (1 - p) n / nq n.
Proof.
  intros Hi. unfold sel_dist. pose proof (walk_nth p n 1 i Hi) as Hn. pose proof (walk_rest p n 1) as Hr.
  pose proof (walk_length p n 1) as Hl.
  destruct (walk p 1 n) as [l m]. cbn [fst snd] in *.
  assert (E : nth i (map (fun x => x + m / nq n) l) 0 = nth i l 0 + m / nq n).
  { rewrite <- (map_nth (fun x => x + m / nq n)). apply nth_indep. rewrite map_length. lia. }
  rewrite E, Hn, Hr. field. pose proof (nq_pos n ltac:(lia)). lra.
Qed.

Lemma qsum_map_add (c : Q) : forall l, qsum (map (fun x => x + c) l) == qsum l + nq (length l) * c.
Proof.
  induction l as [|x r IH]; [cbn; unfold nq; cbn; ring|].
  cbn [map qsum length]. rewrite IH. unfold nq. rewrite Nat2Z.inj_succ, <- Z.add_1_r, inject_Z_plus. cbn. ring.
Qed.

(** a probability distribution *)
Theorem sel_dist_sums_to_one p n : (1 <= n)%nat -> qsum (sel_dist p n) == 1.
Proof.
  intros Hn. unfold sel_dist. pose proof (walk_sum p n 1) as Hs. pose proof (walk_length p n 1) as Hl.
  destruct (walk p 1 n) as [l m]. cbn [fst snd] in *.
  rewrite qsum_map_add, Hl. rewrite <- Hs. field. pose proof (nq_pos n Hn). lra.
Qed.

Theorem sel_dist_nonneg p n i : 0 <= p -> p <= 1 -> (i < n)%nat -> 0 <= nth i (sel_dist p n) 0.
Proof.
  intros H0 H1 Hi. rewrite sel_dist_nth by exact Hi.
  assert (Hq : 0 <= 1 - p) by lra.
  pose proof (qpow_nonneg (1 - p) i Hq). pose proof (qpow_nonneg (1 - p) n Hq).
  pose proof (nq_pos n ltac:(lia)) as Hp.
  assert (0 <= qpow (1 - p) n / nq n).
  { unfold Qdiv. apply Qmult_le_0_compat; [assumption|]. apply Qlt_le_weak. apply Qinv_lt_0_compat. exact Hp. }
  nra.
Qed.

(** better-ranked individuals are favoured: the probability never increases with the rank *)
Theorem sel_dist_monotone p n i j :
  0 <= p -> p <= 1 -> (i <= j)%nat -> (j < n)%nat ->
  nth j (sel_dist p n) 0 <= nth i (sel_dist p n) 0.
Proof.
  intros H0 H1 Hij Hj. rewrite !sel_dist_nth by lia.
  assert (Hq0 : 0 <= 1 - p) by lra. assert (Hq1 : 1 - p <= 1) by lra.
  pose proof (qpow_mono (1 - p) i j Hq0 Hq1 Hij). nra.
Qed.

(** pressure 1: the best-ranked individual is certain; pressure 0: uniform *)
Theorem sel_dist_pressure_one n : (1 <= n)%nat -> nth 0 (sel_dist 1 n) 0 == 1.
Proof.
  intros Hn. rewrite sel_dist_nth by lia. destruct n as [|n]; [lia|]. cbn [qpow].
  field. pose proof (nq_pos (S n) Hn). lra.
Qed.

Lemma qpow_one n : qpow 1 n == 1.
Proof. induction n as [|n IH]; cbn; [reflexivity|]. rewrite IH. ring. Qed.

Theorem sel_dist_pressure_zero n i : (i < n)%nat -> nth i (sel_dist 0 n) 0 == 1 / nq n.
Proof.
  intros Hi. rewrite sel_dist_nth by lia.
  assert (E : 1 - 0 == 1) by ring.
  assert (Ei : qpow (1 - 0) i == 1). { clear Hi. induction i as [|i IH]; cbn; [reflexivity|]. rewrite IH. ring. }
  assert (En : qpow (1 - 0) n == 1). { clear Hi. induction n as [|k IH]; cbn; [reflexivity|]. rewrite IH. ring. }
  rewrite Ei, En. field. pose proof (nq_pos n ltac:(lia)). lra.
Qed.

(** strictly favoured when the pressure is strictly between 0 and 1 *)
Theorem sel_dist_strict p n i j :
  0 < p -> p < 1 -> (i < j)%nat -> (j < n)%nat ->
  nth j (sel_dist p n) 0 < nth i (sel_dist p n) 0.
Proof.
  intros H0 H1 Hij Hj. rewrite !sel_dist_nth by lia.
  assert (Hq0 : 0 < 1 - p) by lra. assert (Hq1 : 1 - p < 1) by lra.
  assert (Hpos : forall k, 0 < qpow (1 - p) k).
  { induction k as [|k IH]; cbn; [lra|nra]. }
  assert (Hs : qpow (1 - p) j < qpow (1 - p) i).
  { clear Hj. induction Hij as [|j Hij IH]; cbn.
    - pose proof (Hpos i). nra.
    - pose proof (Hpos j). nra. }
  nra.
Qed.
