(** * CtlProofs: invariants of the turn-level controller model, for every
    oracle stream and every label sequence (= every completion order, outcome
    sequence, termination point). *)
From Coq Require Import List NArith Bool Lia.
From RecordUpdate Require Import RecordSet.
From Cambrian Require Import Ctl.
Import ListNotations.

Section Proofs.
  Variables V M T : Type.
  Variable tcmp : T -> T -> comparison.
  Variable mean : list T -> T.
  Variable hit : T -> bool.
  Variables max_pop min_reeval ss : nat.
  Variable nc : N.
  Variable budget : option N.
  Variable init_val : V.
  Variable os : N -> orc V M.

  Notation ctl := (Ctl.ctl V M T).
  Notation push := (Ctl.push (T:=T) min_reeval ss init_val os).
  Notation push_n := (Ctl.push_n (T:=T) min_reeval ss init_val os).
  Notation init := (Ctl.init T min_reeval ss nc budget init_val os).
  Notation step := (Ctl.step tcmp mean hit max_pop min_reeval ss budget init_val os).
  Notation exec := (Ctl.exec tcmp mean hit max_pop min_reeval ss budget init_val os).
  Notation next_individual := (Ctl.next_individual (T:=T) min_reeval ss init_val).
  Notation process := (Ctl.process tcmp mean max_pop ss).
  Notation initial_num := (Ctl.initial_num nc budget).

  Definition len {A} (l : list A) : N := N.of_nat (length l).

  Lemma len_app {A} (l1 l2 : list A) : len (l1 ++ l2) = (len l1 + len l2)%N.
  Proof. unfold len. rewrite app_length. lia. Qed.

  (** *** take *)
  Lemma take_len seed l i r :
    take (V:=V) (M:=M) (T:=T) seed l = Some (i, r) -> length l = S (length r).
  Proof.
    revert i r. induction l as [|[s j] l IH]; intros i r H; cbn [take] in H; [discriminate|].
    destruct (N.eqb s seed).
    - inversion H; subst. reflexivity.
    - destruct (take seed l) as [[j' r']|] eqn:E; [|discriminate].
      inversion H; subst. cbn [length]. f_equal. eapply IH. reflexivity.
  Qed.

  Lemma take_In seed l i r :
    take (V:=V) (M:=M) (T:=T) seed l = Some (i, r) ->
    In (seed, i) l /\ (forall x, In x r -> In x l).
  Proof.
    revert i r. induction l as [|[s j] l IH]; intros i r H; cbn [take] in H; [discriminate|].
    destruct (N.eqb s seed) eqn:Es.
    - inversion H; subst. apply N.eqb_eq in Es. subst. split; [left; reflexivity|].
      intros x Hx. right. exact Hx.
    - destruct (take seed l) as [[j' r']|] eqn:E; [|discriminate].
      inversion H; subst. destruct (IH _ _ eq_refl) as [H1 H2]. split; [right; exact H1|].
      intros x [Hx|Hx]; [left; exact Hx| right; apply H2; exact Hx].
  Qed.

  (** *** push: effect on the counters *)
  Lemma push_fields c :
    c_pushed (push c) = N.succ (c_pushed c) /\
    c_next_seed (push c) = N.succ (c_next_seed c) /\
    length (c_started (push c)) = S (length (c_started c)) /\
    length (c_infl (push c)) = S (length (c_infl c)) /\
    c_acc (push c) = c_acc c /\ c_rej (push c) = c_rej c /\ c_failed (push c) = c_failed c /\
    c_aborted (push c) = c_aborted c /\ c_err (push c) = c_err c /\ c_items (push c) = c_items c.
  Proof.
    unfold Ctl.push. destruct (next_individual (c_algo c) (os (c_next_seed c))) as [i a'].
    cbn. rewrite !app_length. cbn. repeat split; lia.
  Qed.

  (** ** C03: the budget invariant *)
  Record Inv03 (c : ctl) : Prop := {
    i3_seed : c_next_seed c = c_pushed c;
    i3_started : len (c_started c) = c_pushed c;
    i3_budget : forall n, budget = Some n -> (c_pushed c <= n)%N;
    i3_sum : c_pushed c = (c_acc c + c_rej c + c_failed c + len (c_infl c))%N;
  }.

  Lemma Inv03_push c :
    Inv03 c -> (forall n, budget = Some n -> (c_pushed c < n)%N) -> Inv03 (push c).
  Proof.
    intros [H1 H2 H3 H4] Hb.
    destruct (push_fields c) as (P1 & P2 & P3 & P4 & P5 & P6 & P7 & _).
    constructor; unfold len in *.
    - rewrite P1, P2. lia.
    - rewrite P1, P3. lia.
    - intros n Hn. rewrite P1. specialize (Hb n Hn). lia.
    - rewrite P1, P4, P5, P6, P7. lia.
  Qed.

  Lemma Inv03_push_n k c :
    Inv03 c -> (forall n, budget = Some n -> (c_pushed c + N.of_nat k <= n)%N) -> Inv03 (push_n k c).
  Proof.
    revert c. induction k as [|k IH]; intros c Hc Hb; cbn [Ctl.push_n]; [exact Hc|].
    apply IH.
    - apply Inv03_push; [exact Hc|]. intros n Hn. specialize (Hb n Hn). lia.
    - intros n Hn. specialize (Hb n Hn). destruct (push_fields c) as (P1 & _). rewrite P1. lia.
  Qed.

  Lemma Inv03_init : Inv03 init.
  Proof.
    unfold Ctl.init. apply Inv03_push_n.
    - constructor; cbn; try reflexivity. intros n _. lia.
    - intros n Hn. cbn. unfold Ctl.initial_num. rewrite Hn. lia.
  Qed.

  (** *** generic preservation principle for [step] *)
  Notation fail_turn := (Ctl.fail_turn (V:=V) (M:=M) (T:=T)).
  Notation count_turn := (Ctl.count_turn (V:=V) (M:=M) (T:=T)).
  Notation decide := (Ctl.decide hit min_reeval ss budget init_val os).
  Notation maxp := (Ctl.maxp (V:=V) (M:=M) (T:=T) budget).
  Notation maxc := (Ctl.maxc (V:=V) (M:=M) (T:=T) budget).

  Definition not_fail (o : outcome T) : Prop := match o with OFail _ => False | _ => True end.

  Notation result := (Ctl.result V T).
  Notation finish := (Ctl.finish (V:=V) (M:=M) (T:=T)).
  Notation hit_now := (Ctl.hit_now (V:=V) (M:=M) hit).
  Notation hung c := (set (c_failed (T:=T)) N.succ c).

  (** [P]: invariant at turn boundaries; [Q]: what holds after a result has been
      counted and processed, before the replacement decision; [R]: what holds of
      the state and result when the run returns. *)
  Section StepInv.
    Variable P Q : ctl -> Prop.
    Variable R : ctl -> result -> Prop.
    Hypothesis Habort : forall c, P c -> P (set (c_aborted (T:=T)) (fun _ => true) c).
    Hypothesis Hfail : forall c seed i rest e, P c -> take seed (c_infl c) = Some (i, rest) ->
        P (fail_turn (set (c_infl (T:=T)) (fun _ => rest) c) e).
    Hypothesis Hhung : forall c seed i rest, P c -> take seed (c_infl c) = Some (i, rest) ->
        R (hung (set (c_infl (T:=T)) (fun _ => rest) c)) (RErr EClientHungUp).
    Hypothesis Hcount : forall c seed i rest o a', P c -> take seed (c_infl c) = Some (i, rest) -> not_fail o ->
        process (c_algo c) i (res_of o) = Some a' ->
        Q (set (c_algo (T:=T)) (fun _ => a') (count_turn (set (c_infl (T:=T)) (fun _ => rest) c) i seed o)).
    Hypothesis Hret : forall c, Q c -> hit_now c = true \/ maxc c = true -> R c (finish c).
    Hypothesis Hpush : forall c, Q c -> hit_now c = false -> maxc c = false -> maxp c = false ->
        c_aborted c = false -> P (push c).
    Hypothesis Hstay : forall c, Q c -> hit_now c = false -> maxc c = false ->
        maxp c = true \/ c_aborted c = true -> P c.
    Hypothesis Hempty : forall c, P c -> c_infl c = [] -> R c (finish c).

    Lemma step_inv3 c l :
      P c -> match step c l with Cont c' => P c' | Ret c' r => R c' r | _ => True end.
    Proof.
      intros Hc.
      destruct l as [seed o send_ok| |]; cbn [Ctl.step].
      - destruct (take seed (c_infl c)) as [[i rest]|] eqn:Ht; [|exact I].
        unfold Ctl.done_turn.
        assert (Hok : not_fail o -> match Ctl.ok_turn tcmp mean hit max_pop min_reeval ss budget init_val os
                                        (set (c_infl (T:=T)) (fun _ => rest) c) i seed o send_ok
                                    with Cont c' => P c' | Ret c' r => R c' r | _ => True end).
        { intros Ho. unfold Ctl.ok_turn. destruct send_ok; cbn [negb].
          - assert (Ha : c_algo (count_turn (set (c_infl (T:=T)) (fun _ => rest) c) i seed o) = c_algo c)
              by (destruct o; reflexivity).
            rewrite Ha. destruct (process (c_algo c) i (res_of o)) as [a'|] eqn:Hp; [|exact I].
            pose proof (Hcount c seed i rest o a' Hc Ht Ho Hp) as H2.
            unfold Ctl.decide.
            destruct (Ctl.hit_now _ _) eqn:Hh; [apply Hret; [exact H2|left; exact Hh]|].
            destruct (Ctl.maxc _ _) eqn:Hmc; [apply Hret; [exact H2|right; exact Hmc]|].
            destruct (Ctl.maxp _ _) eqn:Hmp; cbn [negb andb]; [apply Hstay; auto|].
            destruct (c_aborted _) eqn:Hab; cbn [negb]; [apply Hstay; auto|].
            apply Hpush; assumption.
          - apply (Hhung c seed i rest Hc Ht). }
        destruct o as [x| |e].
        + apply Hok. exact I.
        + apply Hok. exact I.
        + apply (Hfail c seed i rest e Hc Ht).
      - apply Habort. exact Hc.
      - destruct (c_infl c) eqn:E; [apply Hempty; assumption | exact I].
    Qed.

    Lemma exec_inv3 ls : forall c,
      P c -> match exec c ls with Cont c' => P c' | Ret c' r => R c' r | _ => True end.
    Proof.
      induction ls as [|l ls IH]; intros c Hc; cbn [Ctl.exec]; [exact Hc|].
      pose proof (step_inv3 c l Hc) as Hs. destruct (step c l) as [c'|c' r| |]; try exact I; [|exact Hs].
      apply IH. exact Hs.
    Qed.
  End StepInv.

  (** special case: one predicate throughout *)
  Lemma step_inv (P : ctl -> Prop) :
    (forall c, P c -> P (set (c_aborted (T:=T)) (fun _ => true) c)) ->
    (forall c seed i rest e, P c -> take seed (c_infl c) = Some (i, rest) ->
        P (fail_turn (set (c_infl (T:=T)) (fun _ => rest) c) e)) ->
    (forall c seed i rest, P c -> take seed (c_infl c) = Some (i, rest) ->
        P (hung (set (c_infl (T:=T)) (fun _ => rest) c))) ->
    (forall c seed i rest o a', P c -> take seed (c_infl c) = Some (i, rest) -> not_fail o ->
        process (c_algo c) i (res_of o) = Some a' ->
        P (set (c_algo (T:=T)) (fun _ => a') (count_turn (set (c_infl (T:=T)) (fun _ => rest) c) i seed o))) ->
    (forall c, P c -> maxp c = false -> maxc c = false -> c_aborted c = false -> P (push c)) ->
    forall c l, P c -> match step c l with Cont c' | Ret c' _ => P c' | _ => True end.
  Proof.
    intros Habort Hfail Hhung Hcount Hpush c l Hc.
    pose proof (step_inv3 P P (fun c _ => P c)) as H.
    specialize (H Habort Hfail Hhung Hcount).
    assert (G : match step c l with Cont c' => P c' | Ret c' r => (fun c _ => P c) c' r | _ => True end).
    { apply H; auto. }
    destruct (step c l); exact G.
  Qed.

  Lemma exec_lift (P : ctl -> Prop) (R : ctl -> result -> Prop) :
    (forall c l, P c -> match step c l with Cont c' => P c' | Ret c' r => R c' r | _ => True end) ->
    forall ls c, P c -> match exec c ls with Cont c' => P c' | Ret c' r => R c' r | _ => True end.
  Proof.
    intros Hstep. induction ls as [|l ls IH]; intros c Hc; cbn [Ctl.exec]; [exact Hc|].
    specialize (Hstep c l Hc). destruct (step c l) as [c'|c' r| |]; try exact I; [|exact Hstep].
    apply IH. exact Hstep.
  Qed.

  Lemma exec_inv (P : ctl -> Prop) :
    (forall c l, P c -> match step c l with Cont c' | Ret c' _ => P c' | _ => True end) ->
    forall ls c, P c -> match exec c ls with Cont c' | Ret c' _ => P c' | _ => True end.
  Proof.
    intros Hstep. induction ls as [|l ls IH]; intros c Hc; cbn [Ctl.exec]; [exact Hc|].
    specialize (Hstep c l Hc). destruct (step c l) as [c'|c' r| |]; try exact I; [|exact Hstep].
    apply IH. exact Hstep.
  Qed.

  Lemma Inv03_step c l :
    Inv03 c -> match step c l with Cont c' | Ret c' _ => Inv03 c' | _ => True end.
  Proof.
    revert c l. apply step_inv.
    - intros c [H1 H2 H3 H4]. constructor; cbn; assumption.
    - intros c seed i rest e [H1 H2 H3 H4] Ht. apply take_len in Ht.
      unfold Ctl.fail_turn. cbn. destruct (c_aborted c); constructor; cbn; unfold len in *; try assumption; lia.
    - intros c seed i rest [H1 H2 H3 H4] Ht. apply take_len in Ht.
      constructor; cbn; unfold len in *; try assumption; lia.
    - intros c seed i rest o a' [H1 H2 H3 H4] Ht Ho _. apply take_len in Ht.
      destruct o; [| |destruct Ho]; constructor; cbn; unfold len in *; try assumption; lia.
    - intros c Hc Hmp _ _. apply Inv03_push; [exact Hc|].
      intros n Hn. unfold Ctl.maxp in Hmp. rewrite Hn in Hmp. apply N.leb_gt in Hmp. exact Hmp.
  Qed.

  Theorem Inv03_reachable ls :
    match exec init ls with Cont c | Ret c _ => Inv03 c | _ => True end.
  Proof. apply exec_inv; [apply Inv03_step | apply Inv03_init]. Qed.

  (** ** C03/C05: work conservation (boundary states) *)
  Definition lenI (c : ctl) : N := len (c_infl c).

  Definition target_infl (c : ctl) : N :=
    match budget with
    | Some n => N.min nc (n - (c_acc c + c_rej c))
    | None => nc
    end.

  Record InvW (c : ctl) : Prop := {
    iw_3 : Inv03 c;
    iw_nc : (lenI c <= nc)%N;
    iw_w : c_aborted c = false -> c_failed c = 0%N /\ lenI c = target_infl c;
  }.

  (* mid-turn: one slot is free *)
  Record MidW (c : ctl) : Prop := {
    mw_3 : Inv03 c;
    mw_nc : (lenI c < nc)%N;
    mw_pos : (1 <= c_acc c + c_rej c)%N;
    mw_w : c_aborted c = false -> c_failed c = 0%N /\
           N.succ (lenI c) = match budget with
                             | Some n => N.min nc (N.succ n - (c_acc c + c_rej c))
                             | None => nc
                             end;
  }.

  (** at return: if nothing but the budget ended the run, the budget was used exactly *)
  Definition RetW (c : ctl) (r : result) : Prop :=
    Inv03 c /\
    (c_aborted c = false -> c_failed c = 0%N -> hit_now c = false -> (1 <= nc)%N ->
     forall n, budget = Some n -> (c_acc c + c_rej c = n /\ c_pushed c = n)%N).

  Lemma InvW_step c l :
    InvW c -> match step c l with Cont c' => InvW c' | Ret c' r => RetW c' r | _ => True end.
  Proof.
    revert c l. apply (step_inv3 InvW MidW RetW).
    - intros c [[H1 H2 H3 H4] Hn Hw]. constructor; [constructor; cbn; assumption| exact Hn |].
      cbn. discriminate.
    - intros c seed i rest e [[H1 H2 H3 H4] Hn Hw] Ht. apply take_len in Ht.
      unfold Ctl.fail_turn, lenI, len in *. cbn.
      destruct (c_aborted c) eqn:Ha; (constructor; [constructor; cbn; unfold len; try assumption; lia | unfold lenI, len; cbn; lia | cbn; try discriminate]).
      rewrite Ha. discriminate.
    - intros c seed i rest [[H1 H2 H3 H4] Hn Hw] Ht. apply take_len in Ht.
      split; [constructor; cbn; unfold len in *; try assumption; lia|].
      cbn. intros _ Hf. lia.
    - intros c seed i rest o a' [[H1 H2 H3 H4] Hn Hw] Ht Ho _. apply take_len in Ht.
      unfold lenI, len, target_infl in *.
      destruct o; [| |destruct Ho]; (constructor; [constructor; cbn; unfold len; try assumption; lia | unfold lenI, len; cbn; lia | cbn; lia |]);
        cbn; intros Ha; specialize (Hw Ha); destruct Hw as [Hf Hw]; (split; [exact Hf|]);
        unfold lenI, len; cbn; destruct budget as [n|]; try lia;
        specialize (H3 n eq_refl); lia.
    - intros c [[H1 H2 H3 H4] Hn Hp Hw] Hr. split; [constructor; assumption|].
      intros Ha Hf Hh Hnc n Hb. destruct Hr as [Hr|Hr]; [congruence|].
      unfold Ctl.maxc in Hr. rewrite Hb in Hr. apply N.leb_le in Hr. specialize (H3 n Hb). lia.
    - intros c [[H1 H2 H3 H4] Hn Hp Hw] Hh Hmc Hmp Ha.
      assert (I3 : Inv03 (push c)).
      { apply Inv03_push; [constructor; assumption|]. intros n Hb. unfold Ctl.maxp in Hmp. rewrite Hb in Hmp.
        apply N.leb_gt in Hmp. exact Hmp. }
      destruct (push_fields c) as (P1 & P2 & P3 & P4 & P5 & P6 & P7 & P8 & _).
      constructor; [exact I3 | unfold lenI, len in *; rewrite P4; lia |].
      rewrite P8. intros _. specialize (Hw Ha). destruct Hw as [Hf Hw]. rewrite P7. split; [exact Hf|].
      unfold lenI, len, target_infl in *. rewrite P4, P5, P6.
      unfold Ctl.maxp in Hmp. destruct budget as [n|]; [|lia].
      apply N.leb_gt in Hmp. lia.
    - intros c [[H1 H2 H3 H4] Hn Hp Hw] Hh Hmc Hm.
      constructor; [constructor; assumption | lia |].
      intros Ha. specialize (Hw Ha). destruct Hw as [Hf Hw]. split; [exact Hf|].
      destruct Hm as [Hm|Hm]; [|congruence].
      unfold lenI, len, target_infl, Ctl.maxp, Ctl.maxc in *. destruct budget as [n|]; [|discriminate].
      apply N.leb_le in Hm. apply N.leb_gt in Hmc. specialize (H3 n eq_refl). lia.
    - intros c [[H1 H2 H3 H4] Hn Hw] He. split; [constructor; assumption|].
      intros Ha Hf Hh Hnc n Hb. specialize (Hw Ha). destruct Hw as [_ Hw].
      unfold lenI, len, target_infl in Hw. rewrite He, Hb in Hw. cbn in Hw.
      unfold len in H4. rewrite He in H4. cbn in H4. specialize (H3 n Hb). lia.
  Qed.

  Lemma push_n_counts k : forall c,
    c_aborted c = false -> c_failed c = 0%N -> c_acc c = 0%N -> c_rej c = 0%N ->
    c_aborted (push_n k c) = false /\ c_failed (push_n k c) = 0%N /\
    c_acc (push_n k c) = 0%N /\ c_rej (push_n k c) = 0%N /\
    lenI (push_n k c) = (lenI c + N.of_nat k)%N.
  Proof.
    induction k as [|k IHk]; intros c Ha Hf Hacc Hrej; cbn [Ctl.push_n].
    - repeat split; auto. lia.
    - destruct (push_fields c) as (P1 & P2 & P3 & P4 & P5 & P6 & P7 & P8 & _).
      destruct (IHk (push c)) as (A1 & A2 & A3 & A4 & A5); try congruence.
      repeat split; auto. rewrite A5. unfold lenI, len. rewrite P4. lia.
  Qed.

  Lemma InvW_init : InvW init.
  Proof.
    pose proof Inv03_init as H3.
    destruct (push_n_counts (N.to_nat initial_num) (ctl0 V M T)) as (A1 & A2 & A3 & A4 & A5); try reflexivity.
    change (push_n (N.to_nat initial_num) (ctl0 V M T)) with init in *.
    assert (L : lenI init = initial_num). { rewrite A5. unfold lenI, len. cbn. lia. }
    constructor; [exact H3 | rewrite L; unfold Ctl.initial_num; destruct budget; lia |].
    intros _. split; [exact A2|]. rewrite L. unfold target_infl, Ctl.initial_num. rewrite A3, A4.
    destruct budget; lia.
  Qed.

  Theorem InvW_reachable ls :
    match exec init ls with Cont c => InvW c | Ret c r => RetW c r | _ => True end.
  Proof. apply (exec_lift InvW RetW); [apply InvW_step | apply InvW_init]. Qed.


  (** what a returned run returns *)
  Lemma ret_shape ls : forall c0,
    match exec c0 ls with
    | Ret c r => r = finish c \/ (r = RErr EClientHungUp /\ (0 < c_failed c)%N)
    | _ => True
    end.
  Proof.
    intros c0.
    pose proof (exec_lift (fun _ => True) (fun c r => r = finish c \/ (r = RErr EClientHungUp /\ (0 < c_failed c)%N))) as H.
    assert (G : match exec c0 ls with Cont _ => True | Ret c r => r = finish c \/ (r = RErr EClientHungUp /\ (0 < c_failed c)%N) | _ => True end).
    { apply H; [|exact I]. intros c l _.
      apply (step_inv3 (fun _ => True) (fun _ => True) (fun c r => r = finish c \/ (r = RErr EClientHungUp /\ (0 < c_failed c)%N))); auto.
      intros. right. split; [reflexivity|]. cbn. lia. }
    destruct (exec c0 ls); auto.
  Qed.

  Definition ErrAb (c : ctl) : Prop := c_aborted c = false -> c_err c = None.

  Lemma ErrAb_step c l : ErrAb c -> match step c l with Cont c' | Ret c' _ => ErrAb c' | _ => True end.
  Proof.
    revert c l. apply step_inv; unfold ErrAb.
    - intros c _. cbn. discriminate.
    - intros c seed i rest e Hc _. unfold Ctl.fail_turn. cbn. destruct (c_aborted c) eqn:Ha; cbn; [rewrite Ha|]; discriminate.
    - intros c seed i rest Hc _. exact Hc.
    - intros c seed i rest o a' Hc _ _ _. destruct o; exact Hc.
    - intros c Hc _ _ _. destruct (push_fields c) as (_ & _ & _ & _ & _ & _ & _ & P8 & P9 & _).
      rewrite P8, P9. exact Hc.
  Qed.

  Lemma push_n_err k : forall c, c_err c = None -> c_err (push_n k c) = None.
  Proof.
    induction k as [|k IH]; intros c Hc; cbn [Ctl.push_n]; [exact Hc|]. apply IH.
    destruct (push_fields c) as (_ & _ & _ & _ & _ & _ & _ & _ & P9 & _). congruence.
  Qed.

  (** an error is only recorded together with the abort flag *)
  Lemma err_only_if_aborted ls :
    match exec init ls with Cont c | Ret c _ => ErrAb c | _ => True end.
  Proof.
    pose proof (exec_lift ErrAb (fun c _ => ErrAb c)) as G.
    assert (G2 : match exec init ls with Cont c => ErrAb c | Ret c r => (fun c _ => ErrAb c) c r | _ => True end).
    { apply G.
      - intros c l Hc. pose proof (ErrAb_step c l Hc) as K. destruct (step c l); exact K.
      - intros _. apply push_n_err. reflexivity. }
    destruct (exec init ls); exact G2.
  Qed.

  (** *** C03 statements *)
  Theorem starts_le_budget_lemma n ls :
    budget = Some n ->
    match exec init ls with
    | Cont c | Ret c _ => (len (c_started c) <= n)%N /\ c_pushed c = len (c_started c)
    | _ => True
    end.
  Proof.
    intros Hb. pose proof (InvW_reachable ls) as H.
    destruct (exec init ls) as [c|c r| |]; try exact I.
    - destruct H as [[H1 H2 H3 H4] _ _]. rewrite H2. split; [apply H3; exact Hb | reflexivity].
    - destruct H as [[H1 H2 H3 H4] _]. rewrite H2. split; [apply H3; exact Hb | reflexivity].
  Qed.

  Theorem starts_eq_budget_lemma n ls c r :
    budget = Some n -> (1 <= nc)%N ->
    exec init ls = Ret c r ->
    c_aborted c = false ->            (* no failure, no terminate request was processed *)
    c_failed c = 0%N ->               (* and the report consumer did not hang up *)
    hit_now c = false ->              (* and the run was not ended by the target criterion *)
    len (c_started c) = n /\ (c_acc c + c_rej c = n)%N /\
    match r with
    | ROk _ _ a b => (a + b = n)%N
    | RErr e => e = ENoIndividuals
    end.
  Proof.
    intros Hb Hnc He Ha Hf Hh.
    pose proof (InvW_reachable ls) as H. pose proof (ret_shape ls init) as Hs. rewrite He in H, Hs.
    destruct H as [[H1 H2 H3 H4] Hr]. destruct (Hr Ha Hf Hh Hnc n Hb) as [E1 E2].
    split; [rewrite H2; exact E2|]. split; [exact E1|].
    destruct Hs as [Hs|[_ Hs]]; [|lia]. subst r. unfold Ctl.finish.
    assert (Herr : c_err c = None).
    { pose proof (err_only_if_aborted ls) as G2. rewrite He in G2. apply G2. exact Ha. }
    rewrite Herr. destruct (best_seen_final _) as [[x v]|]; [exact E1 | reflexivity].
  Qed.

End Proofs.

(** the run depends on the oracle stream only pointwise (no hidden state) *)
Section Ext.
  Variables V M T : Type.
  Variable tcmp : T -> T -> comparison.
  Variable mean : list T -> T.
  Variable hit : T -> bool.
  Variables max_pop min_reeval ss : nat.
  Variable nc : N.
  Variable budget : option N.
  Variable init_val : V.
  Variables os1 os2 : N -> orc V M.
  Hypothesis Hos : forall s, os1 s = os2 s.

  Lemma push_ext c : Ctl.push (T:=T) min_reeval ss init_val os1 c = Ctl.push (T:=T) min_reeval ss init_val os2 c.
  Proof. unfold Ctl.push. rewrite Hos. reflexivity. Qed.

  Lemma push_n_ext k : forall c, Ctl.push_n (T:=T) min_reeval ss init_val os1 k c = Ctl.push_n (T:=T) min_reeval ss init_val os2 k c.
  Proof. induction k as [|k IH]; intros c; cbn [Ctl.push_n]; [reflexivity|]. rewrite push_ext. apply IH. Qed.

  Lemma step_ext c l :
    Ctl.step tcmp mean hit max_pop min_reeval ss budget init_val os1 c l =
    Ctl.step tcmp mean hit max_pop min_reeval ss budget init_val os2 c l.
  Proof.
    destruct l as [seed o ok| |]; cbn [Ctl.step]; try reflexivity.
    destruct (take seed (c_infl c)) as [[i rest]|]; [|reflexivity].
    unfold Ctl.done_turn. destruct o; try reflexivity;
      (unfold Ctl.ok_turn; destruct (negb ok); [reflexivity|];
       match goal with |- context [Ctl.process ?a ?b ?c ?d ?e ?f ?g] => destruct (Ctl.process a b c d e f g) end; [|reflexivity];
       unfold Ctl.decide; rewrite push_ext; reflexivity).
  Qed.

  Theorem exec_ext ls : forall c,
    Ctl.exec tcmp mean hit max_pop min_reeval ss budget init_val os1 c ls =
    Ctl.exec tcmp mean hit max_pop min_reeval ss budget init_val os2 c ls.
  Proof.
    induction ls as [|l ls IH]; intros c; cbn [Ctl.exec]; [reflexivity|].
    rewrite step_ext. destruct (Ctl.step _ _ _ _ _ _ _ _ _ c l); try reflexivity. apply IH.
  Qed.

  Theorem run_ext ls :
    Ctl.exec tcmp mean hit max_pop min_reeval ss budget init_val os1 (Ctl.init T min_reeval ss nc budget init_val os1) ls =
    Ctl.exec tcmp mean hit max_pop min_reeval ss budget init_val os2 (Ctl.init T min_reeval ss nc budget init_val os2) ls.
  Proof. unfold Ctl.init. rewrite push_n_ext. apply exec_ext. Qed.
End Ext.
