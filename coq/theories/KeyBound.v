(** * KeyBound: when the unbounded key counters of [Ops] are the usize counters of the code.
    [path::KeyManager] computes [key + 1] and [next_key += 1] in usize; the model computes in [N].
    The two agree as long as no counter exceeds usize::MAX.  This file states the headroom that
    guarantees it for one addition, and that the headroom is what the known finding K1 lacks. *)
From Coq Require Import List NArith Lia.
From Cambrian Require Import SourceFacts Syntax Ops Codec.
Import ListNotations.

Lemma max_key_from {A} (m : list (N * A)) : forall a b,
  (a <= b)%N -> (forall kv, In kv m -> (fst kv + 1 <= b)%N) ->
  (fold_left (fun a kv => N.max a (fst kv + 1)) m a <= b)%N.
Proof.
  induction m as [|kv m IH]; intros a b Ha Hk; cbn [fold_left]; [exact Ha|].
  apply IH; [|intros kv' Hin; apply Hk; right; exact Hin].
  pose proof (Hk kv (or_introl eq_refl)). lia.
Qed.

Lemma max_key_le {A} (m : list (N * A)) b :
  (forall kv, In kv m -> (fst kv < b)%N) -> (max_key m <= b)%N.
Proof.
  intros H. unfold max_key. apply max_key_from; [lia|]. intros kv Hin. pose proof (H kv Hin). lia.
Qed.

(** one addition: if the counter of the map's path and every key of the map are below usize::MAX,
    the key handed out is at most usize::MAX - 1 ... *)
Theorem fresh_key_fits {A} (c : pctx) (p : path) (m : list (N * A)) :
  (get_nk c p < usize_max)%N -> (forall kv, In kv m -> (fst kv < usize_max - 1)%N) ->
  (fresh_key c p m < usize_max)%N.
Proof.
  intros Hc Hk. unfold fresh_key.
  assert (Hm : (max_key m <= usize_max - 1)%N) by (apply max_key_le; exact Hk).
  destruct map_keys_registered_before_next_key; [|exact Hc].
  unfold usize_max in *. lia.
Qed.

(** ... so the counter after it, [fresh_key + 1], is a usize: nothing overflows in the code *)
Corollary counter_after_addition_fits {A} (c : pctx) (p : path) (m : list (N * A)) :
  (get_nk c p < usize_max)%N -> (forall kv, In kv m -> (fst kv < usize_max - 1)%N) ->
  (fresh_key c p m + 1 <= usize_max)%N.
Proof. intros Hc Hk. pose proof (fresh_key_fits c p m Hc Hk). lia. Qed.

(** K1: a key equal to usize::MAX is accepted in a guess and needs the counter usize::MAX + 1 *)
Example k1_counter_does_not_fit :
  (max_key [(usize_max, VBool true)] > usize_max)%N.
Proof. vm_compute. reflexivity. Qed.
