(** * Ops: the stochastic operators [mutation::mutate] and [Crossover::crossover]
    as executable *relations*: [mut_check] / [cross_check] decide whether an output
    is one the operator can produce from the given input for SOME state of the
    random number generator.  Every random draw is replaced by "which results are
    possible": a Bernoulli(p) draw can be true iff p >= 2^-64 (p = 1: always),
    can be false iff p < 1 (p = 0: always); [choose]/[select_ref]/[shuffle] can
    yield any element/permutation; a Cauchy sample can be any float.  The key
    manager of [path.rs] is deterministic and modelled exactly ([pctx]). *)
From Coq Require Import String.
From Coq Require Import List ZArith NArith Bool Lia.
From Flocq Require Import IEEE754.BinarySingleNaN.
From Cambrian Require Import Base.F64 SourceFacts Syntax.
Import ListNotations.

(** ** path context: next key of every anon-map node (default 0) *)
Inductive pe := PName (s : string) | PIdx (n : nat) | PKey (k : N) | POpt.
Definition path := list pe.
Definition pe_eqb (a b : pe) : bool :=
  match a, b with
  | PName x, PName y => String.eqb x y
  | PIdx x, PIdx y => Nat.eqb x y
  | PKey x, PKey y => N.eqb x y
  | POpt, POpt => true
  | _, _ => false
  end.
Fixpoint path_eqb (a b : path) : bool :=
  match a, b with
  | [], [] => true
  | x :: r, y :: s => pe_eqb x y && path_eqb r s
  | _, _ => false
  end.
Definition pctx := list (path * N).
Fixpoint get_nk (c : pctx) (p : path) : N :=
  match c with
  | [] => 0%N
  | (q, n) :: r => if path_eqb p q then n else get_nk r p
  end.
Fixpoint set_nk (c : pctx) (p : path) (n : N) : pctx :=
  match c with
  | [] => [(p, n)]
  | (q, m) :: r => if path_eqb p q then (q, n) :: r else (q, m) :: set_nk r p n
  end.

(** [PathNodeContext::add_nodes_for]: every key of every anon map is "seen" *)
Fixpoint add_nodes (v : value) (p : path) (c : pctx) {struct v} : pctx :=
  match v with
  | VSub m =>
      (fix go (l : list (string * value)) (c : pctx) : pctx :=
         match l with [] => c | (k, x) :: r => go r (add_nodes x (p ++ [PName k]) c) end) m c
  | VArray l =>
      (fix go (l : list value) (i : nat) (c : pctx) : pctx :=
         match l with [] => c | x :: r => go r (S i) (add_nodes x (p ++ [PIdx i]) c) end) l 0%nat c
  | VAnonMap m =>
      (fix go (l : list (N * value)) (c : pctx) : pctx :=
         match l with
         | [] => c
         | (k, x) :: r =>
             let c1 := set_nk c p (N.max (get_nk c p) (k + 1)) in
             go r (add_nodes x (p ++ [PKey k]) c1)
         end) m c
  | VVariant name x => add_nodes x (p ++ [PName name]) c
  | VOptional (Some x) => add_nodes x (p ++ [POpt]) c
  | _ => c
  end.

(** ** Bernoulli (rand 0.8): what a draw with parameter [p] can be *)
Definition two_m64 : f64 := of_bits 0x3BF0000000000000.
Definition p_valid (p : f64) : bool := fle fzero p && fle p fone.
Definition can_true (p : f64) : bool := p_valid p && fle two_m64 p.
Definition can_false (p : f64) : bool := p_valid p && flt p fone.

(** [Cauchy::new(median, scale)] succeeds iff [scale > 0] *)
Definition cauchy_ok (scale mscale : f64) : bool := flt fzero (fmul scale mscale).


Definition real_step_ok (mp ms : f64) (scale : f64) (mn mx : option f64) (x x' : f64) : bool :=
  p_valid mp &&
  (fbits_eq x x' ||
   (can_true mp && cauchy_ok scale ms &&
    match mn with Some a => fle a x' | None => true end &&
    match mx with Some b => fle x' b | None => true end)).

(** an integer goes through [i64 -> f64 -> round -> i64] whenever the Bernoulli draw fires, also
    when [Cauchy::new] fails (the f64 is then returned as is), so beyond 2^53 it may change even
    with a zero scale: the relation does not ask for [cauchy_ok] here *)
Definition int_step_ok (mp ms : f64) (scale : f64) (mn mx : option Z) (z z' : Z) : bool :=
  p_valid mp &&
  (Z.eqb z z' ||
   (can_true mp &&
    match mn with Some a => Z.leb a z' | None => true end &&
    match mx with Some b => Z.leb z' b | None => true end)).

(** first success of a list of attempts *)
Fixpoint first_some {A B} (f : A -> option B) (l : list A) : option B :=
  match l with
  | [] => None
  | a :: r => match f a with Some b => Some b | None => first_some f r end
  end.

(** every successful alternative, merged by the pointwise minimum of the contexts: the model's
    key counters are lower bounds of the implementation's (a key handed out is at least the
    counter), and which alternative really happened is not observable — e.g. a new map element
    equal to an unchanged clone of one element is also a mutated clone of another, and only the
    second explanation advances a nested counter *)
Definition ctx_min (c1 c2 : pctx) : pctx := map (fun qn => (fst qn, N.min (snd qn) (get_nk c2 (fst qn)))) c1.
Fixpoint merge_some {A} (f : A -> option pctx) (l : list A) : option pctx :=
  match l with
  | [] => None
  | a :: r =>
      match f a, merge_some f r with
      | Some c, Some c' => Some (ctx_min c c')
      | Some c, None => Some c
      | None, o => o
      end
  end.

Definition keys_n {A} (m : list (N * A)) : list N := map fst m.
Definition remove_key {A} (k : N) (m : list (N * A)) : list (N * A) :=
  filter (fun kv => negb (N.eqb (fst kv) k)) m.
Fixpoint list_eqb_n (a b : list N) : bool :=
  match a, b with
  | [], [] => true
  | x :: r, y :: s => N.eqb x y && list_eqb_n r s
  | _, _ => false
  end.
Definition max_key {A} (m : list (N * A)) : N := fold_left (fun a kv => N.max a (fst kv + 1)) m 0%N.

(** the key the key manager hands out for an addition to map [m] at [p].  After the repair of
    the key-collision defect the keys of the map in hand are registered first. *)
Definition fresh_key {A} (c : pctx) (p : path) (m : list (N * A)) : N :=
  if map_keys_registered_before_next_key then N.max (get_nk c p) (max_key m) else get_nk c p.

(** ** mutation *)
Section Mut.
  Variables mp ms : f64.     (* mutation_prob, mutation_scale *)

  (** pairwise check of the children present under the same key in [m] and [m'] (keys of [m']
      that are in [m]); threads the context *)
  Definition map_children (chk : path -> pctx -> value -> value -> option pctx)
             (p : path) (m m' : list (N * value)) (c : pctx) : option pctx :=
    fold_left (fun oc kv =>
                 match oc with
                 | None => None
                 | Some c =>
                     match nlookup (fst kv) m with
                     | Some a => chk (p ++ [PKey (fst kv)]) c a (snd kv)
                     | None => Some c
                     end
                 end) m' (Some c).

  Fixpoint arr_check (chk : path -> pctx -> value -> value -> option pctx)
           (p : path) (l l' : list value) (i : nat) (c : pctx) : option pctx :=
    match l, l' with
    | [], [] => Some c
    | a :: r, b :: r' =>
        match chk (p ++ [PIdx i]) c a b with
        | Some c' => arr_check chk p r r' (S i) c'
        | None => None
        end
    | _, _ => None
    end.

  Fixpoint mut_check (s : spec) (p : path) (c : pctx) (v v' : value) {struct s} : option pctx :=
    match s, v, v' with
    | SReal _ sc mn mx, VReal x, VReal x' => if real_step_ok mp ms sc mn mx x x' then Some c else None
    | SInt _ sc mn mx, VInt z, VInt z' => if int_step_ok mp ms sc mn mx z z' then Some c else None
    | SBool _, VBool b, VBool b' =>
        if Bool.eqb b b' then (if can_false mp then Some c else None)
        else (if can_true mp then Some c else None)
    | SSub members, VSub vm, VSub vm' =>
        if negb (Nat.eqb (length vm') (length members) && nodup_s (map fst vm')) then None else
        (fix go (l : list (string * spec)) (c : pctx) : option pctx :=
           match l with
           | [] => Some c
           | (k, cs) :: r =>
               match slookup k vm, slookup k vm' with
               | Some a, Some b =>
                   match mut_check cs (p ++ [PName k]) c a b with
                   | Some c' => go r c'
                   | None => None
                   end
               | _, _ => None
               end
           end) members c
    | SArray vt _, VArray l, VArray l' =>
        if negb (Nat.eqb (length l) (length l')) then None else arr_check (mut_check vt) p l l' 0%nat c
    | SAnonMap vt _ mn mx, VAnonMap m, VAnonMap m' =>
        if negb (p_valid mp && nodup_n (keys_n m')) then None else
        let n := length m in
        let at_min := Nat.eqb n 0 || match mn with Some a => Nat.eqb n a | None => false end in
        let at_max := match mx with Some b => Nat.eqb n b | None => false end in
        let chk := mut_check vt in
        let ks := keys_n m in
        let ks' := keys_n m' in
        let nk := fresh_key c p m in
        let added := filter (fun k => negb (mem_n k ks)) ks' in
        let removed := filter (fun k => negb (mem_n k ks')) ks in
        let add_case (ka : N) : option pctx :=
          (* new element: a clone of some element (or the initial value if the map is empty), mutated *)
          (* the key is at least the one the model expects: mutations of elements that were
             removed in the same call consume keys invisibly, so the model's counter is a lower bound *)
          if negb (can_true mp && (at_min || negb at_max) && N.leb nk ka) then None else
          match nlookup ka m' with
          | None => None
          | Some y =>
              let c1 := set_nk c p (ka + 1) in
              let sources := match m with [] => [init_val vt] | _ => map snd m end in
              match merge_some (fun e => chk (p ++ [PKey ka]) c1 e y) sources with
              | None => None
              | Some c2 => map_children chk p (remove_key ka m) (remove_key ka m') c2
              end
          end in
        match added, removed with
        | [], [] =>
            (* either no resize, or an addition whose key collided with an existing one *)
            match (if can_false mp then map_children chk p m m' c else None) with
            | Some c' => Some c'
            | None => if mem_n nk ks then add_case nk else None
            end
        | [ka], [] => add_case ka
        | [], [kr] =>
            if can_true mp && negb at_min then map_children chk p m m' c else None
        | _, _ => None
        end
    | SVariant os _, VVariant name x, VVariant name' y =>
        if negb (p_valid mp) then None else
        (fix look (l : list (string * spec)) : option pctx :=
           match l with
           | [] => None
           | (k, cs) :: r =>
               if String.eqb name' k then
                 if String.eqb name name'
                 then (if can_false mp then mut_check cs (p ++ [PName name']) c x y else None)
                 else (if can_true mp then mut_check cs (p ++ [PName name']) c (init_val cs) y else None)
               else look r
           end) os
    | SEnum vs _, VEnum name, VEnum name' =>
        if String.eqb name name' then (if can_false mp then Some c else None)
        else (if can_true mp && mem_s name' vs then Some c else None)
    | SOptional vt _, VOptional o, VOptional o' =>
        match o, o' with
        | None, None => if can_false mp then Some c else None
        | Some _, None => if can_true mp then Some c else None
        | None, Some y => if can_true mp then mut_check vt (p ++ [POpt]) c (init_val vt) y else None
        | Some x, Some y => if can_false mp then mut_check vt (p ++ [POpt]) c x y else None
        end
    | SConst, _, VConst => Some c
    | _, _, _ => None
    end.
End Mut.

(** ** crossover *)
Section Cross.
  Variables cp pr : f64.     (* crossover_prob, selection_pressure *)

  (** [select_ref] can return the element at index [i] of [n] *)
  Definition sel_ok (n i : nat) : bool :=
    p_valid pr && Nat.ltb i n && (Nat.eqb i 0 || can_false pr).

  Definition pick_any (ps : list value) (child : value) : bool :=
    existsb (fun iv => sel_ok (length ps) (fst iv) && veqb (snd iv) child)
            (combine (seq 0 (length ps)) ps).

  Definition is_leaf (s : spec) : bool :=
    match s with SBool _ | SReal _ _ _ _ | SInt _ _ _ _ | SEnum _ _ | SConst => true | _ => false end.

  (** [are_all_same]: IEEE equality on reals *)
  Definition leaf_same (a b : value) : bool :=
    match a, b with
    | VReal x, VReal y => feq x y
    | VInt x, VInt y => Z.eqb x y
    | VBool x, VBool y => Bool.eqb x y
    | VEnum x, VEnum y => String.eqb x y
    | _, _ => false
    end.

  Definition opt_get (v : value) : option (option value) :=
    match v with VOptional o => Some o | _ => None end.

  Fixpoint all_some {A} (l : list (option A)) : option (list A) :=
    match l with
    | [] => Some []
    | Some a :: r => match all_some r with Some r' => Some (a :: r') | None => None end
    | None :: _ => None
    end.
  Fixpoint somes {A} (l : list (option A)) : list A :=
    match l with [] => [] | Some a :: r => a :: somes r | None :: r => somes r end.

  Definition union_keys (ms : list (list (N * value))) : list N :=
    fold_left (fun acc m => fold_left (fun acc k => if mem_n k acc then acc else acc ++ [k]) (keys_n m) acc) ms [].

  Fixpoint cross_check (s : spec) (ps : list value) (child : value) {struct s} : bool :=
    match s with
    | SConst => match child with VConst => true | _ => false end
    | _ =>
        match ps with
        | [] => false
        | [x] => veqb x child
        | x0 :: _ =>
            if is_leaf s then
              if forallb (leaf_same x0) ps then veqb x0 child else pick_any ps child
            else
              (can_false cp && pick_any ps child) ||
              (can_true cp &&
               match s with
               | SSub members =>
                   match child with
                   | VSub cm =>
                       Nat.eqb (length cm) (length members) && nodup_s (map fst cm) &&
                       (fix go (l : list (string * spec)) : bool :=
                          match l with
                          | [] => true
                          | (k, cs) :: r =>
                              match all_some (map (fun v => match v with VSub m => slookup k m | _ => None end) ps),
                                    slookup k cm with
                              | Some cvs, Some cv => cross_check cs cvs cv && go r
                              | _, _ => false
                              end
                          end) members
                   | _ => false
                   end
               | SArray vt size =>
                   match child with
                   | VArray cl =>
                       Nat.eqb (length cl) size &&
                       forallb (fun ic =>
                                  match all_some (map (fun v => match v with VArray l => nth_error l (fst ic) | _ => None end) ps) with
                                  | Some cvs => cross_check vt cvs (snd ic)
                                  | None => false
                                  end) (combine (seq 0 (length cl)) cl)
                   | _ => false
                   end
               | SAnonMap vt _ mn mx =>
                   match child, all_some (map (fun v => match v with VAnonMap m => Some m | _ => None end) ps) with
                   | VAnonMap cm, Some pms =>
                       let K := keys_n cm in
                       let U := union_keys pms in
                       let common := filter (fun k => forallb (fun m => mem_n k (keys_n m)) pms) U in
                       p_valid pr && nodup_n K && forallb (fun k => mem_n k U) K &&
                       match mx with Some b => Nat.leb (length K) b | None => true end &&
                       Nat.leb (Nat.min (match mn with Some a => a | None => 0%nat end) (length U)) (length K) &&
                       ((match mx with Some b => Nat.eqb (length K) b | None => false end) ||
                        forallb (fun k => mem_n k K) common) &&
                       forallb (fun kv => cross_check vt (somes (map (fun m => nlookup (fst kv) m) pms)) (snd kv)) cm
                   | _, _ => false
                   end
               | SVariant os _ =>
                   match child, all_some (map (fun v => match v with VVariant n x => Some (n, x) | _ => None end) ps) with
                   | VVariant cn cv, Some nps =>
                       let names := map fst nps in
                       let n0 := match names with n :: _ => n | [] => EmptyString end in
                       (if forallb (String.eqb n0) names then String.eqb cn n0
                        else existsb (fun iv => sel_ok (length names) (fst iv) && String.eqb (snd iv) cn)
                                     (combine (seq 0 (length names)) names)) &&
                       (fix look (l : list (string * spec)) : bool :=
                          match l with
                          | [] => false
                          | (k, cs) :: r =>
                              if String.eqb cn k
                              then cross_check cs (map snd (filter (fun nx => String.eqb (fst nx) cn) nps)) cv
                              else look r
                          end) os
                   | _, _ => false
                   end
               | SOptional vt _ =>
                   match child, all_some (map opt_get ps) with
                   | VOptional co, Some pos =>
                       let pres := map (fun o => match o with Some _ => true | None => false end) pos in
                       let cpres := match co with Some _ => true | None => false end in
                       let p0 := match pres with b :: _ => b | [] => false end in
                       (if forallb (Bool.eqb p0) pres then Bool.eqb cpres p0
                        else existsb (fun ib => sel_ok (length pres) (fst ib) && Bool.eqb (snd ib) cpres)
                                     (combine (seq 0 (length pres)) pres)) &&
                       match co with
                       | None => true
                       | Some cv => cross_check vt (somes pos) cv
                       end
                   | _, _ => false
                   end
               | _ => false
               end)
        end
    end.
End Cross.
