#!/bin/sh
# Build the framework from files on disk only (offline): SourceFacts, the whole Coq development, the harness.
set -e
cd "$(dirname "$0")"
export CARGO_NET_OFFLINE=true
python3 tools/gen_facts.py
cd coq
coq_makefile -f _CoqProject -o Makefile
timeout 3000 make -j16
cd ../harness
cp /repo/Cargo.lock Cargo.lock
cargo build --offline
echo "setup done"
