#!/bin/sh
# usage: try_seed.sh <patch.diff> <pid> [<pid>...]  -- apply a seeded change to /repo, run the checks, undo it
patch="$1"; shift
cd /repo || exit 2
if [ -n "$(git status --porcelain)" ]; then echo "REPO DIRTY, refusing"; exit 2; fi
if ! git apply --check "$patch" 2>/dev/null; then echo "PATCH DOES NOT APPLY: $patch"; exit 2; fi
git apply "$patch"
git diff --stat | tail -1
for pid in "$@"; do
  (cd /verif && ./check "$pid" --tier quick 2>&1 | grep -E "VIOLATION|KNOWN-FINDING|done in|problems" ; echo "exit=$?")
done
cd /repo && git checkout -f HEAD -- . && git status --short | head -3
python3 /verif/tools/gen_facts.py >/dev/null  # SourceFacts.v back to the clean tree
