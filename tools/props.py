"""Per-property configuration and the correspondence-stream runners used by ../check."""
import collections
import hashlib
import json
import os
import re
import subprocess
import time
import sys

ROOT = os.path.dirname(os.path.dirname(os.path.abspath(__file__)))

# which acceptor rejection kinds (kind of the event at which the model could no longer follow
# the observation; see ev_kind in Check/RunCheck.v) count against which property
RUN_SLICE = {
    "C01": set(),
    "C02": {2, 5, 99},
    "C03": {1, 2, 4, 5, 99},
    "C04": {1, 2, 4, 5, 6},
    "C05": {1, 2, 4},
    "C06": {1, 2, 4, 5},
    "C08": {1, 2},
    "C09": {1, 2, 3, 4, 5, 6, 99},
    "C11": set(),
    "C14": {2, 3, 5},
    "C15": {2, 4, 5, 6, 99},
}

RUN_EVENT_KINDS = {0: "EPoll", 1: "EStart", 2: "EReturned", 3: "EItems", 4: "EPending", 5: "EReady", 6: "EHang",
                   7: "ETerminate", 8: "ECloseCmd", 9: "ECloseReports", 99: "initial state"}


def match_known(known, payload):
    """a known finding matches a failure payload when every key of its `match` equals the payload's"""
    for k in known:
        m = k.get("match", {})
        if m and all(payload.get(a) == b for a, b in m.items()):
            return k
    return None


def run_stream(ctx, spec, st, replay, scale, hbin, coqc_shards):
    pid = ctx.pid
    tier = ctx.tier
    out = os.path.join(ctx.work, "run_" + st["name"])
    os.makedirs(out, exist_ok=True)
    shards = 16
    master = ctx.seed * 1000 + st.get("salt", 0)
    frm = 0
    count = st["count"][tier] * scale
    profile = st.get("profile", "mixed")
    if replay:
        rp = json.load(open(replay))
        if rp.get("stream") != "run":
            return {"stats": {}, "rejections": [], "monitor_failures": [], "samples": []}
        master, frm, count, profile, shards = rp["master"], rp["idx"], 1, rp["profile"], 1
    t0 = time.time()
    p = subprocess.run([hbin, "run", "--master", str(master), "--from", str(frm), "--count", str(count),
                        "--shards", str(shards), "--profile", profile, "--out-dir", out] + (["--values"] if st.get("values") else []),
                       stdout=subprocess.PIPE, stderr=subprocess.STDOUT, text=True, timeout=3000)
    t_h = time.time() - t0
    if p.returncode != 0:
        # the harness itself died (hard hang or panic inside cambrian)
        payload = {"stream": "run", "master": master, "idx": frm, "profile": profile, "kind": "harness-crash",
                   "output": p.stdout[-2000:], "property": pid}
        return {"stats": {"observations": 0, "harness_exit": p.returncode}, "rejections": [],
                "monitor_failures": [payload], "samples": []}
    vfiles = sorted(glob_(out, "run_*.v"))
    second_process_diffs = []
    if st.get("second_process"):
        out2 = out + "_p2"
        subprocess.run([hbin, "run", "--master", str(master), "--from", str(frm), "--count", str(count),
                        "--shards", str(shards), "--profile", profile, "--out-dir", out2],
                       stdout=subprocess.PIPE, stderr=subprocess.STDOUT, text=True, timeout=3000)
        for vf in vfiles:
            a = open(vf).read()
            try:
                b = open(os.path.join(out2, os.path.basename(vf))).read()
            except OSError:
                b = ""
            if a != b:
                da = re.split(r"(?=^Definition o)", a, flags=re.M)
                db = re.split(r"(?=^Definition o)", b, flags=re.M)
                for x, y in zip(da, db):
                    if x != y:
                        m = re.match(r"Definition o(\d+)", x)
                        second_process_diffs.append(int(m.group(1)) if m else -1)
                        break
    t1 = time.time()
    outs = coqc_shards(ctx, vfiles)
    t_c = time.time() - t1
    obs = {}
    for jf in glob_(out, "run_*.json"):
        for o in json.load(open(jf)):
            obs[o["idx"]] = o
    lines = []
    coq_errors = []
    for vf, (rc, text) in outs.items():
        if rc != 0 or "Error" in text:
            coq_errors.append((vf, text[-1500:]))
        for m in re.finditer(r'"RUN ([^"]*) END"', text):
            lines.append(m.group(1))
    rejections, mfails, samples = [], [], []
    dist = collections.Counter()
    sigs = set()
    nontriv = 0
    for vf, (rc, text) in outs.items():
        for m in re.finditer(r'"TWIN ([^"]*) END"', text):
            kv = dict(x.split("=", 1) for x in m.group(1).split())
            dist["twins"] += 1
            if kv.get("replayable") == "1":
                dist["twins_respaced"] += 1
            if pid == "C09" and kv.get("C09") == "0":
                idx = int(kv["idx"])
                mfails.append({"stream": "run", "master": master, "idx": idx, "profile": profile, "property": pid,
                               "kind": "monitor-false", "monitor": "judge_twin", "verdict": m.group(1), "observation": obs.get(idx, {})})
    for vf, (rc, text) in outs.items():
        for m in re.finditer(r'"GTWIN ([^"]*) END"', text):
            kv = dict(x.split("=", 1) for x in m.group(1).split())
            dist["guess_twins"] += 1
            if pid == "C11" and kv.get("C11") == "0":
                idx = int(kv["idx"])
                mfails.append({"stream": "run", "master": master, "idx": idx, "profile": profile, "property": pid,
                               "kind": "monitor-false", "monitor": "judge_guess_twin (initial value as the guess gives a different run)",
                               "verdict": m.group(1), "observation": obs.get(idx, {})})
    for vf, (rc, text) in outs.items():
        for m in re.finditer(r'"VALS ([^"]*) END"', text):
            kv = dict(x.split("=", 1) for x in m.group(1).split())
            dist["value_sets_checked"] += 1
            dist["values_checked_total"] += int(kv.get("n", 0))
            if pid == "C01" and kv.get("C01") == "0":
                idx = int(kv["idx"])
                mfails.append({"stream": "run", "master": master, "idx": idx, "profile": profile, "property": pid,
                               "kind": "monitor-false", "monitor": "judge_vals (a value handed to the objective function does not conform)",
                               "verdict": m.group(1), "observation": obs.get(idx, {})})
    for idx in second_process_diffs:
        dist["second_process_differs"] += 1
        if pid == "C09":
            mfails.append({"stream": "run", "master": master, "idx": idx, "profile": profile, "property": pid,
                           "kind": "monitor-false", "monitor": "second-process-diff",
                           "verdict": "the same schedule run in a second process gives a different log", "observation": obs.get(idx, {})})
    if st.get("second_process"):
        dist["second_process_compared"] = len(vfiles)
    for ln in lines:
        kv = dict(x.split("=", 1) for x in ln.split())
        idx = int(kv["idx"])
        o = obs.get(idx, {})
        if "twin_events_merged" in o:
            o = {k: v for k, v in o.items() if not k.startswith("twin_")}
        base = {"stream": "run", "master": master, "idx": idx, "profile": profile, "property": pid,
                "verdict": ln, "observation": o}
        if kv["acc"] != "ok":
            m = re.match(r"rej@(\d+)/(\d+)", kv["acc"])
            k = int(m.group(2))
            if k in RUN_SLICE.get(pid, set()):
                rejections.append(dict(base, kind="acceptor-rejection", at_event=int(m.group(1)),
                                       event_kind=RUN_EVENT_KINDS.get(k, str(k))))
        if kv.get(pid) == "0":
            mfails.append(dict(base, kind="monitor-false", monitor="mon_" + pid,
                               hung=(kv.get("hung") == "1")))
        # statistics
        ev = o.get("events", [])
        sig = hashlib.sha1(json.dumps([o.get("nc"), o.get("budget"), o.get("ss"), ev]).encode()).hexdigest()
        if sig not in sigs:
            sigs.add(sig)
            if int(kv.get("acc_n", 0)) + int(kv.get("rej_n", 0)) >= 2:
                nontriv += 1
        dist["nc=%s" % o.get("nc")] += 1
        dist["ss=%s" % o.get("ss")] += 1
        dist["budget=%s" % ("none" if o.get("budget") is None else ("0" if o.get("budget") == 0 else ("<nc" if o.get("budget") < o.get("nc", 0) else ">=nc")))] += 1
        if any(e == "ETerminate" for e in ev):
            dist["with_terminate"] += 1
        if any("RErrTag" in e for e in ev):
            dist["with_failure"] += 1
        if o.get("target") is not None:
            dist["with_target"] += 1
        if o.get("n_reeval", 0) > 0:
            dist["with_reevaluation"] += 1
        dist["reevaluations_total"] += o.get("n_reeval", 0)
        dist["evaluations_total"] += int(kv.get("starts", 0))
        if kv.get("hung") == "1":
            dist["hung"] += 1
        if len(samples) < 2 and 3 <= len(ev) <= 40:
            samples.append({"stream": "run", "idx": idx, "nc": o.get("nc"), "budget": o.get("budget"), "ss": o.get("ss"),
                            "events": ev, "verdict": ln})
    if coq_errors or len(lines) != count:
        rejections.append({"stream": "run", "master": master, "profile": profile, "property": pid,
                           "kind": "checker-error", "expected": count, "judged": len(lines),
                           "errors": coq_errors[:2]})
    stats = {"observations": len(lines), "distinct": len(sigs), "distinct_nontrivial": nontriv,
             "rule": "schedules drawn from one PRNG (master=%d, profile=%s); distinct = different event logs; non-trivial = at least two processed completions" % (master, profile),
             "harness_s": round(t_h, 1), "coqc_s": round(t_c, 1), "distribution": dict(dist)}
    if profile == "race":
        stats["write_delay_shim"] = shim_note or "tools/delay_write_shim.c: one write to best_seen.json delayed by 400 ms in every case"
    if profile == "reap":
        stats["waitpid_delay_shim"] = shim_note or "tools/delay_write_shim.c: waitpid for one exact pid delayed by 200 ms in every case"
    return {"stats": stats, "rejections": rejections, "monitor_failures": mfails, "samples": samples}


OPS_SLICE = {"C01": {1, 2, 3, 4}, "C12": {2}, "C13": {1}, "C17": {1}, "C15": {3}}


def ops_stream(ctx, spec, st, replay, scale, hbin, coqc_shards):
    pid = ctx.pid
    out = os.path.join(ctx.work, "ops_" + st["name"])
    os.makedirs(out, exist_ok=True)
    shards = 16
    master = ctx.seed * 1000 + st.get("salt", 0)
    frm, count, profile = 0, st["count"][ctx.tier] * scale, st.get("profile", "mixed")
    if replay:
        rp = json.load(open(replay))
        if rp.get("stream") != "ops":
            return {"stats": {}, "rejections": [], "monitor_failures": [], "samples": []}
        master, frm, count, profile, shards = rp["master"], rp["idx"], 1, rp["profile"], 1
    t0 = time.time()
    p = subprocess.run([hbin, "ops", "--master", str(master), "--from", str(frm), "--count", str(count),
                        "--shards", str(shards), "--profile", profile, "--out-dir", out],
                       stdout=subprocess.PIPE, stderr=subprocess.STDOUT, text=True, timeout=3000)
    t_h = time.time() - t0
    if p.returncode != 0:
        payload = {"stream": "ops", "master": master, "idx": frm, "profile": profile, "kind": "harness-crash",
                   "output": p.stdout[-2000:], "property": pid}
        return {"stats": {"observations": 0, "harness_exit": p.returncode}, "rejections": [],
                "monitor_failures": [payload], "samples": []}
    t1 = time.time()
    outs = coqc_shards(ctx, sorted(glob_(out, "ops_*.v")))
    t_c = time.time() - t1
    obs = {}
    for jf in glob_(out, "ops_*.json"):
        for o in json.load(open(jf)):
            obs[o["idx"]] = o
    lines, coq_errors = [], []
    for vf, (rc, text) in outs.items():
        if rc != 0 or "Error" in text:
            coq_errors.append((vf, text[-1500:]))
        for m in re.finditer(r'"OPS ([^"]*) END"', text):
            lines.append(m.group(1))
    rejections, mfails, samples = [], [], []
    dist = collections.Counter()
    sigs = set()
    nontriv = 0
    for ln in lines:
        kv = dict(x.split("=", 1) for x in ln.split())
        idx = int(kv["idx"])
        o = obs.get(idx, {})
        base = {"stream": "ops", "master": master, "idx": idx, "profile": profile, "property": pid, "verdict": ln,
                "observation": {k: o.get(k) for k in ("yaml", "coq", "n_mut", "n_cross", "panicked")}}
        if kv["acc"] != "ok":
            m = re.match(r"rej@(\d+)/(\d+)", kv["acc"])
            k = int(m.group(2))
            if k in OPS_SLICE.get(pid, set()):
                rejections.append(dict(base, kind="acceptor-rejection", at_op=int(m.group(1)),
                                       op_kind={1: "mutate", 2: "crossover", 3: "panic", 4: "initial value differs from the model's init_val"}.get(k, str(k))))
        if kv.get(pid) == "0":
            mfails.append(dict(base, kind="monitor-false", monitor="mon_" + pid))
        sig = hashlib.sha1((o.get("coq") or "").encode()).hexdigest()
        if sig not in sigs:
            sigs.add(sig)
            if o.get("n_mut", 0) + o.get("n_cross", 0) >= 2:
                nontriv += 1
        for kd in set((o.get("kinds") or "").split(",")):
            if kd:
                dist["spec_has_" + kd.replace(" ", "_")] += 1
        dist["mutations_total"] += o.get("n_mut", 0)
        dist["crossovers_total"] += o.get("n_cross", 0)
        if o.get("panicked"):
            dist["panicked"] += 1
        if len(samples) < 1 and o.get("coq") and len(o["coq"]) < 1500:
            samples.append({"stream": "ops", "idx": idx, "yaml": o.get("yaml"), "coq": o.get("coq"), "verdict": ln})
    if coq_errors or len(lines) != count:
        rejections.append({"stream": "ops", "master": master, "profile": profile, "property": pid,
                           "kind": "checker-error", "expected": count, "judged": len(lines), "errors": coq_errors[:2]})
    stats = {"observations": len(lines), "distinct": len(sigs), "distinct_nontrivial": nontriv,
             "rule": "operator chains on generated specs (master=%d, profile=%s); distinct = different (spec, chain); non-trivial = at least two operator calls" % (master, profile),
             "harness_s": round(t_h, 1), "coqc_s": round(t_c, 1), "distribution": dict(dist)}
    if profile == "race":
        stats["write_delay_shim"] = shim_note or "tools/delay_write_shim.c: one write to best_seen.json delayed by 400 ms in every case"
    if profile == "reap":
        stats["waitpid_delay_shim"] = shim_note or "tools/delay_write_shim.c: waitpid for one exact pid delayed by 200 ms in every case"
    return {"stats": stats, "rejections": rejections, "monitor_failures": mfails, "samples": samples}


def generic_stream(tag, sub, line_re, slices, obs_keys, nontrivial, dist_fn):
    """factory for streams whose harness subcommand writes <sub>_<shard>.v/.json and whose
    checker prints one '<TAG> ... END' line per observation"""
    def run(ctx, spec, st, replay, scale, hbin, coqc_shards):
        pid = ctx.pid
        out = os.path.join(ctx.work, sub + "_" + st["name"])
        os.makedirs(out, exist_ok=True)
        shards = 16
        master = ctx.seed * 1000 + st.get("salt", 0)
        frm, count, profile = 0, st["count"][ctx.tier] * scale, st.get("profile", "mixed")
        if replay:
            rp = json.load(open(replay))
            if rp.get("stream") != sub:
                return {"stats": {}, "rejections": [], "monitor_failures": [], "samples": []}
            master, frm, count, profile, shards = rp["master"], rp["idx"], 1, rp["profile"], 1
        t0 = time.time()
        p = subprocess.run([hbin, sub, "--master", str(master), "--from", str(frm), "--count", str(count),
                            "--shards", str(shards), "--profile", profile, "--out-dir", out],
                           stdout=subprocess.PIPE, stderr=subprocess.STDOUT, text=True, timeout=3000)
        t_h = time.time() - t0
        if p.returncode != 0:
            payload = {"stream": sub, "master": master, "idx": frm, "profile": profile, "kind": "harness-crash",
                       "output": p.stdout[-2000:], "property": pid}
            return {"stats": {"observations": 0, "harness_exit": p.returncode}, "rejections": [],
                    "monitor_failures": [payload], "samples": []}
        t1 = time.time()
        outs = coqc_shards(ctx, sorted(glob_(out, sub + "_*.v")))
        t_c = time.time() - t1
        obs = {}
        for jf in glob_(out, sub + "_*.json"):
            for o in json.load(open(jf)):
                obs[o["idx"]] = o
        lines, coq_errors = [], []
        for vf, (rc, text) in outs.items():
            if rc != 0 or "Error" in text:
                coq_errors.append((vf, text[-1500:]))
            for m in re.finditer(r'"%s ([^"]*) END"' % tag, text):
                lines.append(m.group(1))
        expected = sum(1 for o in obs.values() if not o.get("skipped") and o.get("judged", True))
        rejections, mfails, samples = [], [], []
        dist = collections.Counter()
        sigs = set()
        nontriv = 0
        for ln in lines:
            kv = dict(x.split("=", 1) for x in ln.split())
            idx = int(kv["idx"])
            o = obs.get(idx, {})
            base = {"stream": sub, "master": master, "idx": idx, "profile": profile, "property": pid, "verdict": ln,
                    "observation": {k: o.get(k) for k in obs_keys}}
            acc = kv["acc"]
            if acc != "ok" and slices(pid, acc):
                rejections.append(dict(base, kind="acceptor-rejection", how=acc))
            if kv.get(pid) == "0":
                mfails.append(dict(base, kind="monitor-false", monitor="mon_" + pid))
            sig = hashlib.sha1(json.dumps({k: o.get(k) for k in obs_keys}, sort_keys=True).encode()).hexdigest()
            if sig not in sigs:
                sigs.add(sig)
                if nontrivial(o, kv):
                    nontriv += 1
            dist_fn(dist, o, kv)
            if len(samples) < 1 and len(json.dumps(base["observation"])) < 1800:
                samples.append(dict(base["observation"], stream=sub, idx=idx, verdict=ln))
        if coq_errors or len(lines) != expected:
            rejections.append({"stream": sub, "master": master, "profile": profile, "property": pid,
                               "kind": "checker-error", "expected": expected, "judged": len(lines), "errors": coq_errors[:2]})
        stats = {"observations": len(lines), "generated": len(obs), "distinct": len(sigs), "distinct_nontrivial": nontriv,
                 "rule": "%s stream (master=%d, profile=%s); distinct = different observation contents" % (sub, master, profile),
                 "harness_s": round(t_h, 1), "coqc_s": round(t_c, 1), "distribution": dict(dist)}
        return {"stats": stats, "rejections": rejections, "monitor_failures": mfails, "samples": samples}
    return run


def _spec_dist(dist, o, kv):
    dist["mode_%s" % {0: "wellformed", 1: "violation", 2: "soup"}.get(o.get("mode"), "?")] += 1
    dist["result_" + str(o.get("result"))] += 1
    if o.get("note"):
        dist["note: " + o["note"]] += 1


def _guess_dist(dist, o, kv):
    dist["mode_%s" % {0: "conforming", 1: "defect", 2: "arbitrary"}.get(o.get("mode"), "?")] += 1
    dist["result_" + str(o.get("result"))] += 1
    if o.get("note"):
        dist["note: " + o["note"]] += 1


guess_stream = generic_stream(
    "GUESS", "guess", None,
    # C01 only cares about what is accepted (the base case of conformance)
    lambda pid, acc: (acc in ("rej/model-rejects", "rej/value")) if pid == "C01" else acc.startswith("rej"),
    ("yaml", "guess", "note", "expect", "result"),
    lambda o, kv: o.get("mode") in (0, 1),
    _guess_dist)

spec_stream = generic_stream(
    "SPEC", "spec", None,
    # which acceptor outcomes count against C10: accept/reject or spec disagreements (error-kind differences do not)
    lambda pid, acc: acc.startswith("rej"),
    ("yaml", "note", "expect", "result"),
    lambda o, kv: o.get("mode") in (0, 1),
    _spec_dist)

def _meta_dist(dist, o, kv):
    dist["kind_" + str(o.get("kind"))] += 1
    if o.get("kind") == "termination":
        dist["termination_%s" % ("conflict" if "Err" in str(o.get("result")) else "ok")] += 1
    elif o.get("kind") == "inproc":
        dist["inproc_nc_%s" % ("1" if o.get("nc") == 1 else "gt_hw" if o.get("nc", 0) > o.get("hardware_threads", 0) else "le_hw")] += 1
    elif o.get("kind") == "bench":
        dist["bench_%s_nc%s" % (o.get("problem"), o.get("nc"))] += 1
    elif o.get("kind") == "selection":
        dist["sel_n_%s" % o.get("n")] += 1
        dist["sel_pressure_%s" % ("0" if o.get("pressure") == 0 else "1" if o.get("pressure") == 1 else "mid")] += 1
    else:
        dist["mutate_calls"] += o.get("calls", 0)


META_SLICE = {"C14": "rej/mutate", "C15": "rej/", "C17": ("rej/selection", "rej/mutate"), "C05": "rej/inproc", "C03": "rej/termination", "C04": "rej/termination", "C06": "rej/inprocfail"}

meta_stream = generic_stream(
    "META", "meta", None,
    lambda pid, acc: acc.startswith(META_SLICE.get(pid, "rej/")),
    ("kind", "input", "input_bits", "rng_seed", "calls", "kept", "n", "pressure", "pressure_bits", "samples", "counts",
     "problem", "nc", "budget", "order_seed", "f_init", "f_best", "best", "completed", "hardware_threads", "peak", "started", "ok", "wall_ms", "criteria", "result", "still_executing_at_return"),
    lambda o, kv: True,
    _meta_dist)


def _algo_dist(dist, o, kv):
    dist["ss_%s" % o.get("ss")] += 1
    dist["ops_total"] += o.get("ops", 0)
    dist["reevaluations_total"] += o.get("reevaluations", 0)
    if o.get("max_population", 0) >= 100:
        dist["population_reached_cap"] += 1


algo_stream = generic_stream(
    "ALGO", "algo", None,
    lambda pid, acc: acc.startswith("rej"),
    ("ss", "ops", "reevaluations", "max_population", "value_mode", "max_held", "profile"),
    lambda o, kv: o.get("ops", 0) >= 20,
    _algo_dist)


def build_cambrian_binary(ctx):
    tgt = os.path.join(ROOT, "harness", "target", "repo")
    p = subprocess.run(["cargo", "build", "--offline", "--bin", "cambrian", "--manifest-path", os.path.join(os.environ.get("CAMBRIAN_REPO", "/repo"), "Cargo.toml"), "--target-dir", tgt],
                       stdout=subprocess.PIPE, stderr=subprocess.STDOUT, text=True, timeout=1800,
                       env=dict(os.environ, CARGO_NET_OFFLINE="true"))
    return p.returncode == 0, os.path.join(tgt, "debug", "cambrian"), p.stdout[-1500:]


def cli_stream(ctx, spec, st, replay, scale, hbin, coqc_shards):
    pid = ctx.pid
    out = os.path.join(ctx.work, "cli_" + st["name"])
    os.makedirs(out, exist_ok=True)
    ok, binary, blog = build_cambrian_binary(ctx)
    if not ok:
        payload = {"stream": "cli", "kind": "binary-build-failed", "output": blog, "property": pid}
        return {"stats": {"observations": 0}, "rejections": [payload], "monitor_failures": [], "samples": []}
    master = ctx.seed * 1000 + st.get("salt", 0)
    frm, count, profile = 0, st["count"][ctx.tier] * scale, st.get("profile", "mixed")
    nsh = 8
    if replay:
        rp = json.load(open(replay))
        if rp.get("stream") != "cli":
            return {"stats": {}, "rejections": [], "monitor_failures": [], "samples": []}
        master, frm, count, profile, nsh = rp["master"], rp["idx"], 1, rp["profile"], 1
    t0 = time.time()
    shim_args, shim_note = [], None
    if profile in ("race", "reap"):
        # the delaying shim is compiled per run; without a C compiler the cases still run, unshimmed
        so = os.path.join(out, "delay_write_shim.so")
        cc = subprocess.run(["cc", "-shared", "-fPIC", "-O1", "-o", so, os.path.join(ROOT, "tools", "delay_write_shim.c"), "-ldl"],
                            stdout=subprocess.PIPE, stderr=subprocess.STDOUT, text=True)
        if cc.returncode == 0:
            shim_args = ["--shim", so]
        else:
            shim_note = "shim not built (%s): cases ran without the delayed write" % cc.stdout.strip()[-200:]
    procs = []
    per = (count + nsh - 1) // nsh
    for sh in range(nsh):
        lo = frm + sh * per
        n = min(per, frm + count - lo)
        if n <= 0:
            continue
        d = os.path.join(out, "s%d" % sh)
        procs.append((d, subprocess.Popen([sys.executable, os.path.join(ROOT, "tools", "clistream.py"), "--binary", binary,
                                           "--master", str(master), "--from", str(lo), "--count", str(n), "--profile", profile,
                                           "--out-dir", d, "--work", os.path.join(ctx.work, "cliw_%s_%d" % (st["name"], sh))] + shim_args,
                                          stdout=subprocess.PIPE, stderr=subprocess.STDOUT, text=True)))
    crashed = []
    for d, pr in procs:
        o, _ = pr.communicate(timeout=3000)
        if pr.returncode != 0:
            crashed.append(o[-1500:])
    t_h = time.time() - t0
    if crashed:
        payload = {"stream": "cli", "master": master, "profile": profile, "kind": "driver-crash", "output": crashed[0], "property": pid}
        return {"stats": {"observations": 0}, "rejections": [payload], "monitor_failures": [], "samples": []}
    t1 = time.time()
    outs = coqc_shards(ctx, [os.path.join(d, "cli_0.v") for d, _ in procs])
    t_c = time.time() - t1
    obs = {}
    for d, _ in procs:
        for o in json.load(open(os.path.join(d, "cli_0.json"))):
            obs[o["idx"]] = o
    lines, coq_errors = [], []
    for vf, (rc, text) in outs.items():
        if rc != 0 or "Error" in text:
            coq_errors.append((vf, text[-1500:]))
        for m in re.finditer(r'"CLI ([^"]*) END"', text):
            lines.append(m.group(1))
    rejections, mfails, samples = [], [], []
    dist = collections.Counter()
    sigs = set()
    nontriv = 0
    for ln in lines:
        kv = dict(x.split("=", 1) for x in ln.split())
        idx = int(kv["idx"])
        o = obs.get(idx, {})
        small = {k: o.get(k) for k in ("case", "args", "code", "stdout", "stderr", "survivors", "n_children", "files", "quiet_twin")}
        base = {"stream": "cli", "master": master, "idx": idx, "profile": profile, "property": pid, "verdict": ln, "observation": small}
        if (o.get("case") or {}).get("guess") == "bigkey":
            base["tag"] = "guess-key-usize-max"
        if kv["acc"] != "ok" and pid in ("C16", "C15"):
            rejections.append(dict(base, kind="acceptor-rejection", how=kv["acc"]))
        if kv.get(pid) == "0":
            mfails.append(dict(base, kind="monitor-false", monitor="mon_" + pid))
        c = o.get("case", {})
        sig = hashlib.sha1(json.dumps([c, o.get("code"), o.get("n_children")], sort_keys=True, default=str).encode()).hexdigest()
        if sig not in sigs:
            sigs.add(sig)
            if o.get("n_children", 0) >= 1:
                nontriv += 1
        dist["kind_" + str(c.get("kind"))] += 1
        if c.get("cause"):
            dist["cause_" + c["cause"]] += 1
        if c.get("invalid"):
            dist["invalid_" + c["invalid"]] += 1
        dist["exit_" + ("0" if o.get("code") == 0 else "nonzero")] += 1
        dist["children_started_total"] += o.get("n_children", 0)
        for r_, fl in c.get("behaviours", []):
            for ch in fl:
                if ch in "GDKTEX Z".replace(" ", ""):
                    dist["child_flag_" + ch] += 1
        if len(samples) < 1 and o.get("n_children", 0) >= 1:
            samples.append(dict(small, idx=idx, verdict=ln))
    if coq_errors or len(lines) != count:
        rejections.append({"stream": "cli", "master": master, "profile": profile, "property": pid, "kind": "checker-error",
                           "expected": count, "judged": len(lines), "errors": coq_errors[:2]})
    stats = {"observations": len(lines), "distinct": len(sigs), "distinct_nontrivial": nontriv,
             "rule": "real binary runs (master=%d, profile=%s): options x spec x scripted children; non-trivial = at least one child was started" % (master, profile),
             "harness_s": round(t_h, 1), "coqc_s": round(t_c, 1), "distribution": dict(dist)}
    if profile == "race":
        stats["write_delay_shim"] = shim_note or "tools/delay_write_shim.c: one write to best_seen.json delayed by 400 ms in every case"
    if profile == "reap":
        stats["waitpid_delay_shim"] = shim_note or "tools/delay_write_shim.c: waitpid for one exact pid delayed by 200 ms in every case"
    return {"stats": stats, "rejections": rejections, "monitor_failures": mfails, "samples": samples}


def glob_(d, pat):
    import glob
    return glob.glob(os.path.join(d, pat))


STREAMS = {"run": run_stream, "ops": ops_stream, "spec": spec_stream, "guess": guess_stream, "cli": cli_stream, "meta": meta_stream, "algo": algo_stream}

CTL_FILES = ["theories/Ctl.vo", "theories/CtlProofs.vo"]

def _run_prop(propfile_id, streams, extra_assumptions=None, tested=None):
    return {
        "propfile": "theories/Properties/%s.v" % propfile_id,
        "coq_targets": ["theories/Properties/%s.vo" % propfile_id],
        "checkers": ["RunCheck", "CliCheck"],
        "streams": streams,
        "assumptions": [
            "the controller is modelled at the granularity of one select-loop turn (Ctl.step); labels = what the environment can do; randomness = oracle stream",
            "created/started = the controller created the evaluation (allocated its seed); the objective function sees the call later in the same poll",
        ] + (extra_assumptions or []),
        "tested_not_proved": ["that the Rust controller refines Ctl.step: differential testing through the run stream"] + (tested or []),
    }


def _ops_prop(propfile_id, streams, extra=None, tested=None):
    return {
        "propfile": "theories/Properties/%s.v" % propfile_id,
        "coq_targets": ["theories/Properties/%s.vo" % propfile_id],
        "checkers": ["OpsCheck"],
        "streams": streams,
        "assumptions": [
            "operators are modelled as executable relations (Ops.mut_check / Ops.cross_check): which outputs are possible for SOME RNG state; theorems hold for every accepted output, hence for all RNG states",
            "Bernoulli(p) can be true iff p >= 2^-64, false iff p < 1; choose/select/shuffle can yield any element/order; a Cauchy sample can be any float (rand 0.8 / rand_distr 0.4 as read from their sources)",
            "rescaling factors are identically 1.0 (SourceFacts.rescaling_never_assigned)",
        ] + (extra or []),
        "tested_not_proved": ["that the Rust operators refine the relations: every observed (input, output) pair of real mutate/crossover calls is checked against them"] + (tested or []),
    }


PROPS = {
    "C02": _run_prop("C02", [{"kind": "run", "name": "mixed", "profile": "mixed", "count": {"quick": 240, "thorough": 3000}, "salt": 2},
                             {"kind": "run", "name": "evict", "profile": "evict", "count": {"quick": 48, "thorough": 600}, "salt": 22},
                             {"kind": "algo", "name": "algo", "profile": "mixed", "count": {"quick": 96, "thorough": 1600}, "salt": 23},
                             {"kind": "algo", "name": "algoevict", "profile": "evict", "count": {"quick": 16, "thorough": 160}, "salt": 24}],
                     ["best_is_min_ss1 is stated for any total preorder on objective values with mean [x] ~ x and instantiated at finite binary64 values (best_is_min_ss1_f64: the order hypotheses are theorems of Base/FinOrder.v)"],
                     ["algorithm core at operation granularity: sequences of next_individual / process_individual_eval on the real AlgoContext (cfg hook) with the whole population read back and compared with the model's (Check/AlgoCheck.v), incl. runs past the population cap"]),
    "C03": _run_prop("C03", [{"kind": "run", "name": "mixed", "profile": "mixed", "count": {"quick": 320, "thorough": 4000}, "salt": 3},
                             {"kind": "cli", "name": "budget", "profile": "budget", "count": {"quick": 32, "thorough": 300}, "salt": 31},
                             {"kind": "meta", "name": "term", "profile": "term", "count": {"quick": 200, "thorough": 4000}, "salt": 32}],
                     None, ["the budget through the binary (termination::compile with -n alone or combined with a time limit that cannot fire, sync_launch, async_launch): exactly N children started (cli stream, profile budget)"]),
    "C04": _run_prop("C04", [{"kind": "run", "name": "stop", "profile": "stop", "count": {"quick": 320, "thorough": 4000}, "salt": 4},
                             {"kind": "cli", "name": "limit", "profile": "limit", "count": {"quick": 16, "thorough": 120}, "salt": 41},
                             {"kind": "cli", "name": "sigint", "profile": "sigint", "count": {"quick": 16, "thorough": 120}, "salt": 42},
                             {"kind": "cli", "name": "target", "profile": "target", "count": {"quick": 32, "thorough": 300}, "salt": 43}],
                     ["'delivered' = taken up by the controller's select loop (the abort turn); a request sent while completions are queued may be taken up after some of them (DESIGN 3, C04)"]),
    "C05": _run_prop("C05", [{"kind": "run", "name": "mixed", "profile": "mixed", "count": {"quick": 320, "thorough": 4000}, "salt": 5},
                             {"kind": "meta", "name": "inproc", "profile": "inproc", "count": {"quick": 24, "thorough": 400}, "salt": 51},
                             {"kind": "cli", "name": "conc", "profile": "conc", "count": {"quick": 16, "thorough": 120}, "salt": 52}],
                     None, ["threaded in-process path: sync_launch::launch with in_process_computation and a rendezvous objective function (num_concurrent 1, small, = hardware threads, hardware threads + 3, twice the hardware threads): the peak number of calls in progress equals min(num_concurrent, budget) and never exceeds num_concurrent; the thread-pool size is not modelled",
                            "child-process path through the binary (cli stream, profile conc): the first min(num_concurrent, N) children wait for one another (10 s give-up); none gives up"]),
    "C06": _run_prop("C06", [{"kind": "run", "name": "fail", "profile": "fail", "count": {"quick": 320, "thorough": 4000}, "salt": 6},
                             {"kind": "cli", "name": "results", "profile": "results", "count": {"quick": 32, "thorough": 300}, "salt": 61},
                             {"kind": "cli", "name": "failabort", "profile": "failabort", "count": {"quick": 16, "thorough": 150}, "salt": 62},
                             {"kind": "meta", "name": "inprocfail", "profile": "inprocfail", "count": {"quick": 8, "thorough": 60}, "salt": 62}],
                     None, ["child-process failures through the binary (non-zero exit after a valid result, killed child, unparsable output): cli stream profile results",
                            "threaded in-process evaluation: when a failing run returns, no call of the objective function is still executing (meta stream profile inprocfail)"]),
    "C08": _run_prop("C08", [{"kind": "run", "name": "reeval", "profile": "reeval", "count": {"quick": 160, "thorough": 2000}, "salt": 8},
                             {"kind": "run", "name": "mixed", "profile": "short", "count": {"quick": 160, "thorough": 2000}, "salt": 88},
                             {"kind": "algo", "name": "algo", "profile": "mixed", "count": {"quick": 96, "thorough": 1600}, "salt": 89},
                             {"kind": "cli", "name": "guess", "profile": "guess", "count": {"quick": 32, "thorough": 300}, "salt": 81}],
                     None, ["algorithm core at operation granularity (algo stream, see C02)",
                            "initial value first through the binary and sync_launch (cli stream, profile guess): the evaluation with seed 0 receives the accepted --initial-guess (also `null` for an optional root), else the model's init_val of the spec"]),
    "C14": _run_prop("C14", [{"kind": "run", "name": "mixed", "profile": "mixed", "count": {"quick": 240, "thorough": 4000}, "salt": 14},
                             {"kind": "cli", "name": "files", "profile": "valid", "count": {"quick": 48, "thorough": 400}, "salt": 141},
                             {"kind": "cli", "name": "drain", "profile": "drain", "count": {"quick": 24, "thorough": 200}, "salt": 143},
                             {"kind": "cli", "name": "race", "profile": "race", "count": {"quick": 24, "thorough": 200}, "salt": 144},
                             {"kind": "meta", "name": "meta", "profile": "mixed", "count": {"quick": 160, "thorough": 4000}, "salt": 142}],
                     ["meta_adapt::mutate is modelled with the factor 10^exponent as an arbitrary float (MetaAdapt.v); reached through the cfg(cambrian_verif) re-export"],
                     ["best-seen file and CSV rows (Writer) are not modelled yet",
                      "positive finite mutation scale: proved non-negative and not NaN per step (rescale_scale_sign) and finite and strictly positive per step while the scale is within [2^-900, 2^900] (rescale_keeps_pos_fin); a lineage leaving that range needs at least 22 consecutive extreme factors (probability below 1e-50): not excluded by a theorem, monitored on every report item",
                      "every_record_has_valid_probabilities assumes that the meta parameters handed out under a seed are the override, exploratory, or (mutated) meta parameters created under an earlier seed: the shape of next_meta_params is a regenerated source fact, the link to earlier seeds (population members were created earlier) is read off the code; monitored on every report item"]),
    "C12": _ops_prop("C12", [{"kind": "ops", "name": "mixed", "profile": "mixed", "count": {"quick": 480, "thorough": 8000}, "salt": 12}]),
    "C13": _ops_prop("C13", [{"kind": "ops", "name": "mixed", "profile": "mixed", "count": {"quick": 320, "thorough": 6000}, "salt": 13},
                             {"kind": "ops", "name": "p1", "profile": "p1", "count": {"quick": 160, "thorough": 2000}, "salt": 131},
                             {"kind": "ops", "name": "p0", "profile": "p0", "count": {"quick": 96, "thorough": 1000}, "salt": 130},
                             {"kind": "ops", "name": "p0big", "profile": "p0big", "count": {"quick": 16, "thorough": 300}, "salt": 132},
                             {"kind": "ops", "name": "p1long", "profile": "p1long", "count": {"quick": 48, "thorough": 600}, "salt": 133},
                             {"kind": "ops", "name": "long", "profile": "long", "count": {"quick": 32, "thorough": 600}, "salt": 134}]),
    "C17": _ops_prop("C17", [{"kind": "ops", "name": "p1", "profile": "p1", "count": {"quick": 320, "thorough": 6000}, "salt": 17},
                             {"kind": "ops", "name": "p1long", "profile": "p1long", "count": {"quick": 48, "thorough": 600}, "salt": 173},
                             {"kind": "meta", "name": "selection", "profile": "mixed", "count": {"quick": 120, "thorough": 3000}, "salt": 171},
                             {"kind": "meta", "name": "bench", "profile": "bench", "count": {"quick": 64, "thorough": 1600}, "salt": 172}],
                     tested=["benchmark battery (11 known-optimum problems x concurrency {1,4} x completion orders chosen by the harness, thresholds in MetaCheck.bench_ok) and 'within a few attempts' for ints: statements about pseudo-random trajectories, tested only; for reals the rule 'a lively interior real changes at probability 1' is checked on every p=1 mutation",
                             "that SelectionImpl::select_ref has the distribution Selection.sel_dist (proved monotone in the rank): 6000 samples per case against the exact rational probabilities within 3 + 7 sigma, plus the source-shape fact select_ref_is_bernoulli_walk_then_uniform"]),
    "C10": {
        "propfile": "theories/Properties/C10.v",
        "coq_targets": ["theories/Properties/C10.vo"],
        "checkers": ["SpecCheck"],
        "streams": [{"kind": "spec", "name": "mixed", "profile": "mixed", "count": {"quick": 960, "thorough": 16000}, "salt": 10}],
        "assumptions": [
            "the model starts from the serde_yaml::Value tree; YAML text -> tree (serde_yaml 0.9, incl. duplicate-key rejection, tags, number classes) is exercised, not modelled",
            "HashMap<String, Box<Node>> of sub members / variant options is modelled as an association list with replace-on-equal-key",
        ],
        "tested_not_proved": [
            "that spec_util::build_node refines SpecBuild.build_node: every generated document (well-formed with hoisted/shadowed typeDefs, single-rule violations, attribute soups incl. tags and non-string keys) is built by both and the results compared (accept/reject and the spec exactly; the error kind is compared but a difference there alone is not counted)",
            "'every declared parameter present': proved for the model (every_declared_parameter_is_present, members_are_built_in_the_subs_scope, variant_options_are_the_declared_entries: members = the entries that are neither type nor a type definition, each built in the sub's own scope); for the implementation checked by the monitor members_present on every accepted document",
        ],
    },
    "C11": {
        "propfile": "theories/Properties/C11.v",
        "coq_targets": ["theories/Properties/C11.vo"],
        "checkers": ["GuessCheck", "RunCheck", "CliCheck"],
        "streams": [{"kind": "guess", "name": "mixed", "profile": "mixed", "count": {"quick": 960, "thorough": 16000}, "salt": 11},
                    {"kind": "run", "name": "guesstwin", "profile": "twin", "count": {"quick": 64, "thorough": 1000}, "salt": 111},
                    {"kind": "cli", "name": "guess", "profile": "guess", "count": {"quick": 32, "thorough": 300}, "salt": 112}],
        "assumptions": [
            "decided at the serde_json::Value level (json_ok: floats finite, integers in u64/i64 range); JSON text <-> tree is serde_json's",
            "objects are BTreeMaps: modelled as association lists compared as maps",
        ],
        "tested_not_proved": [
            "that value_util::build_node / Value::to_json refine Codec.from_json / Codec.to_json: compared on conforming values reached by real mutations (both map encodings), single-defect corruptions, arbitrary JSON",
            "'the spec's own initial value as the guess gives the same run as none': twin runs of the run stream (same actions replayed, logs compared by judge_guess_twin); in the model the two runs are the same term once the guess decodes to the initial value",
            "round trip value -> JSON -> value -> same JSON: proved for the model (serialise_then_read_back, integers in i64 and keys in usize); for the implementation checked by the monitor on every conforming case (also through JSON text)",
            "'the spec's own initial value as guess gives the same run': not yet covered by a stream",
        ],
    },
    "C07": {
        "propfile": "theories/Properties/C07.v",
        "coq_targets": ["theories/Properties/C07.vo"],
        "checkers": ["CliCheck"],
        "streams": [{"kind": "cli", "name": "proc", "profile": "proc", "count": {"quick": 64, "thorough": 600}, "salt": 7},
                    {"kind": "cli", "name": "reap", "profile": "reap", "count": {"quick": 24, "thorough": 200}, "salt": 71},
                    {"kind": "cli", "name": "sigint", "profile": "sigint", "count": {"quick": 16, "thorough": 120}, "salt": 72}],
        "assumptions": [
            "partial: the theorem is about the process-group life cycle model (Cli.pstep); kernel behaviour of killpg/waitpid, PID reuse, zombie reaping are outside it",
            "every evaluation future of a run has completed or been dropped when the run returns (Rust drop semantics)",
            "a process that leaves the process group (setsid) is outside the property",
        ],
        "tested_not_proved": ["no survivor after the run: /proc scan for the case marker after every real run (5 termination causes x concurrency 1..4 x children that fork attached/detached grandchildren, ignore SIGTERM, fail)"],
    },
    "C16": {
        "propfile": "theories/Properties/C16.v",
        "coq_targets": ["theories/Properties/C16.vo"],
        "checkers": ["CliCheck"],
        "streams": [{"kind": "cli", "name": "mixed", "profile": "mixed", "count": {"quick": 96, "thorough": 900}, "salt": 16},
                    {"kind": "cli", "name": "race", "profile": "race", "count": {"quick": 16, "thorough": 150}, "salt": 161}],
        "assumptions": [
            "partial: decision tables (child result classes, order of checks in main, argv shape) are proved; clap, serde_json's text layer, execve quoting and the file system are trusted and tested",
        ],
        "tested_not_proved": ["real binary: argv seen by the child (hostile strings in keys/values/user arguments), result encodings, option combinations, output directory handling, files written"],
    },
    "C09": _run_prop("C09", [{"kind": "run", "name": "twin", "profile": "twin", "count": {"quick": 160, "thorough": 2000}, "salt": 9, "second_process": True}],
                     ["C09's theorem is the determinacy of the model; purity of the real RNG / hasher is a fact about rand, rustc-hash and the source text (SourceFacts lints)"],
                     ["each schedule is run three times in one process (same actions; same completion order with different spacing) and once more in a second process; logs compared (judge_twin / byte-wise)"]),
    "C15": {
        "propfile": "theories/Properties/C15.v",
        "coq_targets": ["theories/Properties/C15.vo"],
        "checkers": ["RunCheck", "OpsCheck", "SpecCheck", "GuessCheck", "CliCheck", "MetaCheck"],
        "streams": [{"kind": "run", "name": "stop", "profile": "stop", "count": {"quick": 160, "thorough": 3000}, "salt": 15},
                    {"kind": "ops", "name": "mixed", "profile": "mixed", "count": {"quick": 240, "thorough": 6000}, "salt": 151},
                    {"kind": "spec", "name": "mixed", "profile": "mixed", "count": {"quick": 320, "thorough": 8000}, "salt": 152},
                    {"kind": "guess", "name": "mixed", "profile": "mixed", "count": {"quick": 320, "thorough": 8000}, "salt": 153},
                    {"kind": "cli", "name": "verbose", "profile": "verbose", "count": {"quick": 32, "thorough": 300}, "salt": 154},
                    {"kind": "cli", "name": "evalends", "profile": "evalends", "count": {"quick": 16, "thorough": 120}, "salt": 156},
                    {"kind": "meta", "name": "meta", "profile": "mixed", "count": {"quick": 96, "thorough": 3000}, "salt": 155}],
        "assumptions": [
            "partial: 'never hangs' is proved as progress of the controller model (stop_drains; Poll.poll_returns: one poll takes at most length(ready)+2 select-loop turns, with the regenerated guard of the abort branch) under the property's assumption that every evaluation ends; that the runtime delivers completions and wakes the future is not provable here",
            "objective values within +-2^997 (contains +-1e300); sample sizes below 2^26",
        ],
        "tested_not_proved": [
            "no panic / no hang of the real code on every stream (run: watchdog on every poll; ops/spec/guess: catch_unwind; cli: exit code 101 / 'panicked' / 60 s limit)",
            "verbose on/off gives the same exit code and stdout (cli stream, sequential runs)",
        ],
    },
    "C01": {
        "propfile": "theories/Properties/C01.v",
        "coq_targets": ["theories/Properties/C01.vo"],
        "checkers": ["OpsCheck", "RunCheck", "ValsCheck"],
        "streams": [{"kind": "ops", "name": "mixed", "profile": "mixed", "count": {"quick": 320, "thorough": 8000}, "salt": 1},
                    {"kind": "ops", "name": "long", "profile": "long", "count": {"quick": 64, "thorough": 1500}, "salt": 101},
                    {"kind": "run", "name": "values", "profile": "mixed", "values": True, "count": {"quick": 96, "thorough": 1500}, "salt": 102},
                    {"kind": "guess", "name": "guess", "profile": "mixed", "count": {"quick": 480, "thorough": 8000}, "salt": 103}],
        "assumptions": [
            "partial: finiteness of reals without both bounds is a side condition (overflow of the Cauchy sample under an astronomically large adaptive scale); monitored on every observed value",
            "operators are modelled as executable relations (Ops.mut_check / Ops.cross_check) - which outputs are possible for SOME RNG state",
            "run level: the theorem chain init/guess -> mutation (-> crossover, see C12) is not yet lifted through the controller model's oracle stream (run_all_conform); every evaluate argument of whole runs is checked by judge_vals",
        ],
        "tested_not_proved": [
            "that real mutate/crossover refine the relations: ops stream (chains up to 120 operator calls per case, maps at their bounds, huge ints, huge scales)",
            "every parameter set passed to the objective function in whole runs (all specs of the run stream, with and without guess, all schedules) conforms: run stream with --values",
        ],
    },
}
