/* LD_PRELOAD shim used by the cli stream's profiles "race" and "reap" (tools/clistream.py).
 * race: delays the N-th write(2) (N = $CV_DELAY_NTH, default 1; 0 = none) to a file named
 *       best_seen.json by $CV_DELAY_MS milliseconds (default 400).
 * reap: delays every waitpid(2) for one exact pid (pid > 0, no options) by $CV_DELAY_WAITPID_MS
 *       milliseconds (default 0 = off); waits for a whole group (pid < 0) are left alone.
 * It only makes one thread slow at a point where the scheduler may preempt it anyway; nothing
 * else about the process changes. */
#define _GNU_SOURCE
#include <dlfcn.h>
#include <unistd.h>
#include <stdio.h>
#include <stdlib.h>
#include <string.h>
#include <stdatomic.h>
#include <sys/types.h>
#include <sys/wait.h>
static atomic_int seen = 0;
ssize_t write(int fd, const void *buf, size_t n) {
  static ssize_t (*real)(int, const void *, size_t) = 0;
  if (!real) real = (ssize_t (*)(int, const void *, size_t))dlsym(RTLD_NEXT, "write");
  char link[64], path[512];
  snprintf(link, sizeof link, "/proc/self/fd/%d", fd);
  ssize_t k = readlink(link, path, sizeof path - 1);
  if (k >= 14) {
    path[k] = 0;
    if (strcmp(path + k - 14, "best_seen.json") == 0) {
      const char *nth = getenv("CV_DELAY_NTH"), *ms = getenv("CV_DELAY_MS");
      int want = nth ? atoi(nth) : 1, delay = ms ? atoi(ms) : 400;
      if (atomic_fetch_add(&seen, 1) + 1 == want) usleep((useconds_t)delay * 1000);
    }
  }
  return real(fd, buf, n);
}

pid_t waitpid(pid_t pid, int *status, int options) {
  static pid_t (*real)(pid_t, int *, int) = 0;
  if (!real) real = (pid_t (*)(pid_t, int *, int))dlsym(RTLD_NEXT, "waitpid");
  const char *ms = getenv("CV_DELAY_WAITPID_MS");
  int delay = ms ? atoi(ms) : 0;
  if (delay > 0 && pid > 0 && options == 0) usleep((useconds_t)delay * 1000);
  return real(pid, status, options);
}
