#!/usr/bin/env python3
"""Writes MANIFEST.json from tools/props.py (claimed checks) and tools/not_applicable.json."""
import json, os, sys
ROOT = os.path.dirname(os.path.dirname(os.path.abspath(__file__)))
sys.path.insert(0, os.path.join(ROOT, "tools"))
import props

all_ids = [json.loads(l)["id"] for l in open(os.path.join(ROOT, "properties.jsonl"))]
na_reasons = json.load(open(os.path.join(ROOT, "tools", "not_applicable.json")))
checks = []
for pid in all_ids:
    if pid not in props.PROPS:
        continue
    s = props.PROPS[pid]
    checks.append({
        "property_id": pid,
        "quick_cmd": "./check %s --tier quick" % pid,
        "thorough_cmd": "./check %s --tier thorough" % pid,
        "evidence_file": "evidence/%s.json" % pid,
        "replay_cmd_template": "./check %s --replay {path}" % pid,
        "engine": "coq-model+correspondence",
        "level_claimed": {
            "category": "proof",
            "text": s.get("level_text", "Coq theorems about a hand-written Gallina model, for all inputs/oracles/label sequences; model tied to /repo by differential execution (correspondence stream) and regenerated SourceFacts.v"),
            "design_ref": s.get("design_ref", "DESIGN.md section 3, " + pid),
        },
        "level_note": s.get("level_note", "trusted: Coq kernel + vm_compute; hand-written model (Ctl.v etc.) tied to the Rust code only by the correspondence check (testing); tools/gen_facts.py; harness; axioms per theorem are listed in the evidence (Print Assumptions)"),
        "technique": s.get("technique", "machine-checked proof in Coq (induction over label sequences / structural induction) + model-vs-implementation correspondence check"),
    })
na = [{"property_id": pid, "reason": na_reasons.get(pid, "not yet claimed: model/theorems for this property are not built yet")}
      for pid in all_ids if pid not in props.PROPS]
m = {
    "version": 1,
    "setup_cmd": "./setup.sh",
    "hooks": {
        "guard": "cambrian_verif",
        "enable": "RUSTFLAGS=\"--cfg cambrian_verif\" (set in harness/.cargo/config.toml); four small add-only commits: src/lib.rs re-exports selection::{Selection, SelectionImpl} and meta_adapt::{mutate, create_exploratory} as cambrian::verif_hooks (+ a check-cfg lint entry in Cargo.toml), and read-only population views on AlgoContext/IndContext (verif_population, verif_next_id, verif_state) re-exported there too, and termination::verif_compile (the compiled criteria as a tuple); everything else uses the public API",
        "baseline_off_cmd": "cd /repo && cargo test --workspace --no-fail-fast --offline",
        "source_commits": ["1918f30", "e5e77fc", "c8fd342", "a127886"],
        "add_only": True,
    },
    "engines": [{"name": "coq-model+correspondence", "path": "coq/ harness/ check tools/",
                 "serves_properties": [c["property_id"] for c in checks],
                 "kind_free_text": "Coq 8.16 development (model, proofs, executable acceptors/monitors) + Rust harness producing observations of the real crate + Python driver"}],
    "checks": checks,
    "not_applicable": na,
    "notes": "See DESIGN.md. Fix commits in /repo (11) and the one open known finding (C11: guess key usize::MAX, printed as KNOWN-FINDING by ./check C11) are recorded in known_findings.jsonl.",
}
json.dump(m, open(os.path.join(ROOT, "MANIFEST.json"), "w"), indent=1)
print("MANIFEST.json: %d checks, %d not_applicable" % (len(checks), len(na)))
