#!/bin/sh
# run every registered quick check and print a one-line summary each
cd "$(dirname "$0")/.."
for p in $(python3 -c "import sys; sys.path.insert(0,'tools'); import props; print(' '.join(sorted(props.PROPS)))"); do
  out=$(./check $p 2>&1); rc=$?
  echo "$p exit=$rc $(echo "$out" | grep -E 'done in' | sed 's/.*done in/done in/') $(echo "$out" | grep -c VIOLATION) violations"
done
