#!/bin/sh
# usage: try_seed_scratch.sh <patch.diff> <pid>...  -- like try_seed.sh, but without touching /repo: the patch is applied to a
# scratch worktree of /repo and the checks run from a scratch copy of /verif whose harness links that worktree.
# For use while a background run reads /repo; the registered way (try_seed.sh, /repo itself) is what the metas record.
patch="$1"; shift
SR=/tmp/seed/scr_repo; SV=/tmp/seed/scr_verif
if [ ! -d "$SR" ]; then git -C /repo worktree add --detach "$SR" HEAD -q || exit 2; fi
git -C "$SR" checkout -q -f HEAD -- . && git -C "$SR" checkout -q --detach "$(git -C /repo rev-parse HEAD)" || exit 2
if ! git -C "$SR" apply --check "$patch" 2>/dev/null; then echo "PATCH DOES NOT APPLY: $patch"; exit 2; fi
git -C "$SR" apply "$patch"
[ -f "$SR/Cargo.lock" ] || cp /repo/Cargo.lock "$SR/Cargo.lock"
mkdir -p "$SV"
rsync -a --delete --exclude harness/target --exclude .work --exclude .git --exclude replays --exclude evidence /verif/ "$SV"/
mkdir -p "$SV/replays" "$SV/evidence"
sed -i "s#path = \"/repo\"#path = \"$SR\"#" "$SV/harness/Cargo.toml"
cp "$SR/Cargo.lock" "$SV/harness/Cargo.lock" 2>/dev/null
for pid in "$@"; do
  (cd "$SV" && CAMBRIAN_REPO="$SR" ./check "$pid" --tier quick 2>&1 | grep -E "VIOLATION|KNOWN-FINDING|done in|problems"; echo "exit=$?")
done
git -C "$SR" checkout -q -f HEAD -- .
