#!/bin/sh
# usage: coqgoal.sh <file.v> <line> [nlines]  -- show the goal just before <line>
f="$1"; n="$2"; k="${3:-60}"
head -n $((n-1)) "$f" > /tmp/_goal.v
echo "Show." >> /tmp/_goal.v
cd /verif/coq && coqc -Q theories Cambrian /tmp/_goal.v 2>&1 | grep -v "^Warning\|conda" | tail -n "$k"
