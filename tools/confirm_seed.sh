#!/bin/bash
# usage: confirm_seed.sh <Cnn> <A|B>   -- re-verify a seeded change in its scratch worktree and file it under /verif/seeded
id="$1"; v="$2"; wt=/tmp/seed/$id; out=$wt/.scratch/out; dest=/verif/seeded/${id}_$v
export CARGO_NET_OFFLINE=true
cd "$wt" || exit 2
git checkout -q -- src tests 2>/dev/null; rm -f tests/demo_seed.rs
demo=$(ls $out/demo_$v.* 2>/dev/null | head -1)
[ -f "$out/$v.diff" ] || { echo "$id/$v: no diff"; exit 2; }
git apply "$out/$v.diff" || { echo "$id/$v: diff does not apply"; exit 2; }
build=$(cargo build --offline 2>&1 | tail -1)
suite=$(cargo test --workspace --no-fail-fast --offline 2>&1 | grep -E "^test result" | awk '{p+=$4; f+=$6} END {print p" passed, "f" failed"}')
with=""; without=""
if [[ "$demo" == *.rs ]]; then
  cp "$demo" tests/demo_seed.rs
  with=$(timeout 600 cargo test --offline --test demo_seed 2>&1 | grep -E "^test result|error\[" | head -3 | tr '\n' ' ')
  git checkout -q -- src
  without=$(timeout 600 cargo test --offline --test demo_seed 2>&1 | grep -E "^test result|error\[" | head -3 | tr '\n' ' ')
  rm -f tests/demo_seed.rs
else
  with="(non-Rust demo: see README)"; without="(non-Rust demo: see README)"
fi
git checkout -q -- src tests 2>/dev/null
mkdir -p "$dest"
cp "$out/$v.diff" "$dest/patch.diff"; [ -n "$demo" ] && cp "$demo" "$dest/"; cp "$out/README.md" "$dest/README_agent.md"
python3 - "$id" "$v" "$build" "$suite" "$with" "$without" "$dest" <<'PY'
import json,sys
id,v,build,suite,w,wo,dest=sys.argv[1:8]
json.dump({"property":id,"variant":v,"patch":"patch.diff","confirmed_by_me":{"build_with_change":build,"existing_suite_with_change":suite,"demo_with_change":w,"demo_without_change":wo}},open(dest+"/meta.json","w"),indent=1)
print(id,v,"|",suite,"| with:",w,"| without:",wo)
PY
