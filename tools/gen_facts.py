#!/usr/bin/env python3
"""Regenerate coq/theories/SourceFacts.v from /repo/src (non-test code only).

Constants and a few structural facts of the source that the model is parametric
in.  A pattern that is not found is a hard error (exit 2), never a default.
The file is only rewritten when its content changes, so that an unchanged source
does not trigger a rebuild of the Coq development.
"""
import os, re, struct, sys

REPO = os.environ.get("CAMBRIAN_REPO", "/repo")
OUT = os.path.join(os.path.dirname(os.path.abspath(__file__)), "..", "coq", "theories", "SourceFacts.v")


def die(msg):
    sys.stderr.write("gen_facts: " + msg + "\n")
    sys.exit(2)


def read_nontest(name):
    p = os.path.join(REPO, "src", name)
    try:
        s = open(p).read()
    except OSError as e:
        die("cannot read %s: %s" % (p, e))
    # cut the trailing test module(s): everything from the first `#[cfg(test)]\nmod`
    m = re.search(r"#\[cfg\(test\)\]\s*(pub\s+)?mod\s", s)
    if m:
        s = s[: m.start()]
    # drop single #[cfg(test)] items (use lines)
    s = re.sub(r"#\[cfg\(test\)\]\s*use [^;]*;", "", s)
    return s


def strip_comments(s):
    s = re.sub(r"//[^\n]*", "", s)
    s = re.sub(r"/\*.*?\*/", "", s, flags=re.S)
    return s


def need(pat, s, what, flags=re.S):
    m = re.search(pat, s, flags)
    if not m:
        die("pattern not found: " + what)
    return m


def fbits(txt):
    x = float(txt.replace("_", ""))
    return struct.unpack("<Q", struct.pack("<d", x))[0]


def main():
    facts = []

    algo = strip_comments(read_nontest("algorithm.rs"))
    m = need(r"const\s+STATIC_PARAMS\s*:\s*StaticParams\s*=\s*StaticParams\s*\{(.*?)\};", algo, "STATIC_PARAMS")
    body = m.group(1)
    fields = dict(re.findall(r"(\w+)\s*:\s*([-+0-9.eE_]+)", body))
    for k in ["meta_params_prob_exploratory", "meta_params_select_pressure", "meta_params_prob_mutation",
              "prob_reeval", "min_pop_size_for_reeval", "max_pop_size"]:
        if k not in fields:
            die("STATIC_PARAMS field missing: " + k)
    for k in ["meta_params_prob_exploratory", "meta_params_select_pressure", "meta_params_prob_mutation", "prob_reeval"]:
        facts.append("Definition %s_bits : Z := %d%%Z. (* %s *)" % (k, fbits(fields[k]), fields[k]))
    for k in ["min_pop_size_for_reeval", "max_pop_size"]:
        v = int(fields[k].replace("_", ""))
        if v > 100000:
            die(k + " too large for a nat literal")
        facts.append("Definition %s : nat := %d." % (k, v))
    # exactly one seeded RNG, no entropy / time dependence outside tests (C09)
    all_src = ""
    for fn in sorted(os.listdir(os.path.join(REPO, "src"))):
        if fn.endswith(".rs") and fn != "testutil.rs":
            all_src += strip_comments(read_nontest(fn)) + "\n"
    n_seeded = len(re.findall(r"seed_from_u64\s*\(\s*0\s*\)", all_src))
    n_any_seed = len(re.findall(r"seed_from_u64|from_seed\s*\(|from_rng\s*\(", all_src))
    entropy = len(re.findall(r"thread_rng|from_entropy|OsRng|getrandom|RandomState|SystemTime|rand::random", all_src))
    facts.append("Definition rng_single_fixed_seed : bool := %s." % ("true" if (n_seeded == 1 and n_any_seed == 1) else "false"))
    facts.append("Definition rng_no_entropy_source : bool := %s." % ("true" if entropy == 0 else "false"))
    facts.append("Definition std_hashmap_unused : bool := %s." %
                 ("true" if not re.search(r"std::collections::(HashMap|HashSet|\{[^}]*Hash(Map|Set))", all_src) else "false"))
    # rescaling factors are never assigned outside tests
    assigns = re.findall(r"current_rescaling\s*=[^=]", all_src)
    facts.append("Definition rescaling_never_assigned : bool := %s." % ("true" if not assigns else "false"))

    # create_offspring: crossover of the population's values (initial value if empty), then mutation
    m = need(r"fn\s+create_offspring\s*\(&mut self\)[^{]*\{(.*?)\n    \}", algo, "create_offspring")
    body = re.sub(r"\s+", "", m.group(1))
    shape = (
        "letindividuals_ordered:Vec<&Value>=self.individuals.values().map(|ctx|&ctx.value).collect();" in body
        and "letcrossover_result=ifindividuals_ordered.is_empty(){self.initial_value.clone()}else{self.crossover.crossover(&self.spec,&individuals_ordered," in body
        and "letresult=mutation::mutate(&self.spec,&crossover_result," in body
        and body.endswith("(result,meta_params_wrapper)")
    )
    facts.append("Definition offspring_is_mutated_crossover_of_population : bool := %s." % ("true" if shape else "false"))

    # next_meta_params: override | exploratory | selected from the population's meta parameters (mutated or not)
    m = need(r"fn\s+next_meta_params\s*\(&mut self\)[^{]*\{(.*?)\n    \}", algo, "next_meta_params")
    nb = re.sub(r"\s+", "", m.group(1))
    nshape = (
        nb.startswith("ifletSome(meta_params_override)=&self.meta_params_override{returnwrap(meta_params_override.clone(),MetaParamsSource::Override);}")
        and nb.count("wrap(meta_adapt::create_exploratory(&mutself.rng),MetaParamsSource::Exploratory,)") == 2
        and "letmeta_params_ordered=self.individuals.values().filter_map(|ctx|ctx.meta_params_used.as_ref()).collect_vec();" in nb
        and "letselected=SelectionImpl::new().select_ref(&meta_params_ordered,self.static_params.meta_params_select_pressure,&mutself.rng,).clone();" in nb
        and "wrap(meta_adapt::mutate(selected.crossover_params,selected.mutation_params,&mutself.rng,),MetaParamsSource::SelectedAndMutated,)" in nb
        and "wrap((selected.crossover_params,selected.mutation_params),MetaParamsSource::Selected,)" in nb
    )
    facts.append("Definition next_meta_params_is_override_exploratory_or_selected : bool := %s." % ("true" if nshape else "false"))

    ctl = strip_comments(read_nontest("controller.rs"))
    m = need(r"_\s*=\s*&mut\s+in_abort_signal_recv\s*(,\s*if\s+([^=]+?))?\s*=>", ctl, "abort branch of the controller select")
    guard = (m.group(2) or "").strip()
    guarded = guard.replace(" ", "") == "!abort_signal_received"
    facts.append("Definition abort_branch_guarded : bool := %s. (* guard text: %r *)" % ("true" if guarded else "false", guard))
    m = need(r"async_broadcast::broadcast::<\(\)>\(\s*(\d+)\s*\)", ctl, "abort broadcast capacity")
    facts.append("Definition abort_broadcast_capacity : N := %s%%N." % m.group(1))

    sl = strip_comments(read_nontest("sync_launch.rs"))
    m = need(r"const\s+CHANNEL_BUF_SIZE\s*:\s*usize\s*=\s*(\d+)\s*;", sl, "CHANNEL_BUF_SIZE")
    facts.append("Definition channel_buf_size : N := %s%%N." % m.group(1))

    meta = strip_comments(read_nontest("meta.rs"))
    m = need(r"const\s+DEFAULT_IND_SAMPLE_SIZE\s*:\s*usize\s*=\s*(\d+)\s*;", meta, "DEFAULT_IND_SAMPLE_SIZE")
    facts.append("Definition default_ind_sample_size : N := %s%%N." % m.group(1))

    ma = strip_comments(read_nontest("meta_adapt.rs"))
    for cname, coqname in [("META_PARAMS_MUTATION_EXPONENT_SCALE", "meta_exponent_scale_bits"),
                           ("META_PARAMS_MUTATION_RESCALE_FLOOR", "meta_rescale_floor_bits"),
                           ("META_PARAMS_MUTATION_RESCALE_CEIL", "meta_rescale_ceil_bits")]:
        m = need(r"const\s+" + cname + r"\s*:\s*f64\s*=\s*([-+0-9.eE_]+)\s*;", ma, cname)
        facts.append("Definition %s : Z := %d%%Z. (* %s *)" % (coqname, fbits(m.group(1)), m.group(1)))
    m = need(r"fn\s+create_exploratory.*?crossover_prob\s*:\s*([0-9.eE_]+).*?selection_pressure\s*:\s*([0-9.eE_]+).*?mutation_prob\s*:\s*([0-9.eE_]+).*?mutation_scale\s*:\s*([0-9.eE_]+)", ma, "create_exploratory constants")
    for i, nm in enumerate(["expl_crossover_prob_bits", "expl_selection_pressure_bits", "expl_mutation_prob_bits", "expl_mutation_scale_bits"]):
        facts.append("Definition %s : Z := %d%%Z. (* %s *)" % (nm, fbits(m.group(i + 1)), m.group(i + 1)))
    facts.append("Definition rescale_prob_clamped_to_one : bool := %s." %
                 ("true" if re.search(r"fn\s+rescale_prob[^}]*rescale\(prob,\s*rng\)\s*\.min\(\s*1\.0\s*\)", ma) else "false"))

    def fn_body(src, name, what):
        m = need(r"fn\s+" + name + r"\b[^{]*\{(.*?)\n\}", src, what)
        return re.sub(r"\s+", "", m.group(1))
    rb = fn_body(ma, "rescale", "meta_adapt::rescale")
    facts.append("Definition rescale_is_clamped_product : bool := %s." % ("true" if (
        "letexponent:f64=Cauchy::new(0.0,META_PARAMS_MUTATION_EXPONENT_SCALE).unwrap().sample(rng);" in rb
        and "letfactor=10.0f64.powf(exponent);" in rb
        and rb.endswith("value*factor.clamp(META_PARAMS_MUTATION_RESCALE_FLOOR,META_PARAMS_MUTATION_RESCALE_CEIL)")) else "false"))
    mb = fn_body(ma, "mutate", "meta_adapt::mutate")
    facts.append("Definition meta_mutate_rescales_each_field : bool := %s." % ("true" if (
        "crossover_prob:rescale_prob(crossover_params.crossover_prob,rng)," in mb
        and "selection_pressure:rescale_prob(crossover_params.selection_pressure,rng)," in mb
        and "mutation_prob:rescale_prob(mutation_params.mutation_prob,rng)," in mb
        and "mutation_scale:rescale(mutation_params.mutation_scale,rng)," in mb
        and mb.endswith("(crossover_params,mutation_params)")) else "false"))
    eb = fn_body(ma, "create_exploratory", "meta_adapt::create_exploratory")
    facts.append("Definition exploratory_is_mutated_base : bool := %s." % ("true" if eb.endswith("mutate(crossover_params,mutation_params,rng)") else "false"))

    se = strip_comments(read_nontest("selection.rs"))
    m = need(r"fn\s+select_ref<[^{]*\{(.*?)\n    \}", se, "SelectionImpl::select_ref")
    sb = re.sub(r"\s+", "", m.group(1))
    facts.append("Definition select_ref_is_bernoulli_walk_then_uniform : bool := %s." % ("true" if sb ==
        "letdist=Bernoulli::new(selection_pressure).unwrap();forindividualinindividuals_ordered{ifdist.sample(rng){returnindividual;}}individuals_ordered.choose(rng).unwrap()"
        else "false"))

    mu = strip_comments(read_nontest("mutation.rs"))
    need(r"let\s+key\s*=\s*path_node_ctx\.next_key\(\)\s*;", mu, "key allocation in mutate_anon_map")
    reg = re.search(r"path_node_ctx\.on_keys_seen\(\s*value_map\.keys\(\)\s*\)\s*;\s*let\s+key\s*=\s*path_node_ctx\.next_key\(\)\s*;", mu)
    facts.append("Definition map_keys_registered_before_next_key : bool := %s." % ("true" if reg else "false"))

    su = strip_comments(read_nontest("spec_util.rs"))
    m = need(r"const\s+BUILT_IN_TYPE_NAMES\s*:\s*&\[&str\]\s*=\s*&\[(.*?)\];", su, "BUILT_IN_TYPE_NAMES")
    names = re.findall(r'"([^"]*)"', m.group(1))
    facts.append("Definition built_in_type_names : list string := [%s]." % "; ".join('"%s"' % n for n in names))
    # prefixes used by the two passes of build_sub
    m1 = need(r'attribute_key\.starts_with\(\s*"([^"]*)"\s*\)\s*=>\s*\{\s*let\s+type_name\s*=\s*attribute_key\.strip_prefix\(\s*"([^"]*)"\s*\)', su, "typeDef prefix (first pass)")
    m2 = need(r'!attribute_key\.eq\(\s*"type"\s*\)\s*&&\s*!attribute_key\.starts_with\(\s*"([^"]*)"\s*\)', su, "typeDef prefix (second pass)")
    facts.append('Definition typedef_prefix_pass1 : string := "%s".' % m1.group(1))
    facts.append('Definition typedef_strip_prefix : string := "%s".' % m1.group(2))
    facts.append('Definition typedef_prefix_pass2 : string := "%s".' % m2.group(1))

    # enum values: is distinctness of the values checked?  (two distinct values are required)
    distinct = re.search(r"values\s*\.iter\(\)\s*\.unique\(\)\s*\.count\(\)\s*<\s*2", su)
    facts.append("Definition enum_values_checked_distinct : bool := %s." % ("true" if distinct else "false"))

    vu = strip_comments(read_nontest("value_util.rs"))
    need(r"fn\s+build_array\s*\(", vu, "value_util::build_array")
    facts.append("Definition guess_array_length_checked : bool := %s." %
                 ("true" if re.search(r"elements\.len\(\)\s*!=\s*size", vu) else "false"))
    facts.append("Definition guess_map_size_checked : bool := %s." %
                 ("true" if len(re.findall(r"check_anon_map_size\(\s*&?result_mapping", vu)) >= 2 else "false"))

    # Value::to_json, the function Codec.to_json models: leaves are written exactly, maps key by key
    va = strip_comments(read_nontest("value.rs"))
    m = need(r"impl\s+Node\s*\{\s*pub\s+fn\s+to_json\(&self\)\s*->\s*serde_json::Value\s*\{(.*?)\n    \}", va, "value::Node::to_json")
    tj = re.sub(r"\s+", "", m.group(1))
    facts.append("Definition value_to_json_shape : bool := %s." % ("true" if tj == (
        "matchself{Node::Real(number)=>serde_json::Value::Number(Number::from_f64(*number).unwrap()),"
        "Node::Int(number)=>serde_json::Value::Number(Number::from(*number)),"
        "Node::Bool(val)=>serde_json::Value::Bool(*val),"
        "Node::Array(elements)=>Self::map_to_json_array(elements),"
        "Node::AnonMap(mapping)=>Self::map_to_json_obj(mapping),"
        "Node::Sub(mapping)=>Self::map_to_json_obj(mapping),"
        "Node::Variant(variant_name,value)=>{letmutout_mapping=serde_json::Map::new();out_mapping.insert(variant_name.to_owned(),value.to_json());serde_json::Value::Object(out_mapping)}"
        "Node::Enum(variant_name)=>serde_json::Value::String(variant_name.to_owned()),"
        "Node::Optional(value)=>matchvalue{Some(value)=>value.to_json(),None=>serde_json::Value::Null,},"
        "Node::Const=>serde_json::Value::Null,}") else "false"))

    pr = strip_comments(read_nontest("process.rs"))
    need(r"fn\s+get_child_result", pr, "process::get_child_result")
    facts.append("Definition child_result_must_be_object : bool := %s." %
                 ("true" if re.search(r"is_object\s*\(", pr) else "false"))
    # the decision of get_child_result that Cli.classify_child models: both pipes collected to the end,
    # exit status first, then the whole of stdout as one JSON document, an object, of the strict result type
    prs = re.sub(r"\s+", "", pr)
    facts.append("Definition child_result_decision_shape : bool := %s." % ("true" if (
        "letoutput=child.wait_with_output().await?;" in prs
        and "ifoutput.status.success(){letresult:Option<ObjFuncChildResult>=serde_json::from_slice(&output.stdout).ok()"
            ".filter(|value:&serde_json::Value|value.is_object()).and_then(|value|serde_json::from_value(value).ok());"
            "matchresult{Some(result)=>Ok(result.objFuncVal),None=>Err(Error::ObjFuncProcInvalidOutput(" in prs
        and "}else{" in prs and "Err(Error::ObjFuncProcFailed(" in prs
        and "#[serde(deny_unknown_fields)]structObjFuncChildResult{objFuncVal:Option<f64>,}" in prs) else "false"))
    kb = fn_body(pr, "kill_and_reap_child_proc_group", "process::kill_and_reap_child_proc_group")
    facts.append("Definition reap_tolerates_echild : bool := %s." % ("true" if (
        "Ok(())=>matchwait::waitpid(pgid,None){Ok(_)=>Ok(())," in kb and "Err(Errno::ECHILD)=>Ok(())," in kb) else "false"))
    facts.append("Definition reap_kills_with_sigkill : bool := %s." %
                 ("true" if ("matchsignal::killpg(pgid,Signal::SIGKILL){" in kb and "SIGTERM" not in kb) else "false"))
    guard = re.search(r"impl\s+Drop\s+for\s+(\w+)", pr)
    guard_used = bool(guard and re.search(r"let\s+_\w*\s*=\s*%s\s*[\(\{]" % guard.group(1), pr))
    facts.append("Definition process_group_guard_present : bool := %s." % ("true" if guard_used else "false"))
    # the guard kills with SIGKILL (a SIGTERM can be ignored) and nothing can disarm it
    gname = guard.group(1) if guard else "ProcessGroupGuard"
    dm = re.search(r"impl\s+Drop\s+for\s+%s\s*\{(.*?)\n\}" % gname, pr, re.S)
    dbody = re.sub(r"\s+", "", dm.group(1)) if dm else ""
    facts.append("Definition guard_kills_with_sigkill : bool := %s." %
                 ("true" if ("signal::killpg(pgid,Signal::SIGKILL)" in dbody and "SIGTERM" not in dbody) else "false"))
    disarm = (re.search(r"impl\s+%s\s*\{" % gname, pr) or re.search(r"mem::forget|ManuallyDrop", pr)
              or re.search(r"\.0\s*=\s*None|\.0\.take\(\)", pr))
    facts.append("Definition guard_never_disarmed : bool := %s." % ("true" if not disarm else "false"))
    # evaluate() selects over the child's result, the kill timeout and the abort signal
    em = re.search(r"async\s+fn\s+evaluate\b(.*?)\n    \}", pr, re.S)
    ebody = re.sub(r"\s+", "", em.group(1)) if em else ""
    facts.append("Definition evaluate_selects_result_timeout_abort : bool := %s." %
                 ("true" if (ebody.count("tokio::select!") + ebody.count("select!{") >= 1 and "abort" in ebody and "timeout" in ebody.lower() and "child_result" in ebody) else "false"))
    # the select of evaluate(), arm by arm: the result as it is; at the limit and on the abort the group is killed and
    # reaped and the evaluation returns as rejected at once (Cli.pstep: LTimer / LAbort), without waiting for the output
    facts.append("Definition evaluate_arms_kill_reap_return : bool := %s." % ("true" if (
        "tokio::select!{result=&mutchild_result=>{returnresult}"
        "_=&muttimeout_fut=>{kill_and_reap_child_proc_group(unreaped_pgid)?;returnOk(None)}"
        "_=abort_sig_future=>{kill_and_reap_child_proc_group(unreaped_pgid)?;returnOk(None)}}" in ebody
        and "letabort_sig_future=abort_sig_rx.recv();" in ebody
        and "Either::Right(futures::future::pending())" in ebody) else "false"))
    facts.append("Definition stderr_logged_lossily : bool := %s." %
                 ("true" if (re.search(r"from_utf8_lossy", pr) and not re.search(r"String::from_utf8\([^)]*\)\s*\.unwrap\(\)", pr)) else "false"))

    # sync_launch: the writer loop (Writer.v) and the select loop (Sync.v)
    sl = strip_comments(read_nontest("sync_launch.rs"))
    sls = re.sub(r"\s+", "", sl)
    facts.append("Definition sync_launch_drains_writer_before_return : bool := %s." %
                 ("true" if "res=&mutlaunch_fut=>{detailed_reporting_fut.await?;returnres;}" in sls else "false"))
    facts.append("Definition writer_is_row_then_best_on_strict_improvement : bool := %s." % ("true" if (
        "whileletSome(item)=item_receiver.next().await{detailed_report_file.write_all(item.to_csv_row().as_bytes()).await?;"
        "ifletSome(item_obj_func_val)=item.obj_func_val{letnew_best_seen=ifletSome(refbest_seen)=best_seen{"
        "letbest_obj_func_val=best_seen.obj_func_val.unwrap();item_obj_func_val<best_obj_func_val}else{true};"
        "ifnew_best_seen{write_best_seen_file(&item.input_val,file_info).await?;best_seen=Some(item);}};}" in sls) else "false"))
    wb = fn_body(sl, "write_best_seen_file", "sync_launch::write_best_seen_file")
    facts.append("Definition best_seen_file_is_truncated_then_written : bool := %s." % ("true" if (
        wb.startswith("letmutbest_seen_file=File::create(&file_info.best_seen_file_path).await")
        and "best_seen_file.write_all(value.to_string().as_bytes()).await?;" in wb
        and "OpenOptions" not in wb) else "false"))

    facts.append("Definition best_seen_write_awaited : bool := %s." % ("true" if
        re.search(r"best_seen_file\.write_all\(value\.to_string\(\)\.as_bytes\(\)\)\.await\?;best_seen_file\.flush\(\)\.await\?;Ok\(\(\)\)$", wb) else "false"))

    dr = strip_comments(read_nontest("detailed_report.rs"))
    m = need(r'fn\s+get_csv_header_row\(\)\s*->\s*&\'static\s+str\s*\{\s*"([^"]*)"', dr, "CSV header")
    facts.append('Definition csv_header : string := "%s".' % m.group(1).replace("\\n", ""))

    text = ("(* GENERATED by tools/gen_facts.py from %s/src on every run. Do not edit. *)\n"
            "From Coq Require Import ZArith NArith String List.\nImport ListNotations.\nLocal Open Scope string_scope.\n\n" % REPO
            + "\n".join(facts) + "\n")
    out = os.path.normpath(OUT)
    old = None
    try:
        old = open(out).read()
    except OSError:
        pass
    if old != text:
        with open(out, "w") as f:
            f.write(text)
        print("gen_facts: wrote", out)
    else:
        print("gen_facts: unchanged")


if __name__ == "__main__":
    main()
