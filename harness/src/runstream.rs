//! Run stream: `cambrian::async_launch::launch` driven by a manual executor.
//!
//! The harness is the objective function, the command sender and the report
//! consumer at once.  Every evaluation future completes only when the schedule
//! says so (or, for evaluations that honour the abort broadcast, when they see
//! it).  Everything observable is appended to one log, in real order; the log is
//! printed as a Coq term and judged by Gallina functions (Check/RunCheck.v).

use crate::prng::Prng;
use async_trait::async_trait;
use cambrian::error::Error;
use cambrian::message::Command;
use cambrian::meta::{AlgoConfigBuilder, AsyncObjectiveFunction};
use cambrian::{async_launch, spec_util, value_util};
use futures::channel::mpsc;
use futures::future::poll_fn;
use std::collections::HashMap;
use std::future::Future;
use std::pin::Pin;
use std::sync::atomic::{AtomicBool, Ordering};
use std::sync::{Arc, Mutex};
use std::task::{Context, Poll, Wake, Waker};
use std::time::{Duration, Instant};

#[derive(Clone, Debug)]
pub enum RawOut {
    Val(f64),
    NoneOut,
    Err(u64),
}

#[derive(Clone, Debug)]
pub struct OItem {
    pub id: u64,
    pub seed: u64,
    pub val: usize,
    pub res: Option<f64>,
    /// (source, crossover_prob, selection_pressure, mutation_prob, mutation_scale)
    pub meta: Option<(u8, f64, f64, f64, f64)>,
}

#[derive(Clone, Debug)]
pub enum ORes {
    Ok { obj: f64, val: usize, acc: u64, rej: u64 },
    /// 0 NoIndividuals, 1 ClientHungUp, 2 ObjFuncValMustBeFinite, 3 objective-function error (tag), 4 other
    Err { kind: u8, tag: u64, text: String },
}

#[derive(Clone, Debug)]
pub enum Ev {
    Poll,
    Start { id: u64, seed: u64, val: usize },
    Returned { seed: u64, out: RawOut },
    Items(Vec<OItem>),
    Pending,
    Ready(ORes),
    Hang,
    Terminate,
    CloseCmd,
    CloseReports,
    ReplayMismatch,
    CsvMismatch,
}

struct Slot {
    outcome: Option<RawOut>,
    waker: Option<Waker>,
    returned: bool,
    honour: bool,
}

struct Inner {
    log: Vec<Ev>,
    slots: HashMap<u64, Slot>,
    order: Vec<u64>, // seeds in start order
    intern: HashMap<String, usize>,
    strings: Vec<String>,
    honour_seed: u64,
    honour_num: u64, // out of 8
    hang: bool,
}

impl Inner {
    fn intern(&mut self, s: String) -> usize {
        if let Some(i) = self.intern.get(&s) {
            return *i;
        }
        let i = self.strings.len();
        self.strings.push(s.clone());
        self.intern.insert(s, i);
        i
    }
}

#[derive(Clone)]
pub struct Shared(Arc<Mutex<Inner>>);

struct HarnessFn {
    shared: Shared,
}

fn make_err(tag: u64) -> Error {
    Error::UnableToLaunchObjFuncProcess(std::io::Error::new(
        std::io::ErrorKind::Other,
        format!("tag:{}", tag),
    ))
}

#[async_trait]
impl AsyncObjectiveFunction for HarnessFn {
    async fn evaluate(
        &self,
        value: serde_json::Value,
        mut abort_rx: async_broadcast::Receiver<()>,
        seed: u64,
        individual_id: usize,
    ) -> Result<Option<f64>, Error> {
        let shared = self.shared.clone();
        {
            let mut g = shared.0.lock().unwrap();
            let v = g.intern(value.to_string());
            g.log.push(Ev::Start {
                id: individual_id as u64,
                seed,
                val: v,
            });
            let mut h = Prng::new(g.honour_seed ^ seed.wrapping_mul(0x5851F42D4C957F2D));
            let honour = h.next_u64() % 8 < g.honour_num;
            g.slots.insert(
                seed,
                Slot {
                    outcome: None,
                    waker: None,
                    returned: false,
                    honour,
                },
            );
            g.order.push(seed);
        }
        let mut abort_fut = Box::pin(async move { abort_rx.recv().await });
        let mut abort_done = false;
        poll_fn(move |cx| {
            {
                let mut g = shared.0.lock().unwrap();
                let slot = g.slots.get_mut(&seed).unwrap();
                if let Some(o) = slot.outcome.take() {
                    slot.returned = true;
                    g.log.push(Ev::Returned {
                        seed,
                        out: o.clone(),
                    });
                    return Poll::Ready(match o {
                        RawOut::Val(x) => Ok(Some(x)),
                        RawOut::NoneOut => Ok(None),
                        RawOut::Err(t) => Err(make_err(t)),
                    });
                }
            }
            if !abort_done {
                if let Poll::Ready(_) = abort_fut.as_mut().poll(cx) {
                    abort_done = true;
                    let mut g = shared.0.lock().unwrap();
                    let slot = g.slots.get_mut(&seed).unwrap();
                    if slot.honour {
                        slot.returned = true;
                        g.log.push(Ev::Returned {
                            seed,
                            out: RawOut::NoneOut,
                        });
                        return Poll::Ready(Ok(None));
                    }
                }
            }
            let mut g = shared.0.lock().unwrap();
            g.slots.get_mut(&seed).unwrap().waker = Some(cx.waker().clone());
            Poll::Pending
        })
        .await
    }
}

struct WakeFlag(AtomicBool);
impl Wake for WakeFlag {
    fn wake(self: Arc<Self>) {
        self.0.store(true, Ordering::SeqCst);
    }
    fn wake_by_ref(self: &Arc<Self>) {
        self.0.store(true, Ordering::SeqCst);
    }
}

#[derive(Clone, Debug)]
pub enum ValMode {
    Random,
    Decreasing,
    Increasing,
    Ties,
    Huge,
    SignedZero,
    Constant,
    TwoLevels,
}

#[derive(Clone, Debug)]
pub struct Sched {
    pub idx: u64,
    pub seed: u64,
    pub nc: usize,
    pub budget: Option<usize>,
    pub target: Option<f64>,
    pub ss: usize,
    pub spec: usize,
    pub guess: Option<String>,
    pub max_rounds: usize,
    pub batch_all_num: u64, // out of 16: complete everything in flight this round
    pub batch_many_num: u64, // out of 16: complete a random subset
    pub order: u8,          // 0 fifo 1 lifo 2 random
    pub val_mode: ValMode,
    pub reject_num: u64,    // out of 16
    pub fail_at: Option<usize>,
    pub fail2_at: Option<usize>,
    pub nonfinite_at: Option<usize>,
    pub terminate_at: Option<usize>,
    /// a second Terminate this many rounds after the first (time limit then Ctrl-C, double Ctrl-C)
    pub terminate_again: Option<usize>,
    pub honour_num: u64, // out of 8
    pub close_cmd_at: Option<usize>,
    pub close_rep_at: Option<usize>,
    pub watchdog_ms: u64,
    pub terminate_alone: bool,
    pub fail_after_terminate: bool,
}

pub const SPECS: &[&str] = &[
    "x:\n  type: real\n  init: 1.0\n  scale: 1.0\n",
    "x:\n  type: real\n  init: 0.5\n  scale: 0.1\n  min: -1.0\n  max: 1.0\ny:\n  type: int\n  init: 3\n  scale: 2.0\n  min: -10\n  max: 10\nb:\n  type: bool\n  init: false\n",
    "m:\n  type: anon map\n  initSize: 2\n  minSize: 1\n  maxSize: 4\n  valueType:\n    type: real\n    init: 0.0\n    scale: 1.0\nv:\n  type: variant\n  init: a\n  a:\n    type: const\n  b:\n    type: int\n    init: 0\n    scale: 1.0\ne:\n  type: enum\n  values: [p, q, r]\n  init: q\no:\n  type: optional\n  initPresent: true\n  valueType:\n    type: bool\n    init: true\narr:\n  type: array\n  size: 2\n  valueType:\n    type: real\n    init: 0.25\n    scale: 0.5\n    min: 0.0\n",
    // a root that is not a sub: an optional, for which the guess `null` is valid and means "absent"
    "type: optional\ninitPresent: true\nvalueType:\n  type: real\n  init: 1.0\n  scale: 1.0\n",
    // resizable maps whose initial size and maximum differ (hash-table capacities of a freshly built and of a parsed value)
    "m:\n  type: anon map\n  initSize: 3\n  maxSize: 6\n  valueType:\n    type: real\n    init: 0.5\n    scale: 1.0\nn:\n  type: anon map\n  initSize: 7\n  maxSize: 14\n  valueType:\n    type: bool\n    init: false\n",
    // bounds that need all 17 digits, a step scale far above the range (values sit on a bound most of the time),
    // and magnitudes far below 1e-12: any loss of digits on the way to the objective function shows as a value
    // outside its bounds
    "x:\n  type: real\n  init: 0.9876543210987005\n  scale: 10.0\n  min: 0.9876543210987001\n  max: 0.9876543210987654\nrate:\n  type: real\n  init: 0.0000000000005\n  scale: 0.000000000001\n  min: 0.0000000000001\n  max: 0.000000000001\n",
];

pub struct Obs {
    pub sched: Sched,
    pub init_val: usize,
    pub events: Vec<Ev>,
    pub strings: Vec<String>,
    pub n_reeval: usize,
    pub wall_ms: u128,
}

fn classify_err(e: &Error) -> ORes {
    match e {
        Error::NoIndividuals => ORes::Err { kind: 0, tag: 0, text: String::new() },
        Error::ClientHungUp => ORes::Err { kind: 1, tag: 0, text: String::new() },
        Error::ObjFuncValMustBeFinite => ORes::Err { kind: 2, tag: 0, text: String::new() },
        Error::UnableToLaunchObjFuncProcess(ioe) => {
            let s = ioe.to_string();
            match s.strip_prefix("tag:").and_then(|t| t.parse::<u64>().ok()) {
                Some(t) => ORes::Err { kind: 3, tag: t, text: String::new() },
                None => ORes::Err { kind: 4, tag: 0, text: s },
            }
        }
        other => ORes::Err { kind: 4, tag: 0, text: format!("{:?}", other) },
    }
}

struct ValGen {
    mode: ValMode,
    rng: Prng,
    k: u64,
}
impl ValGen {
    fn next(&mut self) -> f64 {
        self.k += 1;
        match self.mode {
            ValMode::Random => (self.rng.unit() - 0.5) * 20.0,
            ValMode::Decreasing => 1000.0 - self.k as f64,
            ValMode::Increasing => self.k as f64,
            ValMode::Ties => *self.rng.pick(&[0.0, 1.0, 1.0, 2.0, 2.0, 2.0, 3.0]),
            ValMode::Huge => (self.rng.unit() - 0.5) * 2.0e300,
            ValMode::SignedZero => *self.rng.pick(&[0.0, -0.0, 0.0, -0.0, 1.0, -1.0]),
            ValMode::Constant => 0.125,
            ValMode::TwoLevels => {
                if self.k <= 101 + (self.rng.0 % 7) { 1.0 } else { 2.0 }
            }
        }
    }
}

#[derive(Clone, Debug)]
pub enum Action {
    Complete(u64, RawOut),
    Terminate,
    CloseCmd,
    CloseRep,
}

pub fn run_schedule(s: &Sched) -> Obs {
    run_schedule_ex(s, None).0
}

/// `replay`: perform exactly these actions (per round) instead of generating them; with `merge`
/// consecutive completion-only rounds are delivered before one poll when the evaluations are
/// already in flight (same completion order, different spacing).
pub fn run_schedule_ex(s: &Sched, replay: Option<(&[Vec<Action>], bool)>) -> (Obs, Vec<Vec<Action>>) {
    let t0 = Instant::now();
    let mut recorded: Vec<Vec<Action>> = Vec::new();
    let mut replay_pos = 0usize;
    let spec = spec_util::from_yaml_str(SPECS[s.spec]).expect("harness spec must parse");
    let guess_json: Option<serde_json::Value> =
        s.guess.as_ref().map(|g| serde_json::from_str(g).unwrap());
    let init_text = match &guess_json {
        Some(g) => match value_util::from_json_value(g, &spec) {
            Ok(v) => v.to_json().to_string(),
            Err(_) => "<rejected guess>".to_string(),
        },
        None => spec.initial_value().to_json().to_string(),
    };
    let inner = Inner {
        log: Vec::new(),
        slots: HashMap::new(),
        order: Vec::new(),
        intern: HashMap::new(),
        strings: Vec::new(),
        honour_seed: s.seed ^ 0xABCD,
        honour_num: s.honour_num,
        hang: false,
    };
    let shared = Shared(Arc::new(Mutex::new(inner)));
    let init_val = shared.0.lock().unwrap().intern(init_text);

    let cfg = AlgoConfigBuilder::new()
        .individual_sample_size(s.ss)
        .num_concurrent(s.nc)
        .build()
        .unwrap();
    let (cmd_tx, cmd_rx) = mpsc::channel::<Command>(16);
    let (rep_tx, rep_rx) = mpsc::channel(256);
    let mut cmd_tx_opt = Some(cmd_tx);
    let mut rep_rx = Some(rep_rx);
    let objfn = HarnessFn { shared: shared.clone() };
    let fut = async_launch::launch(spec, objfn, cfg, cmd_rx, rep_tx, s.budget, s.target, guess_json);
    let mut fut = Box::pin(fut);

    // watchdog
    let poll_started: Arc<Mutex<Option<Instant>>> = Arc::new(Mutex::new(None));
    let done = Arc::new(AtomicBool::new(false));
    let wd = {
        let poll_started = poll_started.clone();
        let done = done.clone();
        let shared = shared.clone();
        let limit = Duration::from_millis(s.watchdog_ms);
        std::thread::spawn(move || {
            let mut fired: Option<Instant> = None;
            while !done.load(Ordering::SeqCst) {
                std::thread::sleep(Duration::from_millis(20));
                let st = *poll_started.lock().unwrap();
                if let Some(t) = st {
                    if fired.is_none() && t.elapsed() > limit {
                        fired = Some(Instant::now());
                        // rescue: end every evaluation still in flight so that the poll can return
                        let mut g = shared.0.lock().unwrap();
                        g.hang = true;
                        g.log.push(Ev::Hang);
                        let mut wakers = Vec::new();
                        for (_, slot) in g.slots.iter_mut() {
                            if !slot.returned {
                                slot.outcome = Some(RawOut::NoneOut);
                                if let Some(w) = slot.waker.take() {
                                    wakers.push(w);
                                }
                            }
                        }
                        drop(g);
                        for w in wakers {
                            w.wake();
                        }
                    }
                    if let Some(f) = fired {
                        if f.elapsed() > Duration::from_secs(20) {
                            eprintln!("HARDHANG");
                            std::process::exit(3);
                        }
                    }
                }
            }
        })
    };

    let flag = Arc::new(WakeFlag(AtomicBool::new(false)));
    let waker = Waker::from(flag.clone());
    let mut vg = ValGen { mode: s.val_mode.clone(), rng: Prng::new(s.seed ^ 0x77), k: 0 };
    let mut rng = Prng::new(s.seed ^ 0x99);
    let mut completions = 0usize;
    let mut finished = false;
    let mut failed_after = false;

    for round in 0..s.max_rounds {
        // --- harness actions before the poll
        let mut actions: Vec<Action> = Vec::new();
        if let Some((rounds, merge)) = replay {
            if replay_pos >= rounds.len() {
                break;
            }
            actions = rounds[replay_pos].clone();
            replay_pos += 1;
            if merge {
                // pull in following completion-only rounds whose evaluations are already in flight
                while replay_pos < rounds.len() && actions.len() < 100 {
                    let only_completes = |r: &Vec<Action>| !r.is_empty() && r.iter().all(|a| matches!(a, Action::Complete(..)));
                    if !only_completes(&actions) || !only_completes(&rounds[replay_pos]) {
                        break;
                    }
                    let g = shared.0.lock().unwrap();
                    let ready = rounds[replay_pos].iter().all(|a| match a {
                        Action::Complete(sd, _) => g.slots.get(sd).map(|sl| !sl.returned && sl.outcome.is_none()).unwrap_or(false),
                        _ => false,
                    });
                    drop(g);
                    if !ready {
                        break;
                    }
                    actions.extend(rounds[replay_pos].iter().cloned());
                    replay_pos += 1;
                }
            }
        } else if round > 0 {
            let live: Vec<u64> = {
                let g = shared.0.lock().unwrap();
                g.order
                    .iter()
                    .copied()
                    .filter(|sd| {
                        let sl = &g.slots[sd];
                        !sl.returned && sl.outcome.is_none()
                    })
                    .collect()
            };
            if !live.is_empty() {
                let mut chosen: Vec<u64> = Vec::new();
                let r = rng.next_u64() % 16;
                let k = if r < s.batch_all_num {
                    live.len()
                } else if r < s.batch_all_num + s.batch_many_num {
                    1 + rng.below(live.len())
                } else {
                    1
                };
                let mut pool = live.clone();
                for _ in 0..k.min(12) {
                    let i = match s.order {
                        0 => 0,
                        1 => pool.len() - 1,
                        _ => rng.below(pool.len()),
                    };
                    chosen.push(pool.remove(i));
                }
                // the order in which they are woken is the order FuturesUnordered will see them
                if s.order == 2 && rng.chance(1, 2) {
                    chosen.reverse();
                }
                let terminated = shared.0.lock().unwrap().log.iter().any(|e| matches!(e, Ev::Terminate));
                for sd in chosen {
                    let out = if s.fail_after_terminate && terminated && !failed_after {
                        failed_after = true;
                        RawOut::Err(900)
                    } else if Some(completions) == s.fail_at {
                        RawOut::Err(100 + completions as u64)
                    } else if Some(completions) == s.fail2_at {
                        RawOut::Err(100 + completions as u64)
                    } else if Some(completions) == s.nonfinite_at {
                        RawOut::Val(*rng.pick(&[f64::NAN, f64::INFINITY, f64::NEG_INFINITY]))
                    } else if rng.next_u64() % 16 < s.reject_num {
                        RawOut::NoneOut
                    } else {
                        RawOut::Val(vg.next())
                    };
                    completions += 1;
                    actions.push(Action::Complete(sd, out));
                }
            }
        }
        if replay.is_none() {
            if Some(round) == s.terminate_at && cmd_tx_opt.is_some() {
                if s.terminate_alone {
                    actions.clear();
                }
                actions.push(Action::Terminate);
            }
            if let (Some(t0), Some(d)) = (s.terminate_at, s.terminate_again) {
                if round == t0 + d && cmd_tx_opt.is_some() {
                    actions.push(Action::Terminate);
                }
            }
            if Some(round) == s.close_cmd_at {
                actions.push(Action::CloseCmd);
            }
            if Some(round) == s.close_rep_at {
                actions.push(Action::CloseRep);
            }
        }
        for a in actions.iter() {
            match a {
                Action::Complete(sd, out) => {
                    let w = {
                        let mut g = shared.0.lock().unwrap();
                        match g.slots.get_mut(sd) {
                            Some(sl) if !sl.returned && sl.outcome.is_none() => {
                                sl.outcome = Some(out.clone());
                                sl.waker.take()
                            }
                            _ => {
                                g.log.push(Ev::ReplayMismatch);
                                None
                            }
                        }
                    };
                    if let Some(w) = w {
                        w.wake();
                    }
                }
                Action::Terminate => {
                    if let Some(tx) = cmd_tx_opt.as_mut() {
                        shared.0.lock().unwrap().log.push(Ev::Terminate);
                        let _ = tx.try_send(Command::Terminate);
                    }
                }
                Action::CloseCmd => {
                    shared.0.lock().unwrap().log.push(Ev::CloseCmd);
                    cmd_tx_opt = None;
                }
                Action::CloseRep => {
                    shared.0.lock().unwrap().log.push(Ev::CloseReports);
                    rep_rx = None;
                }
            }
        }
        recorded.push(actions);

        // --- the poll
        shared.0.lock().unwrap().log.push(Ev::Poll);
        *poll_started.lock().unwrap() = Some(Instant::now());
        let mut res = Poll::Pending;
        for _ in 0..1_000_000 {
            flag.0.store(false, Ordering::SeqCst);
            let mut cx = Context::from_waker(&waker);
            match fut.as_mut().poll(&mut cx) {
                Poll::Ready(r) => {
                    res = Poll::Ready(r);
                    break;
                }
                Poll::Pending => {
                    if !flag.0.load(Ordering::SeqCst) {
                        break;
                    }
                }
            }
        }
        *poll_started.lock().unwrap() = None;

        // --- drain the report channel
        let mut items = Vec::new();
        if let Some(rx) = rep_rx.as_mut() {
            loop {
                match rx.try_next() {
                    Ok(Some(it)) => {
                        let mut g = shared.0.lock().unwrap();
                        let v = g.intern(it.input_val.to_string());
                        let meta = it.meta_params_used.as_ref().map(|m| {
                            let src = match m.source.to_string().as_str() {
                                "Exploratory" => 0u8,
                                "Selected" => 1,
                                "SelectedAndMutated" => 2,
                                "Override" => 3,
                                _ => 9,
                            };
                            (
                                src,
                                m.crossover_params.crossover_prob,
                                m.crossover_params.selection_pressure,
                                m.mutation_params.mutation_prob,
                                m.mutation_params.mutation_scale,
                            )
                        });
                        // the CSV record of this item must read back as the item's fields, bit for bit
                        {
                            let row = it.to_csv_row();
                            let cols: Vec<&str> = row.trim_end_matches('\n').split(';').collect();
                            let num = |s: &str| s.parse::<f64>().ok().map(|x| x.to_bits());
                            let ok = cols.len() == 10
                                && cols[0].parse::<u64>().ok() == Some(it.individual_id as u64)
                                && cols[8].parse::<u64>().ok() == Some(it.seed)
                                && match it.obj_func_val {
                                    Some(x) => num(cols[9]) == Some(x.to_bits()),
                                    None => cols[9].is_empty(),
                                }
                                && serde_json::from_str::<serde_json::Value>(cols[7]).ok().as_ref() == Some(&it.input_val)
                                && match &meta {
                                    Some((_, a, b, c, d)) => {
                                        num(cols[3]) == Some(a.to_bits()) && num(cols[4]) == Some(b.to_bits()) && num(cols[5]) == Some(c.to_bits()) && num(cols[6]) == Some(d.to_bits())
                                    }
                                    None => cols[2].is_empty() && cols[3].is_empty() && cols[4].is_empty() && cols[5].is_empty() && cols[6].is_empty(),
                                };
                            if !ok {
                                g.log.push(Ev::CsvMismatch);
                            }
                        }
                        items.push(OItem {
                            id: it.individual_id as u64,
                            seed: it.seed,
                            val: v,
                            res: it.obj_func_val,
                            meta,
                        });
                    }
                    Ok(None) => break,
                    Err(_) => break,
                }
            }
        }
        let hang = shared.0.lock().unwrap().hang;
        if hang {
            // the log already holds Ev::Hang at the moment the watchdog fired; drop what the rescue produced
            let mut g = shared.0.lock().unwrap();
            if let Some(p) = g.log.iter().position(|e| matches!(e, Ev::Hang)) {
                g.log.truncate(p + 1);
            }
            finished = true;
            break;
        }
        {
            let mut g = shared.0.lock().unwrap();
            if !items.is_empty() {
                g.log.push(Ev::Items(items));
            }
            match &res {
                Poll::Pending => g.log.push(Ev::Pending),
                Poll::Ready(Ok(rep)) => {
                    let v = g.intern(rep.best_seen.value.to_string());
                    g.log.push(Ev::Ready(ORes::Ok {
                        obj: rep.best_seen.obj_func_val,
                        val: v,
                        acc: rep.num_obj_func_eval_completed as u64,
                        rej: rep.num_obj_func_eval_rejected as u64,
                    }));
                }
                Poll::Ready(Err(e)) => {
                    let r = classify_err(e);
                    g.log.push(Ev::Ready(r));
                }
            }
        }
        if res.is_ready() {
            finished = true;
            break;
        }
    }
    let _ = finished;
    done.store(true, Ordering::SeqCst);
    let _ = wd.join();
    drop(fut);

    let g = shared.0.lock().unwrap();
    let mut seen_ids = std::collections::HashSet::new();
    let mut n_reeval = 0;
    for e in g.log.iter() {
        if let Ev::Start { id, .. } = e {
            if !seen_ids.insert(*id) {
                n_reeval += 1;
            }
        }
    }
    (
        Obs {
            sched: s.clone(),
            init_val,
            events: g.log.clone(),
            strings: g.strings.clone(),
            n_reeval,
            wall_ms: t0.elapsed().as_millis(),
        },
        recorded,
    )
}

// ---------------------------------------------------------------------------------------------
// schedule generation

pub fn gen_sched(master: u64, idx: u64, profile: &str) -> Sched {
    let mut r = Prng::new(master.wrapping_mul(1_000_003).wrapping_add(idx));
    let seed = r.next_u64();
    let evict = profile == "evict";
    let long = profile == "long" || (profile != "short" && r.chance(1, 8));
    let nc = if r.chance(1, 4) { 1 } else { 1 + r.below(8) };
    let ss = match profile {
        "evict" => 1,
        "reeval" => 2 + r.below(3),
        _ => {
            if r.chance(2, 3) {
                1
            } else {
                2 + r.below(3)
            }
        }
    };
    let budget = match if evict { 9 } else { r.below(10) } {
        0 => None,
        1 => Some(0),
        2 => Some(r.below(nc + 1)),
        3 | 4 => Some(r.below(3 * nc + 1)),
        _ => Some(if evict { 105 + r.below(200) } else if long || profile == "reeval" { 60 + r.below(200) } else { 1 + r.below(40) }),
    };
    let val_mode = match if evict { 8 + r.below(6) } else { r.below(8) } {
        8 | 9 => ValMode::Constant,
        10 | 11 => ValMode::TwoLevels,
        12 => ValMode::Decreasing,
        13 => ValMode::Ties,
        0 | 1 => ValMode::Random,
        2 => ValMode::Decreasing,
        3 => ValMode::Increasing,
        4 | 5 => ValMode::Ties,
        6 => ValMode::Huge,
        _ => ValMode::SignedZero,
    };
    let target = if r.chance(1, 4) || (profile == "stop" && r.chance(1, 2)) {
        Some(match val_mode {
            ValMode::Random => -8.0 + r.unit(),
            ValMode::Decreasing => 1000.0 - (1 + r.below(60)) as f64,
            ValMode::Increasing => *r.pick(&[0.0, 1.0, 5.0]),
            ValMode::Ties => *r.pick(&[0.0, -0.0, 0.5, 1.0, -1.0]),
            ValMode::Huge => -5.0e299,
            ValMode::SignedZero => *r.pick(&[0.0, -0.0, -1.0, -2.0]),
            ValMode::Constant => *r.pick(&[0.0, 0.125]),
            ValMode::TwoLevels => 0.5,
        })
    } else {
        None
    };
    let est = budget.unwrap_or(if long { 160 } else { 30 });
    let fail_at = if r.chance(1, 5) || profile == "fail" { Some(r.below(est.max(1) + 2)) } else { None };
    let fail2_at = if fail_at.is_some() && r.chance(1, 2) {
        Some(fail_at.unwrap() + 1 + r.below(nc + 1))
    } else {
        None
    };
    let nonfinite_at = if r.chance(1, 10) || (profile == "fail" && r.chance(1, 3)) { Some(r.below(est.max(1) + 2)) } else { None };
    let max_rounds = if budget.is_none() { est + 10 + r.below(40) } else { 4 * est + 50 };
    let terminate_at = if r.chance(1, 4) || budget.is_none() || (profile == "stop" && target.is_none()) || (profile == "stop" && r.chance(1, 2)) {
        Some(r.below(if budget.is_none() { max_rounds - 5 } else { est.max(1) + 3 }))
    } else {
        None
    };
    let twin = profile == "twin";
    // twins: every completion is decided by the harness (no evaluation ends by itself on the abort),
    // and no channel is closed (launch's own select order is random there)
    let honour_num = if twin { 0 } else { *r.pick(&[8, 8, 8, 4, 0, 0]) };
    let close_cmd_at = if !twin && r.chance(1, 30) { Some(r.below(est.max(1) + 2)) } else { None };
    let close_rep_at = if !twin && r.chance(1, 30) { Some(r.below(est.max(1) + 2)) } else { None };
    let spec = r.below(SPECS.len());
    let guess = if spec == 0 && r.chance(1, 3) {
        Some("{\"x\": -2.5}".to_string())
    } else if spec == 3 && r.chance(1, 2) {
        Some((*r.pick(&["null", "null", "2.5"])).to_string())
    } else {
        None
    };
    Sched {
        idx,
        seed,
        nc,
        budget,
        target,
        ss,
        spec,
        guess,
        max_rounds,
        batch_all_num: *r.pick(&[0, 1, 2, 8]),
        batch_many_num: *r.pick(&[0, 2, 4, 8]),
        order: r.below(3) as u8,
        val_mode,
        reject_num: *r.pick(&[0, 0, 2, 4, 12]),
        fail_at,
        fail2_at,
        nonfinite_at,
        terminate_at,
        terminate_again: if (profile == "stop" || profile == "mixed") && terminate_at.is_some() && r.chance(1, 3) { Some(1 + r.below(3)) } else { None },
        honour_num,
        close_cmd_at,
        close_rep_at,
        watchdog_ms: 1500,
        terminate_alone: profile == "twin",
        fail_after_terminate: (profile == "stop" || profile == "fail") && terminate_at.is_some() && r.chance(1, 3),
    }
}

// ---------------------------------------------------------------------------------------------
// printing

fn zbits(x: f64) -> String {
    format!("{}%Z", x.to_bits())
}

fn opt<T, F: Fn(&T) -> String>(o: &Option<T>, f: F) -> String {
    match o {
        Some(x) => format!("(Some {})", f(x)),
        None => "None".to_string(),
    }
}

pub fn ev_to_coq(e: &Ev) -> String {
    match e {
        Ev::Poll => "EPoll".into(),
        Ev::Start { id, seed, val } => format!("EStart {} {} {}", id, seed, val),
        Ev::Returned { seed, out } => format!(
            "EReturned {} {}",
            seed,
            match out {
                RawOut::Val(x) => format!("(RVal {})", zbits(*x)),
                RawOut::NoneOut => "RNone".into(),
                RawOut::Err(t) => format!("(RErrTag {})", t),
            }
        ),
        Ev::Items(l) => format!(
            "EItems [{}]",
            l.iter()
                .map(|it| format!(
                    "mkOItem {} {} {} {} {}",
                    it.id,
                    it.seed,
                    it.val,
                    opt(&it.res, |x| zbits(*x)),
                    opt(&it.meta, |m| format!(
                        "({}, {}, {}, {}, {})",
                        m.0,
                        zbits(m.1),
                        zbits(m.2),
                        zbits(m.3),
                        zbits(m.4)
                    ))
                ))
                .collect::<Vec<_>>()
                .join("; ")
        ),
        Ev::Pending => "EPending".into(),
        Ev::Ready(ORes::Ok { obj, val, acc, rej }) => {
            format!("EReady (OROk {} {} {} {})", zbits(*obj), val, acc, rej)
        }
        Ev::Ready(ORes::Err { kind, tag, .. }) => format!("EReady (ORErr {} {})", kind, tag),
        Ev::Hang => "EHang".into(),
        Ev::Terminate => "ETerminate".into(),
        Ev::CloseCmd => "ECloseCmd".into(),
        Ev::CloseReports => "ECloseReports".into(),
        Ev::ReplayMismatch => "EReplayMismatch".into(),
        Ev::CsvMismatch => "ECsvMismatch".into(),
    }
}

pub fn obs_to_coq(o: &Obs, name: &str) -> String {
    let s = &o.sched;
    format!(
        "Definition {} : run_obs := mkRunObs {} {} {} {} {} {} [\n  {}].\n",
        name,
        s.idx,
        s.nc,
        opt(&s.budget, |b| b.to_string()),
        opt(&s.target, |t| zbits(*t)),
        s.ss,
        o.init_val,
        o.events.iter().map(ev_to_coq).collect::<Vec<_>>().join(";\n  ")
    )
}

pub fn obs_to_json(o: &Obs) -> serde_json::Value {
    let s = &o.sched;
    serde_json::json!({
        "stream": "run",
        "idx": s.idx,
        "sched": format!("{:?}", s),
        "nc": s.nc, "budget": s.budget, "target": s.target, "ss": s.ss,
        "init_val": o.init_val,
        "n_events": o.events.len(),
        "n_reeval": o.n_reeval,
        "events": o.events.iter().map(ev_to_coq).collect::<Vec<_>>(),
        "values": o.strings,
    })
}
