mod algostream;
mod benchstream;
mod guessstream;
mod inprocstream;
mod metastream;
mod opsstream;
mod prng;
mod runstream;
mod specstream;

use std::fs;
use std::io::Write;

fn arg<'a>(args: &'a [String], name: &str) -> Option<&'a str> {
    args.iter()
        .position(|a| a == name)
        .and_then(|i| args.get(i + 1))
        .map(|s| s.as_str())
}

fn main() {
    let args: Vec<String> = std::env::args().collect();
    let cmd = args.get(1).map(|s| s.as_str()).unwrap_or("");
    match cmd {
        "run" => {
            let master: u64 = arg(&args, "--master").unwrap_or("0").parse().unwrap();
            let from: u64 = arg(&args, "--from").unwrap_or("0").parse().unwrap();
            let count: u64 = arg(&args, "--count").unwrap_or("10").parse().unwrap();
            let shards: u64 = arg(&args, "--shards").unwrap_or("1").parse().unwrap();
            let profile = arg(&args, "--profile").unwrap_or("mixed").to_string();
            let with_values = args.iter().any(|a| a == "--values");
            let out = arg(&args, "--out-dir").unwrap_or(".").to_string();
            fs::create_dir_all(&out).unwrap();
            let mut vfiles = Vec::new();
            let mut jsons: Vec<Vec<serde_json::Value>> = Vec::new();
            for sh in 0..shards {
                let mut f = fs::File::create(format!("{}/run_{}.v", out, sh)).unwrap();
                writeln!(f, "From Coq Require Import List NArith ZArith String.\nFrom Cambrian Require Import Syntax Codec Check.OpsCheck Check.RunCheck Check.ValsCheck.\nImport ListNotations.\nLocal Open Scope N_scope.\nSet Printing Width 100000.\nSet Printing Depth 100000.").unwrap();
                vfiles.push(f);
                jsons.push(Vec::new());
            }
            let mut hang_confirmed = false;
            let mut hang_rechecks = 0u32;
            for k in 0..count {
                let idx = from + k;
                let s = runstream::gen_sched(master, idx, &profile);
                let (mut o, mut actions) = runstream::run_schedule_ex(&s, None);
                if !hang_confirmed && hang_rechecks < 8 && o.events.iter().any(|e| matches!(e, runstream::Ev::Hang)) {
                    hang_rechecks += 1;
                    // a poll exceeded the watchdog: confirm with a much longer limit before believing it
                    // (a loaded machine can stall a poll; a real spin never returns)
                    let mut s2 = s.clone();
                    s2.watchdog_ms = 12_000;
                    let (o2, a2) = runstream::run_schedule_ex(&s2, None);
                    if !o2.events.iter().any(|e| matches!(e, runstream::Ev::Hang)) {
                        o = o2;
                        actions = a2;
                    } else {
                        hang_confirmed = true; // reproduced: later hangs are believed without a second run
                    }
                }
                let sh = (k % shards) as usize;
                let name = format!("o{}", idx);
                write!(vfiles[sh], "{}", runstream::obs_to_coq(&o, &name)).unwrap();
                writeln!(vfiles[sh], "Eval vm_compute in (judge_run {}).", name).unwrap();
                let mut js = runstream::obs_to_json(&o);
                if with_values {
                    let sp = cambrian::spec_util::from_yaml_str(runstream::SPECS[s.spec]).unwrap();
                    let vals: Vec<String> = o
                        .strings
                        .iter()
                        .map(|t| match serde_json::from_str::<serde_json::Value>(t) {
                            Ok(j) => guessstream::json_to_coq(&j),
                            Err(_) => "JNull".to_string(),
                        })
                        .collect();
                    writeln!(vfiles[sh], "Eval vm_compute in (judge_vals {} {} [{}]).", idx, opsstream::spec_to_coq(&sp.0), vals.join("; ")).unwrap();
                }
                if profile == "twin" {
                    // same actions again (same process), and the same completion order with different spacing
                    let (o2, _) = runstream::run_schedule_ex(&s, Some((&actions, false)));
                    let (o3, _) = runstream::run_schedule_ex(&s, Some((&actions, true)));
                    write!(vfiles[sh], "{}", runstream::obs_to_coq(&o2, &format!("o{}b", idx))).unwrap();
                    write!(vfiles[sh], "{}", runstream::obs_to_coq(&o3, &format!("o{}c", idx))).unwrap();
                    writeln!(vfiles[sh], "Eval vm_compute in (judge_twin {} {}b {}c).", name, name, name).unwrap();
                    js["twin_events_same_spacing"] = serde_json::json!(o2.events.iter().map(runstream::ev_to_coq).collect::<Vec<_>>());
                    js["twin_events_merged"] = serde_json::json!(o3.events.iter().map(runstream::ev_to_coq).collect::<Vec<_>>());
                    js["twin_values"] = serde_json::json!([o2.strings, o3.strings]);
                    // the spec's own initial value supplied as the guess: the same run as with no guess
                    if s.guess.is_none() {
                        let sp = cambrian::spec_util::from_yaml_str(runstream::SPECS[s.spec]).unwrap();
                        let mut s4 = s.clone();
                        s4.guess = Some(serde_json::to_string(&sp.initial_value().to_json()).unwrap());
                        let (o4, _) = runstream::run_schedule_ex(&s4, Some((&actions, false)));
                        write!(vfiles[sh], "{}", runstream::obs_to_coq(&o4, &format!("o{}d", idx))).unwrap();
                        writeln!(vfiles[sh], "Eval vm_compute in (judge_guess_twin {} {}d).", name, name).unwrap();
                        js["guess_twin"] = serde_json::json!({"guess": s4.guess, "events": o4.events.iter().map(runstream::ev_to_coq).collect::<Vec<_>>(), "values": o4.strings});
                    }
                }
                jsons[sh].push(js);
            }
            for sh in 0..shards as usize {
                fs::write(
                    format!("{}/run_{}.json", out, sh),
                    serde_json::to_string(&jsons[sh]).unwrap(),
                )
                .unwrap();
            }
        }
        "ops" => {
            let master: u64 = arg(&args, "--master").unwrap_or("0").parse().unwrap();
            let from: u64 = arg(&args, "--from").unwrap_or("0").parse().unwrap();
            let count: u64 = arg(&args, "--count").unwrap_or("10").parse().unwrap();
            let shards: u64 = arg(&args, "--shards").unwrap_or("1").parse().unwrap();
            let profile = arg(&args, "--profile").unwrap_or("mixed").to_string();
            let out = arg(&args, "--out-dir").unwrap_or(".").to_string();
            fs::create_dir_all(&out).unwrap();
            std::panic::set_hook(Box::new(|_| {}));
            let mut vfiles = Vec::new();
            let mut jsons: Vec<Vec<serde_json::Value>> = Vec::new();
            for sh in 0..shards {
                let mut f = fs::File::create(format!("{}/ops_{}.v", out, sh)).unwrap();
                writeln!(f, "From Coq Require Import String.\nFrom Coq Require Import List NArith ZArith.\nFrom Cambrian Require Import Syntax Check.OpsCheck.\nImport ListNotations.\nSet Printing Width 100000.\nSet Printing Depth 100000.").unwrap();
                vfiles.push(f);
                jsons.push(Vec::new());
            }
            for k in 0..count {
                let idx = from + k;
                let c = opsstream::run_case(master, idx, &profile);
                let sh = (k % shards) as usize;
                write!(vfiles[sh], "{}", c.coq).unwrap();
                writeln!(vfiles[sh], "Eval vm_compute in (judge_ops p{}).", idx).unwrap();
                jsons[sh].push(serde_json::json!({"stream": "ops", "idx": idx, "yaml": c.yaml, "n_mut": c.n_mut, "n_cross": c.n_cross,
                    "kinds": c.kinds, "panicked": c.panicked, "coq": c.coq}));
            }
            for sh in 0..shards as usize {
                fs::write(format!("{}/ops_{}.json", out, sh), serde_json::to_string(&jsons[sh]).unwrap()).unwrap();
            }
        }
        "spec" => {
            let master: u64 = arg(&args, "--master").unwrap_or("0").parse().unwrap();
            let from: u64 = arg(&args, "--from").unwrap_or("0").parse().unwrap();
            let count: u64 = arg(&args, "--count").unwrap_or("10").parse().unwrap();
            let shards: u64 = arg(&args, "--shards").unwrap_or("1").parse().unwrap();
            let profile = arg(&args, "--profile").unwrap_or("mixed").to_string();
            let out = arg(&args, "--out-dir").unwrap_or(".").to_string();
            fs::create_dir_all(&out).unwrap();
            std::panic::set_hook(Box::new(|_| {}));
            let mut vfiles = Vec::new();
            let mut jsons: Vec<Vec<serde_json::Value>> = Vec::new();
            for sh in 0..shards {
                let mut f = fs::File::create(format!("{}/spec_{}.v", out, sh)).unwrap();
                writeln!(f, "From Coq Require Import String.\nFrom Coq Require Import List NArith ZArith.\nFrom Cambrian Require Import Syntax SpecBuild Check.OpsCheck Check.SpecCheck.\nImport ListNotations.\nSet Printing Width 100000.\nSet Printing Depth 100000.").unwrap();
                vfiles.push(f);
                jsons.push(Vec::new());
            }
            for k in 0..count {
                let idx = from + k;
                let c = specstream::run_case(master, idx, &profile);
                let sh = (k % shards) as usize;
                if let Some(coq) = &c.coq {
                    write!(vfiles[sh], "{}", coq).unwrap();
                    writeln!(vfiles[sh], "Eval vm_compute in (judge_spec y{}).", idx).unwrap();
                }
                jsons[sh].push(c.json);
            }
            for sh in 0..shards as usize {
                fs::write(format!("{}/spec_{}.json", out, sh), serde_json::to_string(&jsons[sh]).unwrap()).unwrap();
            }
        }
        "guess" => {
            let master: u64 = arg(&args, "--master").unwrap_or("0").parse().unwrap();
            let from: u64 = arg(&args, "--from").unwrap_or("0").parse().unwrap();
            let count: u64 = arg(&args, "--count").unwrap_or("10").parse().unwrap();
            let shards: u64 = arg(&args, "--shards").unwrap_or("1").parse().unwrap();
            let profile = arg(&args, "--profile").unwrap_or("mixed").to_string();
            let out = arg(&args, "--out-dir").unwrap_or(".").to_string();
            fs::create_dir_all(&out).unwrap();
            std::panic::set_hook(Box::new(|_| {}));
            let mut vfiles = Vec::new();
            let mut jsons: Vec<Vec<serde_json::Value>> = Vec::new();
            for sh in 0..shards {
                let mut f = fs::File::create(format!("{}/guess_{}.v", out, sh)).unwrap();
                writeln!(f, "From Coq Require Import String.\nFrom Coq Require Import List NArith ZArith.\nFrom Cambrian Require Import Syntax Codec Check.OpsCheck Check.GuessCheck.\nImport ListNotations.\nSet Printing Width 100000.\nSet Printing Depth 100000.").unwrap();
                vfiles.push(f);
                jsons.push(Vec::new());
            }
            for k in 0..count {
                let idx = from + k;
                let c = guessstream::run_case(master, idx, &profile);
                let sh = (k % shards) as usize;
                write!(vfiles[sh], "{}", c.coq).unwrap();
                writeln!(vfiles[sh], "Eval vm_compute in (judge_guess g{}).", idx).unwrap();
                jsons[sh].push(c.json);
            }
            for sh in 0..shards as usize {
                fs::write(format!("{}/guess_{}.json", out, sh), serde_json::to_string(&jsons[sh]).unwrap()).unwrap();
            }
        }
        "algo" => {
            let master: u64 = arg(&args, "--master").unwrap_or("0").parse().unwrap();
            let from: u64 = arg(&args, "--from").unwrap_or("0").parse().unwrap();
            let count: u64 = arg(&args, "--count").unwrap_or("10").parse().unwrap();
            let shards: u64 = arg(&args, "--shards").unwrap_or("1").parse().unwrap();
            let profile = arg(&args, "--profile").unwrap_or("mixed").to_string();
            let out = arg(&args, "--out-dir").unwrap_or(".").to_string();
            fs::create_dir_all(&out).unwrap();
            let mut vfiles = Vec::new();
            let mut jsons: Vec<Vec<serde_json::Value>> = Vec::new();
            for sh in 0..shards {
                let mut f = fs::File::create(format!("{}/algo_{}.v", out, sh)).unwrap();
                writeln!(f, "From Coq Require Import String.\nFrom Coq Require Import List NArith ZArith.\nFrom Cambrian Require Import Check.AlgoCheck.\nImport ListNotations.\nSet Printing Width 100000.\nSet Printing Depth 100000.").unwrap();
                vfiles.push(f);
                jsons.push(Vec::new());
            }
            for k in 0..count {
                let idx = from + k;
                let c = algostream::run_case(master, idx, &profile);
                let sh = (k % shards) as usize;
                write!(vfiles[sh], "{}", c.coq).unwrap();
                writeln!(vfiles[sh], "Eval vm_compute in (judge_algo a{}).", idx).unwrap();
                jsons[sh].push(c.json);
            }
            for sh in 0..shards as usize {
                fs::write(format!("{}/algo_{}.json", out, sh), serde_json::to_string(&jsons[sh]).unwrap()).unwrap();
            }
        }
        "meta" => {
            let master: u64 = arg(&args, "--master").unwrap_or("0").parse().unwrap();
            let from: u64 = arg(&args, "--from").unwrap_or("0").parse().unwrap();
            let count: u64 = arg(&args, "--count").unwrap_or("10").parse().unwrap();
            let shards: u64 = arg(&args, "--shards").unwrap_or("1").parse().unwrap();
            let profile = arg(&args, "--profile").unwrap_or("mixed").to_string();
            let out = arg(&args, "--out-dir").unwrap_or(".").to_string();
            fs::create_dir_all(&out).unwrap();
            let mut vfiles = Vec::new();
            let mut jsons: Vec<Vec<serde_json::Value>> = Vec::new();
            for sh in 0..shards {
                let mut f = fs::File::create(format!("{}/meta_{}.v", out, sh)).unwrap();
                writeln!(f, "From Coq Require Import String.\nFrom Coq Require Import List NArith ZArith.\nFrom Cambrian Require Import Termination Check.MetaCheck.\nImport ListNotations.\nSet Printing Width 100000.\nSet Printing Depth 100000.").unwrap();
                vfiles.push(f);
                jsons.push(Vec::new());
            }
            for k in 0..count {
                let idx = from + k;
                let c = if profile == "inprocfail" {
                    let b = inprocstream::run_fail_case(master, idx);
                    metastream::MetaCase { coq: b.coq, json: b.json }
                } else if profile == "inproc" {
                    let b = inprocstream::run_case(master, idx);
                    metastream::MetaCase { coq: b.coq, json: b.json }
                } else if profile == "bench" {
                    let b = benchstream::run_case(master, idx);
                    metastream::MetaCase { coq: b.coq, json: b.json }
                } else {
                    metastream::run_case(master, idx, &profile)
                };
                let sh = (k % shards) as usize;
                write!(vfiles[sh], "{}", c.coq).unwrap();
                writeln!(vfiles[sh], "Eval vm_compute in (judge_meta m{}).", idx).unwrap();
                jsons[sh].push(c.json);
            }
            for sh in 0..shards as usize {
                fs::write(format!("{}/meta_{}.json", out, sh), serde_json::to_string(&jsons[sh]).unwrap()).unwrap();
            }
        }
        _ => {
            eprintln!("usage: cv-harness run --master S --from A --count K --shards N --profile P --out-dir D");
            std::process::exit(2);
        }
    }
}
