//! One small deterministic PRNG (SplitMix64) from which every random choice of
//! the harness is derived, so that a (stream, seed, index) triple replays exactly.

#[derive(Clone, Debug)]
pub struct Prng(pub u64);

impl Prng {
    pub fn new(seed: u64) -> Self {
        Prng(seed.wrapping_mul(0x9E3779B97F4A7C15).wrapping_add(0x1234_5678_9ABC_DEF1))
    }
    pub fn fork(&mut self, tag: u64) -> Prng {
        let a = self.next_u64();
        Prng::new(a ^ tag.wrapping_mul(0xD1B54A32D192ED03))
    }
    pub fn next_u64(&mut self) -> u64 {
        self.0 = self.0.wrapping_add(0x9E3779B97F4A7C15);
        let mut z = self.0;
        z = (z ^ (z >> 30)).wrapping_mul(0xBF58476D1CE4E5B9);
        z = (z ^ (z >> 27)).wrapping_mul(0x94D049BB133111EB);
        z ^ (z >> 31)
    }
    /// uniform in 0..n (n > 0)
    pub fn below(&mut self, n: usize) -> usize {
        (self.next_u64() % (n as u64)) as usize
    }
    pub fn range(&mut self, lo: i64, hi_incl: i64) -> i64 {
        lo + (self.next_u64() % ((hi_incl - lo + 1) as u64)) as i64
    }
    pub fn chance(&mut self, num: u64, den: u64) -> bool {
        self.next_u64() % den < num
    }
    pub fn unit(&mut self) -> f64 {
        (self.next_u64() >> 11) as f64 / (1u64 << 53) as f64
    }
    pub fn pick<'a, T>(&mut self, xs: &'a [T]) -> &'a T {
        &xs[self.below(xs.len())]
    }
}
