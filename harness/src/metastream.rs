//! Meta stream: direct calls of `meta_adapt::mutate` / `create_exploratory` and sampled
//! frequencies of `SelectionImpl::select_value`, reached through the re-exports that /repo
//! compiles under `--cfg cambrian_verif`.  The harness only records inputs and outputs (as
//! `to_bits()` integers / counts); judging is done by Check/MetaCheck.v.
use crate::prng::Prng;
use cambrian::meta::{CrossoverParams, MutationParams};
use cambrian::verif_hooks::{create_exploratory, meta_mutate, Selection, SelectionImpl};
use rand::rngs::StdRng;
use rand::SeedableRng;

pub struct MetaCase {
    pub coq: String,
    pub json: serde_json::Value,
}

fn gen_prob(r: &mut Prng) -> f64 {
    match r.below(9) {
        0 => 0.0,
        1 => 1.0,
        2 => 0.5,
        3 => 1e-300,
        4 => 5e-324,
        5 => 10f64.powi(-(r.below(30) as i32)),
        6 => 1.0 - 1e-16,
        _ => r.unit(),
    }
}

fn gen_scale(r: &mut Prng) -> f64 {
    match r.below(8) {
        0 => 1.0,
        1 => 1e-300,
        2 => 1e300,
        3 => 10f64.powi(r.below(200) as i32),
        4 => 10f64.powi(-(r.below(200) as i32)),
        5 => 4.9e-324,
        _ => r.unit() * 10.0 + 1e-9,
    }
}

fn quad(c: &CrossoverParams, m: &MutationParams) -> [u64; 4] {
    [c.crossover_prob.to_bits(), c.selection_pressure.to_bits(), m.mutation_prob.to_bits(), m.mutation_scale.to_bits()]
}

fn quad_coq(q: &[u64; 4]) -> String {
    format!("({}, {}, {}, {})%Z", q[0], q[1], q[2], q[3])
}

/// termination criteria lists through `termination::verif_compile`
fn term_case(r: &mut Prng, idx: u64) -> MetaCase {
    use cambrian::termination::{verif_compile, TerminationCriterion as TC};
    use std::time::Duration;
    let n = r.below(6);
    let mut crits: Vec<TC> = Vec::new();
    let mut coq: Vec<String> = Vec::new();
    for _ in 0..n {
        let kinds = if r.chance(1, 3) { 2 } else { 4 };
        match r.below(kinds) {
            0 => {
                let k = *r.pick(&[0usize, 1, 5, 1000]);
                crits.push(TC::NumObjFuncEval(k));
                coq.push(format!("KNum {}%N", k));
            }
            1 => {
                let ms = *r.pick(&[0u64, 700, 3_600_000]);
                crits.push(TC::TerminateAfter(Duration::from_millis(ms)));
                coq.push(format!("KAfter {}%N", ms));
            }
            2 => {
                let t = *r.pick(&[0.0f64, -1.5, 1e300]);
                crits.push(TC::TargetObjFuncVal(t));
                coq.push(format!("KTarget {}%Z", t.to_bits()));
            }
            _ => {
                crits.push(TC::Signal);
                coq.push("KSignal".to_string());
            }
        }
    }
    let res = verif_compile(crits);
    let res_coq = match &res {
        Ok((a, b, c, d)) => format!(
            "(Some (mkComp {} {} {} {}))",
            a.map(|x| format!("(Some {}%N)", x)).unwrap_or("None".into()),
            b.map(|x| format!("(Some {}%Z)", x.to_bits())).unwrap_or("None".into()),
            c.map(|x| format!("(Some {}%N)", x.as_millis())).unwrap_or("None".into()),
            if *d { "true" } else { "false" }
        ),
        Err(_) => "None".to_string(),
    };
    MetaCase {
        coq: format!("Definition m{} : meta_obs := MTerm {} [{}] {}.\n", idx, idx, coq.join("; "), res_coq),
        json: serde_json::json!({"stream": "meta", "idx": idx, "kind": "termination", "criteria": coq, "result": format!("{:?}", res.map_err(|e| e.to_string()))}),
    }
}

pub fn run_case(master: u64, idx: u64, profile: &str) -> MetaCase {
    let mut r = Prng::new(master ^ idx.wrapping_mul(0xA24BAED4963EE407)).fork(0x3E7A);
    if profile == "term" {
        return term_case(&mut r, idx);
    }
    if r.chance(2, 3) {
        // meta_adapt: many RNG states for one input; keep the first result and the extremes
        let expl = r.chance(1, 4);
        let (cp, mp) = if expl {
            (CrossoverParams { crossover_prob: 0.5, selection_pressure: 0.5 }, MutationParams { mutation_prob: 0.5, mutation_scale: 1.0 })
        } else {
            (
                CrossoverParams { crossover_prob: gen_prob(&mut r), selection_pressure: gen_prob(&mut r) },
                MutationParams { mutation_prob: gen_prob(&mut r), mutation_scale: gen_scale(&mut r) },
            )
        };
        let inp = quad(&cp, &mp);
        let calls = 384usize;
        let base_seed = r.next_u64();
        let mut rng = StdRng::seed_from_u64(base_seed);
        let mut outs: Vec<[f64; 4]> = Vec::with_capacity(calls);
        for _ in 0..calls {
            let (c, m) = if expl { create_exploratory(&mut rng) } else { meta_mutate(cp.clone(), mp.clone(), &mut rng) };
            outs.push([c.crossover_prob, c.selection_pressure, m.mutation_prob, m.mutation_scale]);
        }
        // search heuristic: per component the smallest and the largest result, anything not finite
        let mut keep: Vec<usize> = vec![0];
        for comp in 0..4 {
            let mut lo = 0usize;
            let mut hi = 0usize;
            for (i, o) in outs.iter().enumerate() {
                if o[comp].total_cmp(&outs[lo][comp]).is_lt() {
                    lo = i;
                }
                if o[comp].total_cmp(&outs[hi][comp]).is_gt() {
                    hi = i;
                }
            }
            keep.push(lo);
            keep.push(hi);
        }
        for (i, o) in outs.iter().enumerate() {
            if o.iter().any(|x| !x.is_finite()) && keep.len() < 16 {
                keep.push(i);
            }
        }
        keep.sort();
        keep.dedup();
        let kept: Vec<[u64; 4]> = keep.iter().map(|&i| [outs[i][0].to_bits(), outs[i][1].to_bits(), outs[i][2].to_bits(), outs[i][3].to_bits()]).collect();
        let coq = format!(
            "Definition m{} : meta_obs := MMut {} {} {} [{}].\n",
            idx,
            idx,
            if expl { "true" } else { "false" },
            quad_coq(&inp),
            kept.iter().map(quad_coq).collect::<Vec<_>>().join("; ")
        );
        let json = serde_json::json!({"stream": "meta", "idx": idx, "kind": if expl {"exploratory"} else {"mutate"},
            "input": [cp.crossover_prob, cp.selection_pressure, mp.mutation_prob, mp.mutation_scale],
            "input_bits": inp, "rng_seed": base_seed, "calls": calls,
            "kept": keep.iter().map(|&i| serde_json::json!({"call": i, "out": outs[i].iter().map(|x| format!("{:e}", x)).collect::<Vec<_>>()})).collect::<Vec<_>>()});
        MetaCase { coq, json }
    } else {
        // selection frequencies
        let n = 1 + r.below(10);
        let p = match r.below(8) {
            0 => 0.0,
            1 => 1.0,
            2 => 0.5,
            3 => 0.9,
            4 => 1e-3,
            _ => r.unit(),
        };
        let k = 6000usize;
        let seed = r.next_u64();
        let mut rng = StdRng::seed_from_u64(seed);
        let items: Vec<usize> = (0..n).collect();
        let sel = SelectionImpl::new();
        let mut counts = vec![0u64; n];
        for _ in 0..k {
            let x = sel.select_value(&items, p, &mut rng);
            counts[x] += 1;
        }
        let coq = format!(
            "Definition m{} : meta_obs := MSel {} {}%Z {} [{}].\n",
            idx,
            idx,
            p.to_bits(),
            n,
            counts.iter().map(|c| format!("{}%N", c)).collect::<Vec<_>>().join("; ")
        );
        let json = serde_json::json!({"stream": "meta", "idx": idx, "kind": "selection", "n": n, "pressure": p, "pressure_bits": p.to_bits(),
            "samples": k, "rng_seed": seed, "counts": counts});
        MetaCase { coq, json }
    }
}
