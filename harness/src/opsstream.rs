//! Ops stream: direct calls of `mutation::mutate` and `Crossover::crossover` on generated specs,
//! with one `PathContext` per case (a history of key allocations), printed as Coq terms.

use crate::prng::Prng;
use cambrian::crossover::Crossover;
use cambrian::meta::{CrossoverParams, MutationParams};
use cambrian::mutation;
use cambrian::spec::{self, Spec};
use cambrian::spec_util;
use cambrian::value::{self, Value};
use rand::rngs::StdRng;
use rand::SeedableRng;

// ------------------------------------------------------------------ spec generation (as YAML text)

thread_local! { static BIG: std::cell::Cell<bool> = std::cell::Cell::new(false); }

const NAMES: &[&str] = &["a", "b", "c", "k1", "k2", "x", "y", "opt", "0", "1", "init", "optional"];

fn num(r: &mut Prng) -> f64 {
    match r.below(10) {
        0 => 0.0,
        1 => 1.0,
        2 => -1.0,
        3 => (r.unit() - 0.5) * 2e100,
        4 => (r.unit() - 0.5) * 1e-6,
        _ => (r.unit() - 0.5) * 20.0,
    }
}

fn yf(x: f64) -> String {
    // a YAML float that serde_yaml reads back exactly
    let s = format!("{:e}", x);
    if s.contains('.') || s.contains("inf") || s.contains("NaN") {
        s
    } else {
        // "1e0" -> "1.0e0"
        match s.find('e') {
            Some(i) => format!("{}.0{}", &s[..i], &s[i..]),
            None => format!("{}.0", s),
        }
    }
}

pub fn gen_spec_yaml(r: &mut Prng, depth: usize, indent: usize, out: &mut String) {
    let pad = " ".repeat(indent);
    let kinds: &[u8] = if depth == 0 { &[0, 1, 2, 7, 9, 0, 1, 2] } else { &[0, 1, 2, 3, 4, 5, 6, 7, 8, 9, 3, 5, 5, 6, 8] };
    match *r.pick(kinds) {
        0 => {
            // real
            let (mut lo, mut hi) = (num(r), num(r));
            if lo > hi {
                std::mem::swap(&mut lo, &mut hi);
            }
            if lo == hi {
                hi = lo + 1.0;
            }
            let form = r.below(4);
            let init = match form {
                0 => num(r),
                1 => lo + (hi - lo) * r.unit(),
                2 => {
                    if r.chance(1, 3) {
                        lo
                    } else {
                        lo + (hi - lo) * r.unit()
                    }
                }
                _ => {
                    if r.chance(1, 3) {
                        hi
                    } else {
                        lo + (hi - lo) * r.unit()
                    }
                }
            };
            let init = if form == 1 { init.max(lo).min(hi) } else if form == 2 { init.max(lo) } else if form == 3 { init.min(hi) } else { init };
            out.push_str(&format!("{}type: real\n{}init: {}\n{}scale: {}\n", pad, pad, yf(init), pad, yf(*r.pick(&[1.0, 0.1, 10.0, 1e-3, 1e50]))));
            if form == 1 || form == 2 {
                out.push_str(&format!("{}min: {}\n", pad, yf(lo)));
            }
            if form == 1 || form == 3 {
                out.push_str(&format!("{}max: {}\n", pad, yf(hi)));
            }
        }
        1 => {
            let big = r.chance(1, 4);
            let lo = if big { *r.pick(&[-9007199254740993i64, 0, -999999999999999999, i64::MIN + 1, 9007199254740000]) } else { r.range(-20, 20) };
            let hi = if big { *r.pick(&[9007199254740993i64, 999999999999999999, i64::MAX, 9007199254740995]) } else { lo + 1 + r.range(0, 30) };
            let form = r.below(4);
            let init = match form {
                0 => if big { *r.pick(&[9007199254740993i64, -9007199254740993, i64::MAX, i64::MIN, 1234567890123456789]) } else { r.range(-1000, 1000) },
                _ => if big { *r.pick(&[lo, hi, hi - 1, lo + 1, lo / 2 + hi / 2]) } else { r.range(lo, hi) },
            };
            out.push_str(&format!("{}type: int\n{}init: {}\n{}scale: {}\n", pad, pad, init, pad, yf(*r.pick(&[1.0, 2.5, 100.0, 0.3]))));
            if form == 1 || form == 2 {
                out.push_str(&format!("{}min: {}\n", pad, lo));
            }
            if form == 1 || form == 3 {
                out.push_str(&format!("{}max: {}\n", pad, hi));
            }
        }
        2 => out.push_str(&format!("{}type: bool\n{}init: {}\n", pad, pad, r.chance(1, 2))),
        3 => {
            // sub
            out.push_str(&format!("{}type: sub\n", pad));
            let n = 1 + r.below(3);
            let mut used = Vec::new();
            for _ in 0..n {
                let k = *r.pick(NAMES);
                if used.contains(&k) || k == "init" {
                    continue;
                }
                used.push(k);
                out.push_str(&format!("{}\"{}\":\n", pad, k));
                gen_spec_yaml(r, depth - 1, indent + 2, out);
            }
            if used.is_empty() {
                out.push_str(&format!("{}zz:\n", pad));
                gen_spec_yaml(r, 0, indent + 2, out);
            }
        }
        4 => {
            let size = if BIG.with(|b| b.get()) && r.chance(1, 2) { 120 + r.below(200) } else { 2 + r.below(3) };
            out.push_str(&format!("{}type: array\n{}size: {}\n{}valueType:\n", pad, pad, size, pad));
            gen_spec_yaml(r, depth - 1, indent + 2, out);
        }
        5 => {
            // anon map
            let form = r.below(8);
            let (mn, mx, init): (Option<usize>, Option<usize>, usize) = match form {
                // larger maps (hash-map iteration order is not key order from 5 entries on)
                6 => (None, None, 5 + r.below(4)),
                7 => (Some(2), Some(12), 6 + r.below(3)),
                0 => (None, None, r.below(4)),
                1 => {
                    let a = r.below(3);
                    (Some(a), None, a + r.below(3))
                }
                2 => {
                    let b = 1 + r.below(4);
                    (None, Some(b), r.below(b + 1))
                }
                3 => {
                    let a = r.below(3);
                    let b = a + 1 + r.below(3);
                    (Some(a), Some(b), a + r.below(b - a + 1))
                }
                4 => {
                    let a = 1 + r.below(2);
                    (Some(a), Some(a + 1), a)
                }
                _ => (Some(0), Some(1), r.below(2)),
            };
            out.push_str(&format!("{}type: anon map\n{}initSize: {}\n", pad, pad, init));
            if let Some(a) = mn {
                out.push_str(&format!("{}minSize: {}\n", pad, a));
            }
            if let Some(b) = mx {
                out.push_str(&format!("{}maxSize: {}\n", pad, b));
            }
            out.push_str(&format!("{}valueType:\n", pad));
            gen_spec_yaml(r, depth - 1, indent + 2, out);
        }
        6 => {
            out.push_str(&format!("{}type: variant\n", pad));
            let n = 2 + r.below(2);
            let mut used: Vec<&str> = Vec::new();
            while used.len() < n {
                let k = *r.pick(NAMES);
                if used.contains(&k) || k == "init" {
                    continue;
                }
                used.push(k);
            }
            out.push_str(&format!("{}init: \"{}\"\n", pad, used[r.below(n)]));
            // sometimes all options have the same spec (the options then differ in name only)
            let same = r.chance(1, 3);
            let mut first = String::new();
            for (i, k) in used.iter().enumerate() {
                out.push_str(&format!("{}\"{}\":\n", pad, k));
                if same && i > 0 {
                    out.push_str(&first);
                } else {
                    let mut sub = String::new();
                    gen_spec_yaml(r, depth - 1, indent + 2, &mut sub);
                    if i == 0 {
                        first = sub.clone();
                    }
                    out.push_str(&sub);
                }
            }
        }
        7 => {
            let n = 2 + r.below(3);
            let mut used: Vec<&str> = Vec::new();
            while used.len() < n {
                let k = *r.pick(NAMES);
                if !used.contains(&k) {
                    used.push(k);
                }
            }
            out.push_str(&format!(
                "{}type: enum\n{}values: [{}]\n{}init: \"{}\"\n",
                pad,
                pad,
                used.iter().map(|s| format!("\"{}\"", s)).collect::<Vec<_>>().join(", "),
                pad,
                used[r.below(n)]
            ));
        }
        8 => {
            out.push_str(&format!("{}type: optional\n{}initPresent: {}\n{}valueType:\n", pad, pad, r.chance(1, 2), pad));
            gen_spec_yaml(r, depth - 1, indent + 2, out);
        }
        _ => out.push_str(&format!("{}type: const\n", pad)),
    }
}

// ------------------------------------------------------------------ Coq printers

pub fn cstr(s: &str) -> String {
    // Coq string literal; all harness names are printable ASCII without quotes
    if s.bytes().all(|b| (32..127).contains(&b) && b != b'"') {
        format!("\"{}\"%string", s)
    } else {
        format!("(bs [{}])", s.bytes().map(|b| b.to_string()).collect::<Vec<_>>().join(";"))
    }
}

pub fn fb(x: f64) -> String {
    format!("(fb {})", x.to_bits())
}

fn of64(o: &Option<f64>) -> String {
    match o {
        Some(x) => format!("(Some {})", fb(*x)),
        None => "None".into(),
    }
}
fn oz(o: &Option<i64>) -> String {
    match o {
        Some(x) => format!("(Some ({})%Z)", x),
        None => "None".into(),
    }
}
fn onat(o: &Option<usize>) -> String {
    match o {
        Some(x) => format!("(Some {}%nat)", x),
        None => "None".into(),
    }
}

pub fn spec_to_coq(n: &spec::Node) -> String {
    match n {
        spec::Node::Real { init, scale, min, max } => format!("(SReal {} {} {} {})", fb(*init), fb(*scale), of64(min), of64(max)),
        spec::Node::Int { init, scale, min, max } => format!("(SInt ({})%Z {} {} {})", init, fb(*scale), oz(min), oz(max)),
        spec::Node::Bool { init } => format!("(SBool {})", init),
        spec::Node::Sub { map } => {
            let mut ks: Vec<_> = map.iter().collect();
            ks.sort_by(|a, b| a.0.cmp(b.0));
            format!("(SSub [{}])", ks.iter().map(|(k, v)| format!("({}, {})", cstr(k), spec_to_coq(v))).collect::<Vec<_>>().join("; "))
        }
        spec::Node::Array { value_type, size } => format!("(SArray {} {}%nat)", spec_to_coq(value_type), size),
        spec::Node::AnonMap { value_type, init_size, min_size, max_size } => {
            format!("(SAnonMap {} {}%nat {} {})", spec_to_coq(value_type), init_size, onat(min_size), onat(max_size))
        }
        spec::Node::Variant { map, init } => {
            let mut ks: Vec<_> = map.iter().collect();
            ks.sort_by(|a, b| a.0.cmp(b.0));
            format!(
                "(SVariant [{}] {})",
                ks.iter().map(|(k, v)| format!("({}, {})", cstr(k), spec_to_coq(v))).collect::<Vec<_>>().join("; "),
                cstr(init)
            )
        }
        spec::Node::Enum { values, init } => {
            format!("(SEnum [{}] {})", values.iter().map(|s| cstr(s)).collect::<Vec<_>>().join("; "), cstr(init))
        }
        spec::Node::Optional { value_type, init_present } => format!("(SOptional {} {})", spec_to_coq(value_type), init_present),
        spec::Node::Const => "SConst".into(),
    }
}

pub fn value_to_coq(n: &value::Node) -> String {
    match n {
        value::Node::Real(x) => format!("(VReal {})", fb(*x)),
        value::Node::Int(z) => format!("(VInt ({})%Z)", z),
        value::Node::Bool(b) => format!("(VBool {})", b),
        value::Node::Sub(m) => {
            let mut ks: Vec<_> = m.iter().collect();
            ks.sort_by(|a, b| a.0.cmp(b.0));
            format!("(VSub [{}])", ks.iter().map(|(k, v)| format!("({}, {})", cstr(k), value_to_coq(v))).collect::<Vec<_>>().join("; "))
        }
        value::Node::Array(l) => format!("(VArray [{}])", l.iter().map(|v| value_to_coq(v)).collect::<Vec<_>>().join("; ")),
        value::Node::AnonMap(m) => {
            let mut ks: Vec<_> = m.iter().collect();
            ks.sort_by(|a, b| a.0.cmp(b.0));
            format!("(VAnonMap [{}])", ks.iter().map(|(k, v)| format!("({}%N, {})", k, value_to_coq(v))).collect::<Vec<_>>().join("; "))
        }
        value::Node::Variant(name, v) => format!("(VVariant {} {})", cstr(name), value_to_coq(v)),
        value::Node::Enum(name) => format!("(VEnum {})", cstr(name)),
        value::Node::Optional(o) => match o {
            Some(v) => format!("(VOptional (Some {}))", value_to_coq(v)),
            None => "(VOptional None)".into(),
        },
        value::Node::Const => "VConst".into(),
    }
}

// ------------------------------------------------------------------ one case = one chain of operator calls

fn prob(r: &mut Prng) -> f64 {
    match r.below(8) {
        0 => 0.0,
        1 | 2 => 1.0,
        3 => 1e-25,
        4 => 0.5,
        _ => r.unit(),
    }
}

fn mscale(r: &mut Prng) -> f64 {
    match r.below(8) {
        0 => 1.0,
        1 => 0.0,
        2 => 1e-6,
        3 => 1e6,
        4 => *r.pick(&[1e18, 1e30, 1e300]),
        _ => 10f64.powf((r.unit() - 0.5) * 6.0),
    }
}

pub struct OpsCase {
    pub idx: u64,
    pub yaml: String,
    pub coq: String,
    pub n_mut: usize,
    pub n_cross: usize,
    pub kinds: String,
    pub panicked: Option<String>,
}

pub fn run_case(master: u64, idx: u64, profile: &str) -> OpsCase {
    let mut r = Prng::new(master.wrapping_mul(7_000_003).wrapping_add(idx));
    let mut yaml = String::new();
    let depth = 1 + r.below(3);
    // profile p0big: large arrays, so that one call makes hundreds of Bernoulli draws
    BIG.with(|b| b.set(profile == "p0big"));
    let long = profile == "long" || profile == "p1long";
    let profile = match profile {
        "p0big" => "p0",
        "p1long" => "p1",
        x => x,
    };
    // root must be a map document: wrap in a sub with one or two members unless the root kind is explicit
    let family = r.below(3);
    let spec: Spec = loop {
        yaml.clear();
        if BIG.with(|b| b.get()) {
            // one large array at the root: hundreds of Bernoulli draws per call
            yaml.push_str(&format!("v:\n  type: array\n  size: {}\n  valueType:\n", 100 + r.below(120)));
            BIG.with(|b| b.set(false));
            gen_spec_yaml(&mut r, depth.min(2) - 1, 4, &mut yaml);
            BIG.with(|b| b.set(true));
        } else if long && family == 0 {
            // histories of re-materialisation: maps below an initially absent optional and below a
            // non-initial variant option, each with several initial elements and no bounds
            for k in 1..=6 {
                yaml.push_str(&format!("o{}:\n  type: optional\n  initPresent: false\n  valueType:\n    type: anon map\n    initSize: 3\n    valueType:\n      type: bool\n      init: false\n", k));
            }
            yaml.push_str("v:\n  type: variant\n  init: a\n  a:\n    type: const\n  b:\n    type: anon map\n    initSize: 4\n    valueType:\n      type: bool\n      init: true\n");
        } else if !long && family == 1 && r.chance(1, 3) {
            // a wide sub (8..14 distinct real fields) with a nested one: hash tables big enough for their iteration order
            // to depend on how they were filled (collected at once, or key by key when read from JSON)
            let n = 8 + r.below(7);
            for k in 0..n {
                yaml.push_str(&format!("k{}:\n  type: real\n  init: {}.5\n  scale: 1.0\n", k, k));
            }
            yaml.push_str("inner:\n");
            for k in 0..7 {
                yaml.push_str(&format!("  j{}:\n    type: int\n    init: {}\n    scale: 2.0\n", k, 10 * k));
            }
        } else {
            gen_spec_yaml(&mut r, depth, 0, &mut yaml);
        }
        match spec_util::from_yaml_str(&yaml) {
            Ok(s) => break s,
            Err(_) => continue,
        }
    };
    let mut rng = StdRng::seed_from_u64(r.next_u64());
    let mut ctx = Default::default();
    let v0: Value = spec.initial_value();
    if false {
        // never executed: fixes the (unnameable) type of `ctx` to cambrian's PathContext
        let p = MutationParams { mutation_prob: 0.0, mutation_scale: 1.0 };
        let _ = mutation::mutate(&spec, &v0, &p, &mut ctx, &mut StdRng::seed_from_u64(0));
    }
    let mut pool: Vec<Value> = vec![v0.clone()];
    let crossover = Crossover::new();
    let mut ops: Vec<String> = Vec::new();
    let steps = if long { 40 + r.below(80) } else if BIG.with(|b| b.get()) { 2 + r.below(3) } else { 4 + r.below(16) };
    let (mut n_mut, mut n_cross) = (0, 0);
    let mut panicked = None;
    let res = std::panic::catch_unwind(std::panic::AssertUnwindSafe(|| {
        // the context registers the initial value, as AlgoContext::new does
        ctx.add_nodes_for(&v0);
        let directed = long && family == 0 && profile != "p1";
        // search state of the directed strategy: per optional path, has its map grown yet; once a map
        // that held at most key 0 has grown (the key manager of that path is then at most 2 while a
        // freshly materialised map holds keys 0..2), switch to probability 1 on the initial value
        let mut grown = [false; 6];
        let mut phase_b = false;
        let keys_of = |v: &Value, k: usize| -> Option<Vec<u64>> {
            match &v.to_json()[format!("o{}", k + 1).as_str()] {
                serde_json::Value::Object(m) => Some(m.keys().filter_map(|s| s.parse().ok()).collect()),
                _ => None,
            }
        };
        for _step in 0..steps {
            if directed {
                let (src, prob_) = if phase_b {
                    (0usize, 1.0)
                } else {
                    // the value whose not-yet-grown maps are smallest
                    let score = |v: &Value| -> usize { (0..6).filter(|k| !grown[*k]).map(|k| keys_of(v, k).map(|x| x.len()).unwrap_or(3)).sum() };
                    let mut best = pool.len() - 1;
                    for i in 0..pool.len() {
                        if score(&pool[i]) < score(&pool[best]) {
                            best = i;
                        }
                    }
                    (best, *r.pick(&[0.35, 0.5, 0.5]))
                };
                let p = MutationParams { mutation_prob: prob_, mutation_scale: 1.0 };
                let out = mutation::mutate(&spec, &pool[src], &p, &mut ctx, &mut rng);
                if !phase_b {
                    for k in 0..6 {
                        if grown[k] {
                            continue;
                        }
                        match (keys_of(&pool[src], k), keys_of(&out, k)) {
                            (Some(a), Some(b)) if b.iter().any(|x| !a.contains(x)) => {
                                grown[k] = true;
                                if a.iter().all(|x| *x == 0) {
                                    phase_b = true;
                                }
                            }
                            (None, Some(b)) if b.len() > 3 => grown[k] = true,
                            _ => {}
                        }
                    }
                }
                ops.push(format!("OMut {}%nat {} {} {}", src, fb(p.mutation_prob), fb(p.mutation_scale), value_to_coq(&out.0)));
                pool.push(out);
                n_mut += 1;
                continue;
            }
            if r.chance(2, 3) || pool.len() < 2 {
                let src = if r.chance(2, 3) { pool.len() - 1 } else { r.below(pool.len()) };
                let p = MutationParams { mutation_prob: if profile == "p1" { 1.0 } else if profile == "p0" { 0.0 } else { prob(&mut r) }, mutation_scale: mscale(&mut r) };
                let out = mutation::mutate(&spec, &pool[src], &p, &mut ctx, &mut rng);
                ops.push(format!("OMut {}%nat {} {} {}", src, fb(p.mutation_prob), fb(p.mutation_scale), value_to_coq(&out.0)));
                pool.push(out);
                n_mut += 1;
            } else {
                let n = 1 + r.below(pool.len().min(8));
                let mut srcs = Vec::new();
                for _ in 0..n {
                    srcs.push(r.below(pool.len()));
                }
                if r.chance(1, 6) {
                    let s0 = srcs[0];
                    for s in srcs.iter_mut() {
                        *s = s0;
                    }
                }
                // some parents are handed over as equal values built along another route (read back from their JSON):
                // the same value, a differently filled hash table
                let twins: Vec<Option<Value>> = srcs
                    .iter()
                    .map(|i| {
                        if r.chance(1, 3) {
                            // to_json panics on a non-finite real (reachable here only with mutation scales no run has): no twin then
                            std::panic::catch_unwind(std::panic::AssertUnwindSafe(|| pool[*i].to_json()))
                                .ok()
                                .and_then(|j| cambrian::value_util::from_json_value(&j, &spec).ok())
                                .filter(|t| *t == pool[*i])
                        } else {
                            None
                        }
                    })
                    .collect();
                let parents: Vec<&Value> = srcs.iter().zip(twins.iter()).map(|(i, t)| t.as_ref().unwrap_or(&pool[*i])).collect();
                let p = CrossoverParams { crossover_prob: prob(&mut r), selection_pressure: prob(&mut r) };
                let out = crossover.crossover(&spec, &parents, &p, &mut ctx, &mut rng);
                ops.push(format!(
                    "OCross [{}] {} {} {}",
                    srcs.iter().map(|i| format!("{}%nat", i)).collect::<Vec<_>>().join("; "),
                    fb(p.crossover_prob),
                    fb(p.selection_pressure),
                    value_to_coq(&out.0)
                ));
                pool.push(out);
                n_cross += 1;
            }
        }
        if BIG.with(|b| b.get()) {
            // search: many more calls at probability 0; a call that returns its input changes neither
            // the pool nor the key counters and is not recorded, one that does not is the failing input
            for _ in 0..400 {
                let src = r.below(pool.len());
                let p = MutationParams { mutation_prob: 0.0, mutation_scale: mscale(&mut r) };
                let out = mutation::mutate(&spec, &pool[src], &p, &mut ctx, &mut rng);
                if out.to_json() != pool[src].to_json() {
                    ops.push(format!("OMut {}%nat {} {} {}", src, fb(p.mutation_prob), fb(p.mutation_scale), value_to_coq(&out.0)));
                    pool.push(out);
                    n_mut += 1;
                    break;
                }
            }
        }
    }));
    if let Err(e) = res {
        let msg = if let Some(s) = e.downcast_ref::<String>() { s.clone() } else if let Some(s) = e.downcast_ref::<&str>() { s.to_string() } else { "panic".into() };
        panicked = Some(msg);
        ops.push("OPanic".into());
    }
    let coq = format!(
        "Definition p{} : ops_obs := mkOpsObs {} {} {} [\n  {}].\n",
        idx,
        idx,
        spec_to_coq(&spec.0),
        value_to_coq(&v0.0),
        ops.join(";\n  ")
    );
    let kinds = yaml.lines().filter_map(|l| l.trim().strip_prefix("type: ")).collect::<Vec<_>>().join(",");
    OpsCase { idx, yaml, coq, n_mut, n_cross, kinds, panicked }
}

