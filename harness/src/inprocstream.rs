//! In-process (threaded) evaluation through `sync_launch::launch` (C05): the objective function
//! is a rendezvous that records how many evaluations are in progress at once.  Each call waits
//! (at most 4 s — only a run that cannot reach the level waits that long) until `nc` calls are
//! in progress or the budget's last calls are running.  Recorded: peak concurrency, whether the
//! level min(nc, remaining budget) was reached each time, total calls.
use crate::prng::Prng;
use cambrian::meta::{make_obj_func, AlgoConfigBuilder};
use cambrian::spec_util;
use cambrian::sync_launch;
use cambrian::termination::TerminationCriterion;
use std::sync::{Arc, Condvar, Mutex};
use std::time::{Duration, Instant};

pub struct InprocCase {
    pub coq: String,
    pub json: serde_json::Value,
}

#[derive(Default)]
struct St {
    running: usize,
    peak: usize,
    started: usize,
    gen: usize,
    arrived: usize,
}

pub fn run_case(master: u64, idx: u64) -> InprocCase {
    let mut r = Prng::new(master ^ idx.wrapping_mul(0xD6E8FEB86659FD93)).fork(0x19C);
    let hw = std::thread::available_parallelism().map(|n| n.get()).unwrap_or(4);
    let nc = match r.below(5) {
        0 => 1,
        1 => 2 + r.below(4),
        2 => hw + 3,
        3 => 2 * hw,
        _ => hw,
    };
    let waves = 2 + r.below(2);
    let budget = nc * waves;
    let spec = spec_util::from_yaml_str("x:\n  type: real\n  init: 1.0\n  scale: 1.0\n").unwrap();
    let st = Arc::new((Mutex::new(St::default()), Condvar::new()));
    let st2 = st.clone();
    let f = make_obj_func(move |_v| {
        let (m, cv) = &*st2;
        let mut g = m.lock().unwrap();
        g.running += 1;
        g.started += 1;
        if g.running > g.peak {
            g.peak = g.running;
        }
        let my_gen = g.gen;
        g.arrived += 1;
        if g.arrived >= nc {
            // nc calls of this wave are in progress at once: release the wave
            g.arrived = 0;
            g.gen += 1;
            cv.notify_all();
        } else {
            let deadline = Instant::now() + Duration::from_secs(10);
            while g.gen == my_gen {
                let now = Instant::now();
                if now >= deadline {
                    break;
                }
                let (g2, _) = cv.wait_timeout(g, deadline - now).unwrap();
                g = g2;
            }
        }
        g.running -= 1;
        Some(1.0)
    });
    let cfg = AlgoConfigBuilder::new().num_concurrent(nc).build().unwrap();
    let t0 = Instant::now();
    let res = sync_launch::launch(spec, f, cfg, vec![TerminationCriterion::NumObjFuncEval(budget)], None, true, None);
    let wall = t0.elapsed().as_millis();
    let g = st.0.lock().unwrap();
    let ok = res.is_ok();
    let coq = format!(
        "Definition m{} : meta_obs := MInproc {} {}%N {}%N {}%N {}%N {}.\n",
        idx, idx, nc, budget, g.peak, g.started, if ok { "true" } else { "false" }
    );
    let json = serde_json::json!({"stream": "meta", "idx": idx, "kind": "inproc", "nc": nc, "budget": budget, "hardware_threads": hw,
        "peak": g.peak, "started": g.started, "ok": ok, "wall_ms": wall as u64});
    InprocCase { coq, json }
}

/// A failing run with threaded in-process evaluation (C06): the first call returns NaN as soon as
/// another call is executing; the others keep executing for 400 ms.  Recorded: how many calls of
/// the objective function were still executing when `launch` returned.
pub fn run_fail_case(master: u64, idx: u64) -> InprocCase {
    let mut r = Prng::new(master ^ idx.wrapping_mul(0x94D049BB133111EB)).fork(0xF41);
    let nc = 2 + r.below(4);
    let spec = spec_util::from_yaml_str("x:\n  type: real\n  init: 1.0\n  scale: 1.0\n").unwrap();
    let st = Arc::new((Mutex::new(St::default()), Condvar::new()));
    let st2 = st.clone();
    let f = make_obj_func(move |_v| {
        let (m, cv) = &*st2;
        let mut g = m.lock().unwrap();
        let me = g.started;
        g.started += 1;
        g.running += 1;
        cv.notify_all();
        if me == 0 {
            // wait (at most 4 s) until a second call is executing, then fail
            let deadline = Instant::now() + Duration::from_secs(10);
            while g.running < 2 {
                let now = Instant::now();
                if now >= deadline {
                    break;
                }
                let (g2, _) = cv.wait_timeout(g, deadline - now).unwrap();
                g = g2;
            }
            g.running -= 1;
            return Some(f64::NAN);
        }
        drop(g);
        std::thread::sleep(Duration::from_millis(400));
        let mut g = m.lock().unwrap();
        g.running -= 1;
        Some(1.0)
    });
    let cfg = AlgoConfigBuilder::new().num_concurrent(nc).build().unwrap();
    let res = sync_launch::launch(spec, f, cfg, vec![TerminationCriterion::NumObjFuncEval(50)], None, true, None);
    let running = st.0.lock().unwrap().running;
    let started = st.0.lock().unwrap().started;
    let is_err = res.is_err();
    let coq = format!("Definition m{} : meta_obs := MInprocFail {} {}%N {}%N {}%N {}.\n", idx, idx, nc, started, running, if is_err { "true" } else { "false" });
    let json = serde_json::json!({"stream": "meta", "idx": idx, "kind": "inprocfail", "nc": nc, "started": started,
        "still_executing_at_return": running, "result": format!("{:?}", res.map(|r| r.best_seen.obj_func_val).map_err(|e| e.to_string()))});
    // let the stragglers finish before the next case reuses the machine
    std::thread::sleep(Duration::from_millis(50));
    InprocCase { coq, json }
}
