//! Benchmark battery (C17): deterministic problems with a known optimum, run through
//! `async_launch::launch` with an objective function computed from the candidate, at
//! concurrency 1 and 4 with harness-chosen completion orders (each evaluation yields a
//! PRNG-chosen number of times before it returns).  The harness records the objective of the
//! initial value and of the reported best; the thresholds are judged in Check/MetaCheck.v.
use crate::prng::Prng;
use async_trait::async_trait;
use cambrian::error::Error;
use cambrian::meta::{AlgoConfigBuilder, AsyncObjectiveFunction};
use cambrian::spec_util;
use futures::channel::mpsc;
use futures::StreamExt;
use serde_json::Value as J;
use std::future::Future;
use std::pin::Pin;
use std::task::{Context, Poll};

pub const PROBLEMS: &[(&str, &str, usize)] = &[
    ("sphere1", "x:\n  type: real\n  init: 5.0\n  scale: 1.0\n", 400),
    ("sphere5", "v:\n  type: array\n  size: 5\n  valueType:\n    type: real\n    init: 3.0\n    scale: 1.0\n", 1500),
    ("scaled", "x:\n  type: real\n  init: 1000000.0\n  scale: 100000.0\n", 400),
    ("bound", "x:\n  type: real\n  init: 5.0\n  scale: 1.0\n  min: 0.0\n  max: 10.0\n", 300),
    ("grid", "a:\n  type: int\n  init: 10\n  scale: 3.0\n  min: -20\n  max: 20\nb:\n  type: int\n  init: 10\n  scale: 3.0\n  min: -20\n  max: 20\n", 600),
    ("onemax", "v:\n  type: array\n  size: 8\n  valueType:\n    type: bool\n    init: false\n", 400),
    ("mapsize", "m:\n  type: anon map\n  initSize: 1\n  minSize: 0\n  maxSize: 8\n  valueType:\n    type: bool\n    init: false\n", 300),
    ("tiny", "x:\n  type: real\n  init: 0.000000000001\n  scale: 0.000000000001\n", 400),
    ("choice", "c:\n  type: variant\n  init: a\n  a:\n    type: const\n  b:\n    type: enum\n    values: [p, q, r]\n    init: p\n", 200),
    // the optimum is 1e5 step scales away from the initial value: reached only if the mutation scale adapts upwards
    ("far", "x:\n  type: real\n  init: 100000.0\n  scale: 1.0\n", 3000),
    // needs steps many orders of magnitude below the spec scale: reached only if the mutation scale adapts downwards
    ("precise", "x:\n  type: real\n  init: 5.0\n  scale: 1.0\n", 2500),
];

pub fn objective(prob: usize, v: &J) -> f64 {
    match prob {
        0 => {
            let x = v["x"].as_f64().unwrap();
            (x - 1.234) * (x - 1.234)
        }
        1 => v["v"].as_array().unwrap().iter().enumerate().map(|(i, x)| { let d = x.as_f64().unwrap() - i as f64; d * d }).sum(),
        2 => {
            let x = v["x"].as_f64().unwrap();
            x * x
        }
        3 => v["x"].as_f64().unwrap(),
        4 => {
            let a = v["a"].as_i64().unwrap() as f64;
            let b = v["b"].as_i64().unwrap() as f64;
            (a - 3.0) * (a - 3.0) + (b + 4.0) * (b + 4.0)
        }
        5 => v["v"].as_array().unwrap().iter().filter(|b| !b.as_bool().unwrap()).count() as f64,
        6 => {
            let n = match &v["m"] {
                J::Object(m) => m.len(),
                J::Array(l) => l.len(),
                _ => 0,
            };
            (n as f64 - 5.0).abs()
        }
        7 => {
            let x = v["x"].as_f64().unwrap() / 1e-12;
            (x - 0.3) * (x - 0.3)
        }
        9 => {
            let x = v["x"].as_f64().unwrap();
            x * x
        }
        10 => {
            let x = v["x"].as_f64().unwrap();
            (x - 1.234) * (x - 1.234)
        }
        _ => match &v["c"] {
            J::Object(m) => match m.get("b") {
                Some(J::String(s)) if s == "r" => 0.0,
                Some(_) => 1.0,
                None => 2.0,
            },
            _ => 2.0,
        },
    }
}

struct YieldN(u32);
impl Future for YieldN {
    type Output = ();
    fn poll(mut self: Pin<&mut Self>, cx: &mut Context<'_>) -> Poll<()> {
        if self.0 == 0 {
            Poll::Ready(())
        } else {
            self.0 -= 1;
            cx.waker().wake_by_ref();
            Poll::Pending
        }
    }
}

struct BenchFn {
    prob: usize,
    order_seed: u64,
    max_yield: u32,
}

#[async_trait]
impl AsyncObjectiveFunction for BenchFn {
    async fn evaluate(&self, value: J, _abort: async_broadcast::Receiver<()>, seed: u64, _id: usize) -> Result<Option<f64>, Error> {
        if self.max_yield > 0 {
            let mut h = Prng::new(self.order_seed ^ seed.wrapping_mul(0x9E3779B97F4A7C15));
            YieldN((h.next_u64() % (self.max_yield as u64 + 1)) as u32).await;
        }
        Ok(Some(objective(self.prob, &value)))
    }
}

pub struct BenchCase {
    pub coq: String,
    pub json: serde_json::Value,
}

pub fn run_case(master: u64, idx: u64) -> BenchCase {
    let mut r = Prng::new(master ^ idx.wrapping_mul(0xC2B2AE3D27D4EB4F)).fork(0xBE7C);
    let prob = (idx as usize) % PROBLEMS.len();
    let nc = if (idx as usize / PROBLEMS.len()) % 2 == 0 { 1 } else { 4 };
    let order_seed = r.next_u64();
    let (name, yaml, budget) = PROBLEMS[prob];
    let spec = spec_util::from_yaml_str(yaml).unwrap();
    let init = spec.initial_value().to_json();
    let f0 = objective(prob, &init);
    let cfg = AlgoConfigBuilder::new().num_concurrent(nc).individual_sample_size(1).build().unwrap();
    let (_cmd_tx, cmd_rx) = mpsc::channel(4);
    let (rep_tx, rep_rx) = mpsc::channel(256);
    let f = BenchFn { prob, order_seed, max_yield: if nc == 1 { 0 } else { 3 } };
    let res = futures::executor::block_on(async {
        let drain = rep_rx.for_each(|_| async {});
        let run = cambrian::async_launch::launch(spec, f, cfg, cmd_rx, rep_tx, Some(budget), None, None);
        let (res, _) = futures::join!(run, drain);
        res
    });
    let (fbest, best_txt, done) = match &res {
        Ok(rep) => (rep.best_seen.obj_func_val, rep.best_seen.value.to_string(), rep.num_obj_func_eval_completed),
        Err(e) => (f64::NAN, format!("{:?}", e), 0),
    };
    let coq = format!(
        "Definition m{} : meta_obs := MBench {} {}%nat {}%N {}%Z {}%Z.\n",
        idx, idx, prob, nc, f0.to_bits(), fbest.to_bits()
    );
    let json = serde_json::json!({"stream": "meta", "idx": idx, "kind": "bench", "problem": name, "nc": nc, "budget": budget,
        "order_seed": order_seed, "f_init": f0, "f_best": fbest, "best": best_txt, "completed": done});
    BenchCase { coq, json }
}
