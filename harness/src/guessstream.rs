//! Guess stream: (spec, serde_json::Value) -> value_util::from_json_value, with conforming values
//! (both encodings of resizable maps), single-defect corruptions and arbitrary JSON.

use crate::opsstream::{cstr, fb, gen_spec_yaml, spec_to_coq, value_to_coq};
use crate::prng::Prng;
use cambrian::error::Error;
use cambrian::meta::MutationParams;
use cambrian::mutation;
use cambrian::spec::{self, Spec};
use cambrian::spec_util;
use cambrian::value::Value;
use cambrian::value_util;
use rand::rngs::StdRng;
use rand::SeedableRng;
use serde_json::{json, Map, Value as J};

pub fn json_to_coq(j: &J) -> String {
    match j {
        J::Null => "JNull".into(),
        J::Bool(b) => format!("(JBool {})", b),
        J::Number(n) => {
            if let Some(u) = n.as_u64() {
                format!("(JInt {}%Z)", u)
            } else if let Some(i) = n.as_i64() {
                format!("(JInt ({})%Z)", i)
            } else {
                format!("(JFloat {})", fb(n.as_f64().unwrap()))
            }
        }
        J::String(s) => format!("(JStr {})", cstr(s)),
        J::Array(l) => format!("(JArr [{}])", l.iter().map(json_to_coq).collect::<Vec<_>>().join("; ")),
        J::Object(m) => format!("(JObj [{}])", m.iter().map(|(k, v)| format!("({}, {})", cstr(k), json_to_coq(v))).collect::<Vec<_>>().join("; ")),
    }
}

fn err_kind(e: &Error) -> &'static str {
    match e {
        Error::WrongTypeForValue { .. } => "JWrongType",
        Error::NumberConversionFailed { .. } => "JNumberConversionFailed",
        Error::ValueNotWithinBounds { .. } => "JValueNotWithinBounds",
        Error::UnexpectedKey { .. } => "JUnexpectedKey",
        Error::MandatoryValueMissing { .. } => "JMandatoryValueMissing",
        Error::InvalidAnonMapKey { .. } => "JInvalidAnonMapKey",
        Error::UnknownVariant { .. } => "JUnknownVariant",
        Error::ExactlyOneVariantValueRequired { .. } => "JExactlyOneVariantValueRequired",
        Error::UnknownEnumValue { .. } => "JUnknownEnumValue",
        _ => {
            // variants added by later repairs are recognised by their message
            let s = e.to_string();
            if s.contains("array") && s.contains("length") {
                "JWrongArrayLength"
            } else if s.contains("size") {
                "JMapSizeNotWithinBounds"
            } else {
                "JOther"
            }
        }
    }
}

/// re-encode resizable maps with contiguous keys 0..n-1 as arrays (the second accepted encoding)
fn arrays_for_maps(node: &spec::Node, j: &J, r: &mut Prng) -> J {
    match (node, j) {
        (spec::Node::AnonMap { value_type, .. }, J::Object(m)) => {
            let n = m.len();
            let contiguous = (0..n).all(|i| m.contains_key(&i.to_string()));
            if contiguous && r.chance(1, 2) {
                J::Array((0..n).map(|i| arrays_for_maps(value_type, &m[&i.to_string()], r)).collect())
            } else {
                J::Object(m.iter().map(|(k, v)| (k.clone(), arrays_for_maps(value_type, v, r))).collect())
            }
        }
        (spec::Node::Sub { map }, J::Object(m)) => J::Object(
            m.iter().map(|(k, v)| (k.clone(), match map.get(k) { Some(cs) => arrays_for_maps(cs, v, r), None => v.clone() })).collect(),
        ),
        (spec::Node::Array { value_type, .. }, J::Array(l)) => J::Array(l.iter().map(|v| arrays_for_maps(value_type, v, r)).collect()),
        (spec::Node::Variant { map, .. }, J::Object(m)) => J::Object(
            m.iter().map(|(k, v)| (k.clone(), match map.get(k) { Some(cs) => arrays_for_maps(cs, v, r), None => v.clone() })).collect(),
        ),
        (spec::Node::Optional { value_type, .. }, v) if !v.is_null() => arrays_for_maps(value_type, v, r),
        _ => j.clone(),
    }
}

/// one defect somewhere in a conforming JSON; None if no defect was applicable at the chosen path
fn corrupt(node: &spec::Node, j: &J, r: &mut Prng, depth: usize) -> Option<(J, &'static str)> {
    let descend = depth < 6 && r.chance(2, 3);
    match (node, j) {
        (spec::Node::Sub { map }, J::Object(m)) => {
            if descend {
                let keys: Vec<&String> = m.keys().collect();
                let k = keys[r.below(keys.len())].clone();
                if let Some((c, n)) = corrupt(&map[&k], &m[&k], r, depth + 1) {
                    let mut m2 = m.clone();
                    m2.insert(k, c);
                    return Some((J::Object(m2), n));
                }
            }
            let mut m2 = m.clone();
            match r.below(3) {
                0 => {
                    let k = m.keys().next().unwrap().clone();
                    m2.remove(&k);
                    Some((J::Object(m2), "missing key"))
                }
                1 => {
                    m2.insert("no such key".into(), json!(1));
                    Some((J::Object(m2), "unknown key"))
                }
                _ => Some((json!([1, 2]), "wrong type for sub")),
            }
        }
        (spec::Node::Array { value_type, .. }, J::Array(l)) => {
            if descend {
                let i = r.below(l.len());
                if let Some((c, n)) = corrupt(value_type, &l[i], r, depth + 1) {
                    let mut l2 = l.clone();
                    l2[i] = c;
                    return Some((J::Array(l2), n));
                }
            }
            let mut l2 = l.clone();
            if r.chance(1, 2) {
                l2.push(l[0].clone());
                Some((J::Array(l2), "array too long"))
            } else {
                l2.pop();
                Some((J::Array(l2), "array too short"))
            }
        }
        (spec::Node::AnonMap { value_type, min_size, max_size, .. }, J::Object(m)) => {
            if descend && !m.is_empty() {
                let keys: Vec<&String> = m.keys().collect();
                let k = keys[r.below(keys.len())].clone();
                if let Some((c, n)) = corrupt(value_type, &m[&k], r, depth + 1) {
                    let mut m2 = m.clone();
                    m2.insert(k, c);
                    return Some((J::Object(m2), n));
                }
            }
            let mut m2 = m.clone();
            match r.below(4) {
                3 => {
                    // two spellings of one key ("1" and "01" / "+1"): as many entries as minSize, one key fewer
                    if let Some(mn) = min_size {
                        if *mn >= 2 && m.len() >= *mn {
                            while m2.len() > *mn {
                                let k = m2.keys().next().unwrap().clone();
                                m2.remove(&k);
                            }
                            let keys: Vec<String> = m2.keys().cloned().collect();
                            let v2 = m2.remove(&keys[1]).unwrap();
                            let alias = if r.chance(1, 2) { format!("0{}", keys[0]) } else { format!("+{}", keys[0]) };
                            m2.insert(alias, v2);
                            return Some((J::Object(m2), "map below minSize through two spellings of one key"));
                        }
                    }
                    None
                }
                0 => {
                    if let Some(mx) = max_size {
                        let proto = m.values().next().cloned().unwrap_or_else(|| value_type.initial_value().to_json());
                        let mut k = 1000usize;
                        while m2.len() <= *mx {
                            m2.insert(k.to_string(), proto.clone());
                            k += 1;
                        }
                        return Some((J::Object(m2), "map above maxSize"));
                    }
                    None
                }
                1 => {
                    if let Some(mn) = min_size {
                        if *mn > 0 {
                            while m2.len() >= *mn {
                                let k = m2.keys().next().unwrap().clone();
                                m2.remove(&k);
                            }
                            return Some((J::Object(m2), "map below minSize"));
                        }
                    }
                    None
                }
                _ => {
                    let proto = m.values().next().cloned().unwrap_or_else(|| value_type.initial_value().to_json());
                    m2.insert((*r.pick(&["x", "-1", "1.0", " 1", "", "18446744073709551616", "0x1"])).to_string(), proto);
                    Some((J::Object(m2), "invalid map key"))
                }
            }
        }
        (spec::Node::Variant { map, .. }, J::Object(m)) => {
            let (k, v) = m.iter().next().unwrap();
            if descend {
                if let Some((c, n)) = corrupt(&map[k], v, r, depth + 1) {
                    let mut m2 = Map::new();
                    m2.insert(k.clone(), c);
                    return Some((J::Object(m2), n));
                }
            }
            let mut m2 = m.clone();
            if r.chance(1, 2) {
                m2.insert("no such option".into(), v.clone());
                m2.remove(k);
                Some((J::Object(m2), "unknown variant option"))
            } else {
                let other = map.keys().find(|x| *x != k).unwrap();
                m2.insert(other.clone(), map[other].initial_value().to_json());
                Some((J::Object(m2), "two variant options"))
            }
        }
        (spec::Node::Optional { value_type, .. }, v) => {
            if v.is_null() {
                None
            } else {
                corrupt(value_type, v, r, depth + 1)
            }
        }
        (spec::Node::Enum { .. }, J::String(_)) => {
            if r.chance(1, 2) {
                Some((json!("no such value"), "unknown enum value"))
            } else {
                Some((json!(3), "wrong type for enum"))
            }
        }
        (spec::Node::Bool { .. }, _) => Some((json!("true"), "wrong type for bool")),
        (spec::Node::Const, _) => Some((json!(0), "wrong type for const")),
        (spec::Node::Real { min, max, .. }, _) => match r.below(3) {
            0 => Some((json!("1.0"), "wrong type for real")),
            1 => min.map(|a| (json!(a - a.abs().max(1.0)), "real below min")),
            _ => max.map(|b| (json!(b + b.abs().max(1.0)), "real above max")),
        },
        (spec::Node::Int { min, max, .. }, _) => match r.below(4) {
            0 => Some((json!(1.5), "float for int")),
            1 => min.and_then(|a| a.checked_sub(1)).map(|x| (json!(x), "int below min")),
            2 => max.and_then(|b| b.checked_add(1)).map(|x| (json!(x), "int above max")),
            _ => Some((json!(u64::MAX), "int beyond i64")),
        },
        _ => None,
    }
}

fn arbitrary(r: &mut Prng, depth: usize) -> J {
    match r.below(if depth == 0 { 6 } else { 8 }) {
        0 => J::Null,
        1 => json!(r.chance(1, 2)),
        2 => json!(r.range(-5, 5)),
        3 => json!((r.unit() - 0.5) * 10.0),
        4 => json!(*r.pick(&["a", "b", "x", "0"])),
        5 => json!(u64::MAX),
        6 => J::Array((0..r.below(4)).map(|_| arbitrary(r, depth - 1)).collect()),
        _ => {
            let mut m = Map::new();
            for _ in 0..r.below(4) {
                m.insert((*r.pick(&["a", "b", "x", "0", "1", "k1", "+2", "03"])).to_string(), arbitrary(r, depth - 1));
            }
            J::Object(m)
        }
    }
}

/// targeted defect: the first resizable map (object form) with minSize >= 2 gets two spellings of one key
fn alias_corrupt(node: &spec::Node, j: &J, r: &mut Prng) -> Option<J> {
    match (node, j) {
        (spec::Node::AnonMap { value_type, min_size, .. }, J::Object(m)) => {
            if let Some(mn) = min_size {
                if *mn >= 2 && m.len() >= *mn {
                    let mut m2 = m.clone();
                    while m2.len() > *mn {
                        let k = m2.keys().next().unwrap().clone();
                        m2.remove(&k);
                    }
                    let keys: Vec<String> = m2.keys().cloned().collect();
                    let v2 = m2.remove(&keys[1]).unwrap();
                    let alias = if r.chance(1, 2) { format!("0{}", keys[0]) } else { format!("+{}", keys[0]) };
                    m2.insert(alias, v2);
                    return Some(J::Object(m2));
                }
            }
            for (k, v) in m.iter() {
                if let Some(c) = alias_corrupt(value_type, v, r) {
                    let mut m2 = m.clone();
                    m2.insert(k.clone(), c);
                    return Some(J::Object(m2));
                }
            }
            None
        }
        (spec::Node::Sub { map }, J::Object(m)) => {
            for (k, v) in m.iter() {
                if let Some(c) = map.get(k).and_then(|n| alias_corrupt(n, v, r)) {
                    let mut m2 = m.clone();
                    m2.insert(k.clone(), c);
                    return Some(J::Object(m2));
                }
            }
            None
        }
        (spec::Node::Array { value_type, .. }, J::Array(l)) => {
            for (i, v) in l.iter().enumerate() {
                if let Some(c) = alias_corrupt(value_type, v, r) {
                    let mut l2 = l.clone();
                    l2[i] = c;
                    return Some(J::Array(l2));
                }
            }
            None
        }
        (spec::Node::Variant { map, .. }, J::Object(m)) => {
            let (k, v) = m.iter().next()?;
            let c = alias_corrupt(map.get(k)?, v, r)?;
            let mut m2 = Map::new();
            m2.insert(k.clone(), c);
            Some(J::Object(m2))
        }
        (spec::Node::Optional { value_type, .. }, v) if !v.is_null() => alias_corrupt(value_type, v, r),
        _ => None,
    }
}

pub struct GuessCase {
    pub coq: String,
    pub json: serde_json::Value,
}

pub fn run_case(master: u64, idx: u64, profile: &str) -> GuessCase {
    let mut r = Prng::new(master.wrapping_mul(11_000_027).wrapping_add(idx));
    let mut yaml = String::new();
    let depth = 1 + r.below(3);
    let spec: Spec = loop {
        yaml.clear();
        gen_spec_yaml(&mut r, depth, 0, &mut yaml);
        if let Ok(s) = spec_util::from_yaml_str(&yaml) {
            break s;
        }
    };
    // a reachable conforming value
    let mut rng = StdRng::seed_from_u64(r.next_u64());
    let mut ctx = Default::default();
    let mut v: Value = spec.initial_value();
    if false {
        let p = MutationParams { mutation_prob: 0.0, mutation_scale: 1.0 };
        let _ = mutation::mutate(&spec, &v, &p, &mut ctx, &mut rng);
    }
    ctx.add_nodes_for(&v);
    for _ in 0..r.below(6) {
        let p = MutationParams { mutation_prob: *r.pick(&[0.3, 0.7, 1.0]), mutation_scale: 1.0 };
        v = mutation::mutate(&spec, &v, &p, &mut ctx, &mut rng);
    }
    let canon = v.to_json();
    let mode = match profile {
        "conforming" => 0,
        "defect" => 1,
        "arbitrary" => 2,
        _ => r.below(3),
    };
    let (guess, expect, note): (J, u8, String) = match mode {
        0 => (arrays_for_maps(&spec.0, &canon, &mut r), 1, "conforming".into()),
        1 => {
            let mut got = None;
            if r.chance(1, 5) {
                if let Some(j) = alias_corrupt(&spec.0, &canon, &mut r) {
                    got = Some((j, "map below minSize through two spellings of one key"));
                }
            }
            for _ in 0..10 {
                if got.is_some() {
                    break;
                }
                if let Some(x) = corrupt(&spec.0, &canon, &mut r, 0) {
                    got = Some(x);
                    break;
                }
            }
            match got {
                Some((j, n)) => (j, 2, n.to_string()),
                None => (canon.clone(), 1, "conforming (no defect applicable)".into()),
            }
        }
        _ => (arbitrary(&mut r, 3), 0, "arbitrary".into()),
    };
    let res = std::panic::catch_unwind(|| value_util::from_json_value(&guess, &spec));
    let (res_coq, res_txt) = match &res {
        Err(_) => ("GPanic".to_string(), "PANIC".to_string()),
        Ok(Ok(val)) => (format!("(GOk {} {})", value_to_coq(&val.0), json_to_coq(&val.to_json())), "Ok".to_string()),
        Ok(Err(e)) => {
            let k = err_kind(e);
            (if k == "JOther" { "GErrOther".to_string() } else { format!("(GErr {})", k) }, k.to_string())
        }
    };
    // text level: the same guess through its JSON text
    let text = serde_json::to_string(&guess).unwrap();
    let text_same = match (value_util::from_json_str(&text, &spec), &res) {
        (Ok(a), Ok(Ok(b))) => a.to_json() == b.to_json(),
        (Err(_), Ok(Err(_))) => true,
        _ => false,
    };
    let coq = format!(
        "Definition g{} : guess_obs := mkGuessObs {} {}%N {} {} {} {} {}.\n",
        idx,
        idx,
        expect,
        spec_to_coq(&spec.0),
        json_to_coq(&guess),
        if expect == 1 { json_to_coq(&canon) } else { "JNull".to_string() },
        res_coq,
        text_same
    );
    GuessCase {
        coq,
        json: json!({"stream":"guess","idx":idx,"mode":mode,"expect":expect,"note":note,"yaml":yaml,"guess":text,"result":res_txt}),
    }
}
