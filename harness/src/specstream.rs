//! Spec stream: YAML documents (well-formed specs with hoisted/shadowed type definitions, single-rule
//! violations of them, attribute soups) -> serde_yaml::Value tree + result of spec_util::from_yaml_str.

use crate::opsstream::{cstr, fb, spec_to_coq};
use crate::prng::Prng;
use cambrian::error::Error;
use cambrian::spec_util;
use serde_yaml::{Mapping, Value};

fn s(x: &str) -> Value {
    Value::String(x.to_string())
}
fn fnum(x: f64) -> Value {
    Value::Number(serde_yaml::Number::from(x))
}
fn inum(x: i64) -> Value {
    Value::Number(serde_yaml::Number::from(x))
}

const NAMES: &[&str] = &["a", "b", "c", "k1", "x", "y", "0", "init", "optional", "size", "values", "min", "type x", "typeDefault", "typeDef", "typeDefx", "valueType", "q\"uote", "semi;colon", "sp ace", "\u{e9}\u{1F600}",
    // long names of multi-byte characters: a path hint cut at a byte offset lands inside one of them
    "\u{3bb}\u{3bb}\u{3bb}\u{3bb}\u{3bb}\u{3bb}\u{3bb}\u{3bb}\u{3bb}\u{3bb}\u{3bb}\u{3bb}\u{3bb}x", "\u{e9}\u{e9}\u{e9}\u{e9}\u{e9}\u{e9}\u{e9}\u{e9}\u{e9}\u{e9}\u{e9}\u{e9}\u{e9}\u{e9}\u{e9}\u{e9}\u{e9}\u{e9}\u{e9}\u{e9}", "z\u{540d}\u{524d}\u{540d}\u{524d}\u{540d}\u{524d}\u{540d}\u{524d}\u{540d}\u{524d}",
    // names longer than 64 bytes by themselves, multi-byte characters followed by one, two or three ASCII ones: a hint
    // cut 64 bytes from either end lands inside a character for some of them, whatever the nesting adds
    "\u{540d}\u{540d}\u{540d}\u{540d}\u{540d}\u{540d}\u{540d}\u{540d}\u{540d}\u{540d}\u{540d}\u{540d}\u{540d}\u{540d}\u{540d}\u{540d}\u{540d}\u{540d}\u{540d}\u{540d}\u{540d}\u{540d}qq",
    "\u{1F600}\u{1F600}\u{1F600}\u{1F600}\u{1F600}\u{1F600}\u{1F600}\u{1F600}\u{1F600}\u{1F600}\u{1F600}\u{1F600}\u{1F600}\u{1F600}\u{1F600}\u{1F600}\u{1F600}xyz",
    "a\u{3bb}\u{3bb}\u{3bb}\u{3bb}\u{3bb}\u{3bb}\u{3bb}\u{3bb}\u{3bb}\u{3bb}\u{3bb}\u{3bb}\u{3bb}\u{3bb}\u{3bb}\u{3bb}\u{3bb}\u{3bb}\u{3bb}\u{3bb}\u{3bb}\u{3bb}\u{3bb}\u{3bb}\u{3bb}\u{3bb}\u{3bb}\u{3bb}\u{3bb}\u{3bb}\u{3bb}\u{3bb}\u{3bb}b",
    "\u{e9}\u{e9}\u{e9}\u{e9}\u{e9}\u{e9}\u{e9}\u{e9}\u{e9}\u{e9}\u{e9}\u{e9}\u{e9}\u{e9}\u{e9}\u{e9}\u{e9}\u{e9}\u{e9}\u{e9}\u{e9}\u{e9}\u{e9}\u{e9}\u{e9}\u{e9}\u{e9}\u{e9}\u{e9}\u{e9}\u{e9}\u{e9}\u{e9}k"];
const TYPE_NAMES: &[&str] = &["t1", "t2", "foo", "my type"];

struct Gen<'a> {
    r: &'a mut Prng,
    defs: Vec<String>, // user type names in scope
}

impl<'a> Gen<'a> {
    fn num(&mut self) -> f64 {
        match self.r.below(8) {
            0 => 0.0,
            1 => -0.0,
            2 => 1.0,
            3 => (self.r.unit() - 0.5) * 2e100,
            4 => 9007199254740993.0,
            _ => (self.r.unit() - 0.5) * 20.0,
        }
    }

    fn node(&mut self, depth: usize) -> Value {
        let mut m = Mapping::new();
        if depth > 0 && !self.defs.is_empty() && self.r.chance(1, 5) {
            let d = self.defs[self.r.below(self.defs.len())].clone();
            m.insert(s("type"), s(&d));
            return Value::Mapping(m);
        }
        let kinds: &[u8] = if depth == 0 { &[0, 1, 2, 7, 9] } else { &[0, 1, 2, 3, 3, 4, 5, 5, 6, 7, 8, 9] };
        match *self.r.pick(kinds) {
            0 => {
                let (mut lo, mut hi) = (self.num(), self.num());
                if lo > hi {
                    std::mem::swap(&mut lo, &mut hi);
                }
                if lo == hi {
                    hi = lo + lo.abs().max(1.0); // lo + 1.0 is absorbed above 2^53
                }
                let form = self.r.below(4);
                let init = match form {
                    0 => self.num(),
                    _ => *self.r.pick(&[lo, hi, lo + (hi - lo) * 0.5]),
                };
                let init = if init.is_finite() { init } else { lo };
                m.insert(s("type"), s("real"));
                m.insert(s("init"), fnum(init));
                m.insert(s("scale"), fnum(*self.r.pick(&[1.0, 0.1, 1e-300, 1e100])));
                if form == 1 || form == 2 {
                    m.insert(s("min"), fnum(lo));
                }
                if form == 1 || form == 3 {
                    m.insert(s("max"), fnum(hi));
                }
            }
            1 => {
                let lo = *self.r.pick(&[-5, 0, i64::MIN, -9007199254740993, 3]);
                let hi = *self.r.pick(&[10, i64::MAX, 9007199254740993, 4]);
                let form = self.r.below(4);
                let init = match form {
                    0 => *self.r.pick(&[0, -1, i64::MAX, i64::MIN, 42]),
                    _ => *self.r.pick(&[lo, hi, lo / 2 + hi / 2]),
                };
                m.insert(s("type"), s("int"));
                m.insert(s("init"), inum(init));
                if self.r.chance(1, 2) {
                    m.insert(s("scale"), fnum(2.5));
                } else {
                    m.insert(s("scale"), inum(3));
                }
                if form == 1 || form == 2 {
                    m.insert(s("min"), inum(lo));
                }
                if form == 1 || form == 3 {
                    m.insert(s("max"), inum(hi));
                }
            }
            2 => {
                m.insert(s("type"), s("bool"));
                m.insert(s("init"), Value::Bool(self.r.chance(1, 2)));
            }
            3 => {
                if self.r.chance(2, 3) {
                    m.insert(s("type"), s("sub"));
                }
                let saved = self.defs.clone();
                // type definitions first, or interleaved with members (they are hoisted)
                let ndefs = self.r.below(3);
                let mut entries: Vec<(Value, Value)> = Vec::new();
                for _ in 0..ndefs {
                    let name = (*self.r.pick(TYPE_NAMES)).to_string();
                    let key = s(&format!("typeDef {}", name));
                    if entries.iter().any(|(k, _)| *k == key) {
                        continue; // a mapping holds a key once; a second definition would replace the first in place
                    }
                    let v = self.node(depth - 1);
                    entries.push((key, v));
                    if !self.defs.contains(&name) {
                        self.defs.push(name);
                    }
                }
                let n = 1 + self.r.below(3);
                for _ in 0..n {
                    let k = *self.r.pick(NAMES);
                    if k == "type" {
                        continue;
                    }
                    let v = self.node(depth - 1);
                    entries.push((s(k), v));
                }
                if self.r.chance(1, 3) {
                    let n = entries.len();
                    if n > 1 {
                        let i = self.r.below(n);
                        let j = self.r.below(n);
                        // definitions are read in document order (a definition sees the earlier ones);
                        // members may go anywhere
                        let order = |e: &Vec<(Value, Value)>| -> Vec<Value> {
                            e.iter().filter(|(k, _)| k.as_str().map(|x| x.starts_with("typeDef ")).unwrap_or(false)).map(|(k, _)| k.clone()).collect()
                        };
                        let before = order(&entries);
                        entries.swap(i, j);
                        if order(&entries) != before {
                            entries.swap(i, j);
                        }
                    }
                }
                for (k, v) in entries {
                    m.insert(k, v);
                }
                self.defs = saved;
            }
            4 => {
                m.insert(s("type"), s("array"));
                m.insert(s("size"), inum(2 + self.r.below(3) as i64));
                let v = self.node(depth - 1);
                m.insert(s("valueType"), v);
            }
            5 => {
                m.insert(s("type"), s("anon map"));
                let form = self.r.below(5);
                let (mn, mx, init): (Option<i64>, Option<i64>, i64) = match form {
                    0 => (None, None, self.r.below(4) as i64),
                    1 => (Some(1), None, 1 + self.r.below(2) as i64),
                    2 => (None, Some(3), self.r.below(4) as i64),
                    3 => (Some(0), Some(2), self.r.below(3) as i64),
                    _ => (Some(2), Some(3), 2 + self.r.below(2) as i64),
                };
                m.insert(s("initSize"), inum(init));
                if let Some(a) = mn {
                    m.insert(s("minSize"), inum(a));
                }
                if let Some(b) = mx {
                    m.insert(s("maxSize"), inum(b));
                }
                let v = self.node(depth - 1);
                m.insert(s("valueType"), v);
            }
            6 => {
                m.insert(s("type"), s("variant"));
                let n = 2 + self.r.below(2);
                let mut used: Vec<&str> = Vec::new();
                while used.len() < n {
                    let k = *self.r.pick(NAMES);
                    if !used.contains(&k) && k != "init" && k != "type" {
                        used.push(k);
                    }
                }
                m.insert(s("init"), s(used[self.r.below(n)]));
                for k in used {
                    let v = self.node(depth - 1);
                    m.insert(s(k), v);
                }
            }
            7 => {
                m.insert(s("type"), s("enum"));
                let n = 2 + self.r.below(3);
                let mut used: Vec<&str> = Vec::new();
                while used.len() < n {
                    let k = *self.r.pick(NAMES);
                    if !used.contains(&k) {
                        used.push(k);
                    }
                }
                m.insert(s("values"), Value::Sequence(used.iter().map(|k| s(k)).collect()));
                m.insert(s("init"), s(used[self.r.below(n)]));
            }
            8 => {
                m.insert(s("type"), s("optional"));
                m.insert(s("initPresent"), Value::Bool(self.r.chance(1, 2)));
                let v = self.node(depth - 1);
                m.insert(s("valueType"), v);
            }
            _ => {
                m.insert(s("type"), s("const"));
            }
        }
        Value::Mapping(m)
    }
}

/// all mapping nodes (paths) of a document
fn collect_maps(v: &Value, path: &mut Vec<usize>, out: &mut Vec<Vec<usize>>) {
    if let Value::Mapping(m) = v {
        out.push(path.clone());
        for (i, (_, c)) in m.iter().enumerate() {
            path.push(i);
            collect_maps(c, path, out);
            path.pop();
        }
    }
}
fn at_mut<'v>(v: &'v mut Value, path: &[usize]) -> &'v mut Value {
    if path.is_empty() {
        return v;
    }
    match v {
        Value::Mapping(m) => {
            let (_, c) = m.iter_mut().nth(path[0]).unwrap();
            at_mut(c, &path[1..])
        }
        _ => v,
    }
}

/// a single-rule violation applied to one node; returns a description when it applied
fn violate(r: &mut Prng, node: &mut Value) -> Option<&'static str> {
    let m = match node {
        Value::Mapping(m) => m,
        _ => return None,
    };
    let ty = m.get("type").and_then(|t| t.as_str()).unwrap_or("sub").to_string();
    let pick = r.below(8);
    match (ty.as_str(), pick) {
        ("real", 0) | ("int", 0) => {
            if let (Some(a), true) = (m.get("min").cloned(), m.contains_key("max")) {
                m.insert(s("max"), a);
                return Some("min = max");
            }
            None
        }
        ("real", 1) => {
            m.insert(s("scale"), fnum(*r.pick(&[0.0, -1.0, -0.0])));
            Some("scale not positive")
        }
        ("int", 1) => {
            m.insert(s("scale"), inum(*r.pick(&[0, -2])));
            Some("scale not positive")
        }
        ("real", 2) => {
            let k = *r.pick(&["init", "scale", "min", "max"]);
            m.insert(s(k), fnum(*r.pick(&[f64::NAN, f64::INFINITY, f64::NEG_INFINITY])));
            Some("non-finite number")
        }
        ("int", 2) => {
            // the scale of an int is a real: non-finite values of it are refused like those of a real parameter
            m.insert(s("scale"), fnum(*r.pick(&[f64::NAN, f64::INFINITY, f64::NEG_INFINITY])));
            Some("non-finite number")
        }
        ("real", 3) => {
            if let Some(mx) = m.get("max").and_then(|v| v.as_f64()) {
                m.insert(s("init"), fnum(mx.abs() * 2.0 + 1.0));
                return Some("init above max");
            }
            if let Some(mn) = m.get("min").and_then(|v| v.as_f64()) {
                m.insert(s("init"), fnum(-(mn.abs() * 2.0) - 1.0));
                return Some("init below min");
            }
            None
        }
        ("int", 3) => {
            if let Some(mx) = m.get("max").and_then(|v| v.as_i64()) {
                if mx < i64::MAX {
                    m.insert(s("init"), inum(mx + 1));
                    return Some("init above max");
                }
            }
            if let Some(mn) = m.get("min").and_then(|v| v.as_i64()) {
                if mn > i64::MIN {
                    m.insert(s("init"), inum(mn - 1));
                    return Some("init below min");
                }
            }
            None
        }
        ("real", 4) | ("int", 4) | ("bool", 4) => {
            m.remove("init");
            Some("init missing")
        }
        ("enum", 0) => {
            let first = m.get("values").and_then(|v| v.as_sequence()).map(|q| q[0].clone()).unwrap();
            let n = m.get("values").and_then(|v| v.as_sequence()).map(|q| q.len()).unwrap();
            m.insert(s("values"), Value::Sequence(vec![first.clone(); n]));
            m.insert(s("init"), first);
            Some("enum values all equal")
        }
        ("enum", 1) => {
            let first = m.get("values").and_then(|v| v.as_sequence()).map(|q| q[0].clone()).unwrap();
            m.insert(s("values"), Value::Sequence(vec![first.clone()]));
            m.insert(s("init"), first);
            Some("enum with one value")
        }
        ("enum", 2) | ("variant", 2) => {
            m.insert(s("init"), s("no such option"));
            Some("unknown init option")
        }
        ("variant", 0) => {
            let keys: Vec<Value> = m.keys().filter(|k| k.as_str() != Some("type") && k.as_str() != Some("init")).cloned().collect();
            for k in keys.iter().skip(1) {
                m.remove(k);
            }
            m.insert(s("init"), keys[0].clone());
            Some("variant with one option")
        }
        ("array", 0) => {
            m.insert(s("size"), inum(*r.pick(&[0, 1])));
            Some("array size below 2")
        }
        ("anon map", 0) => {
            m.insert(s("maxSize"), inum(0));
            m.insert(s("initSize"), inum(0));
            m.remove("minSize");
            Some("maxSize 0")
        }
        ("anon map", 1) => {
            m.insert(s("minSize"), inum(3));
            m.insert(s("maxSize"), inum(*r.pick(&[3, 2])));
            m.insert(s("initSize"), inum(3));
            Some("minSize >= maxSize")
        }
        ("anon map", 2) => {
            m.insert(s("minSize"), inum(1));
            m.insert(s("maxSize"), inum(2));
            m.insert(s("initSize"), inum(*r.pick(&[0, 3])));
            Some("initSize outside bounds")
        }
        ("anon map", 4) => {
            m.remove("maxSize");
            m.insert(s("minSize"), inum(2));
            m.insert(s("initSize"), inum(*r.pick(&[0, 1])));
            Some("initSize below a one-sided minSize")
        }
        ("anon map", 7) => {
            m.remove("minSize");
            m.insert(s("maxSize"), inum(3));
            m.insert(s("initSize"), inum(*r.pick(&[4, 5])));
            Some("initSize above a one-sided maxSize")
        }
        ("array", 1) | ("anon map", 3) | ("optional", 1) => {
            m.remove("valueType");
            Some("valueType missing")
        }
        (t, 5) if t != "sub" && t != "variant" => {
            m.insert(s("bogus"), inum(1));
            Some("unknown attribute")
        }
        (_, 6) => {
            m.insert(s("type"), s("no such type"));
            Some("unknown type name")
        }
        ("sub", 7) => {
            let keys: Vec<Value> = m.keys().cloned().collect();
            for k in keys {
                if k.as_str().map(|x| x != "type" && !x.starts_with("typeDef ")).unwrap_or(false) {
                    m.remove(&k);
                }
            }
            Some("sub without members")
        }
        ("sub", 0) => {
            let v = m.iter().next().map(|(_, v)| v.clone()).unwrap_or(Value::Null);
            m.insert(s("typeDef real"), v);
            Some("type definition named like a built-in")
        }
        _ => None,
    }
}

fn soup(r: &mut Prng, depth: usize) -> Value {
    let scalars = |r: &mut Prng| -> Value {
        match r.below(9) {
            0 => Value::Null,
            1 => Value::Bool(true),
            2 => inum(*r.pick(&[0, 1, 2, -1, 3])),
            3 => Value::Number(serde_yaml::Number::from(u64::MAX)),
            4 => fnum(*r.pick(&[0.5, 1.0, -3.25, f64::NAN, f64::INFINITY])),
            5 => s(*r.pick(&["real", "int", "bool", "sub", "array", "anon map", "variant", "enum", "optional", "const", "a", "b"])),
            6 => Value::Sequence(vec![s("a"), s("b")]),
            7 => Value::Tagged(Box::new(serde_yaml::value::TaggedValue { tag: serde_yaml::value::Tag::new("tg"), value: s(*r.pick(&["real", "a", "sub"])) })),
            _ => s("a"),
        }
    };
    let mut m = Mapping::new();
    let n = 1 + r.below(5);
    for _ in 0..n {
        let k = match r.below(12) {
            0 => inum(1),
            1 => Value::Null,
            2 => Value::Tagged(Box::new(serde_yaml::value::TaggedValue { tag: serde_yaml::value::Tag::new("tg"), value: s(*r.pick(&["type", "a", "typeDef t1", "init"])) })),
            _ => s(*r.pick(&["type", "init", "scale", "min", "max", "size", "valueType", "initSize", "minSize", "maxSize", "values", "initPresent", "a", "b", "typeDef t1", "typeDefault"])),
        };
        let v = if depth > 0 && r.chance(1, 3) { soup(r, depth - 1) } else { scalars(r) };
        m.insert(k, v);
    }
    Value::Mapping(m)
}

// ------------------------------------------------------------------ printing

fn yaml_to_coq(v: &Value) -> String {
    match v {
        Value::Null => "YNull".into(),
        Value::Bool(b) => format!("(YBool {})", b),
        Value::Number(n) => {
            if let Some(u) = n.as_u64() {
                format!("(YInt {}%Z)", u)
            } else if let Some(i) = n.as_i64() {
                format!("(YInt ({})%Z)", i)
            } else {
                format!("(YFloat {})", fb(n.as_f64().unwrap()))
            }
        }
        Value::String(x) => format!("(YStr {})", cstr(x)),
        Value::Sequence(l) => format!("(YSeq [{}])", l.iter().map(yaml_to_coq).collect::<Vec<_>>().join("; ")),
        Value::Mapping(m) => format!(
            "(YMap [{}])",
            m.iter().map(|(k, v)| format!("({}, {})", yaml_to_coq(k), yaml_to_coq(v))).collect::<Vec<_>>().join("; ")
        ),
        Value::Tagged(t) => format!("(YTagged {} {})", cstr(&t.tag.to_string()), yaml_to_coq(&t.value)),
    }
}

pub fn err_kind(e: &Error) -> &'static str {
    match e {
        Error::InvalidYaml(_) => "EInvalidYaml",
        Error::ValueMustBeMap { .. } => "EValueMustBeMap",
        Error::UnsignedIntConversionFailed { .. } => "EUnsignedIntConversionFailed",
        Error::InvalidAttributeValueType { .. } => "EInvalidAttributeValueType",
        Error::InvalidAttributeKeyType { .. } => "EInvalidAttributeKeyType",
        Error::UnknownTypeName { .. } => "EUnknownTypeName",
        Error::InitNotWithinBounds { .. } => "EInitNotWithinBounds",
        Error::InitSizeNotWithinBounds { .. } => "EInitSizeNotWithinBounds",
        Error::InvalidBounds { .. } => "EInvalidBounds",
        Error::InvalidSizeBounds { .. } => "EInvalidSizeBounds",
        Error::ArraySize { .. } => "EArraySize",
        Error::ZeroMaxSize { .. } => "EZeroMaxSize",
        Error::MandatoryAttributeMissing { .. } => "EMandatoryAttributeMissing",
        Error::UnexpectedAttribute { .. } => "EUnexpectedAttribute",
        Error::EmptySub { .. } => "EEmptySub",
        Error::NotEnoughVariantValues { .. } => "ENotEnoughVariantValues",
        Error::NotEnoughEnumValues { .. } => "ENotEnoughEnumValues",
        Error::InitNotAKnownValue { .. } => "EInitNotAKnownValue",
        Error::EnumItemsMustBeString { .. } => "EEnumItemsMustBeString",
        Error::NonFiniteNumber { .. } => "ENonFiniteNumber",
        Error::ScaleMustBeStrictlyPositive { .. } => "EScaleMustBeStrictlyPositive",
        Error::IllegalTypeDefName { .. } => "EIllegalTypeDefName",
        _ => "EOther",
    }
}

pub struct SpecCase {
    pub coq: Option<String>,
    pub json: serde_json::Value,
}

pub fn run_case(master: u64, idx: u64, profile: &str) -> SpecCase {
    let mut r = Prng::new(master.wrapping_mul(9_000_011).wrapping_add(idx));
    let mode = match profile {
        "wellformed" => 0,
        "violation" => 1,
        "soup" => 2,
        _ => r.below(3),
    };
    let (doc, expect, note): (Value, u8, String) = match mode {
        0 => {
            let depth = 1 + r.below(3);
            let mut g = Gen { r: &mut r, defs: Vec::new() };
            (g.node(depth), 1, "well-formed".into())
        }
        1 => {
            let depth = 1 + r.below(3);
            let mut doc = {
                let mut g = Gen { r: &mut r, defs: Vec::new() };
                g.node(depth)
            };
            let mut paths = Vec::new();
            collect_maps(&doc, &mut Vec::new(), &mut paths);
            let mut applied = None;
            for _ in 0..20 {
                let p = paths[r.below(paths.len())].clone();
                let node = at_mut(&mut doc, &p);
                if let Some(d) = violate(&mut r, node) {
                    applied = Some(d);
                    break;
                }
            }
            match applied {
                Some(d) => (doc, 2, d.to_string()),
                None => (doc, 1, "well-formed (no violation applicable)".into()),
            }
        }
        _ => (soup(&mut r, 2), 0, "soup".into()),
    };
    let text = match serde_yaml::to_string(&doc) {
        Ok(t) => t,
        Err(e) => {
            return SpecCase { coq: None, json: serde_json::json!({"stream":"spec","idx":idx,"skipped":format!("unserialisable: {}", e)}) }
        }
    };
    // what from_yaml_str sees
    let parsed: Result<Value, _> = serde_yaml::from_str(&text);
    let res = std::panic::catch_unwind(|| spec_util::from_yaml_str(&text));
    let (res_coq, res_txt, accepted) = match &res {
        Err(_) => ("RPanic".to_string(), "PANIC".to_string(), false),
        Ok(Ok(sp)) => (format!("(ROk {})", spec_to_coq(&sp.0)), "Ok".to_string(), true),
        Ok(Err(e)) => {
            let k = err_kind(e);
            (if k == "EInvalidYaml" || k == "EOther" { "RErrOther".to_string() } else { format!("(RErr {})", k) }, k.to_string(), false)
        }
    };
    let coq = match parsed {
        Ok(v) => Some(format!(
            "Definition y{} : spec_obs := mkSpecObs {} {}%N {} {}.\n",
            idx,
            idx,
            expect,
            yaml_to_coq(&v),
            res_coq
        )),
        Err(_) => None,
    };
    SpecCase {
        coq,
        json: serde_json::json!({"stream":"spec","idx":idx,"mode":mode,"expect":expect,"note":note,"yaml":text,"result":res_txt,"accepted":accepted}),
    }
}
