//! Algo stream: operation sequences on the real `algorithm::AlgoContext` (reached through the
//! cfg-guarded re-export): `next_individual` / `process_individual_eval` in harness-chosen
//! order with harness-chosen results, the population read back after every operation.
use crate::prng::Prng;
use cambrian::spec_util;
use cambrian::verif_hooks::{AlgoContext, IndContext};
use std::collections::HashMap;
use tangram_finite::FiniteF64;

pub struct AlgoCase {
    pub coq: String,
    pub json: serde_json::Value,
}

fn ids(ctx: &AlgoContext) -> String {
    format!("[{}]", ctx.verif_population().iter().map(|(id, _, _, _)| format!("{}%N", id)).collect::<Vec<_>>().join("; "))
}

fn snap_opt(ctx: &AlgoContext, full: bool) -> String {
    if full {
        format!("(Some {})", snap(ctx))
    } else {
        "None".to_string()
    }
}

fn snap(ctx: &AlgoContext) -> String {
    let ents: Vec<String> = ctx
        .verif_population()
        .iter()
        .map(|(id, key, kind, vals)| {
            format!(
                "({}%N, {}%Z, {}%N, [{}])",
                id,
                key.to_bits(),
                kind,
                vals.iter().map(|v| format!("{}%Z", v.to_bits())).collect::<Vec<_>>().join("; ")
            )
        })
        .collect();
    format!("[{}]", ents.join("; "))
}

pub fn run_case(master: u64, idx: u64, profile: &str) -> AlgoCase {
    let mut r = Prng::new(master ^ idx.wrapping_mul(0x8CB92BA72F3D8DD7)).fork(0xA160);
    let ss = match profile {
        "evict" => 1,
        _ => *r.pick(&[1usize, 1, 2, 2, 3, 4]),
    };
    let n_ops = match profile {
        "evict" => 260 + r.below(120),
        _ => 20 + r.below(if ss > 1 { 160 } else { 60 }),
    };
    let spec = spec_util::from_yaml_str("x:\n  type: real\n  init: 1.0\n  scale: 1.0\n").unwrap();
    let mut ctx = AlgoContext::new(spec, ss, None, None);
    let mut interned: HashMap<String, u64> = HashMap::new();
    let mut intern = |s: String| -> u64 {
        let n = interned.len() as u64;
        *interned.entry(s).or_insert(n)
    };
    let init_idx = intern(cambrian::spec_util::from_yaml_str("x:\n  type: real\n  init: 1.0\n  scale: 1.0\n").unwrap().initial_value().to_json().to_string());
    let mut held: Vec<IndContext> = Vec::new();
    let mut ops: Vec<String> = Vec::new();
    let max_held = 1 + r.below(6);
    let val_mode = r.below(5);
    let mut k = 0u64;
    let mut n_reeval = 0u64;
    let mut max_pop = 0usize;
    for step in 0..n_ops {
        let full = step % 12 == 11 || step + 1 == n_ops;
        let do_next = held.is_empty() || (held.len() < max_held && r.chance(1, 2));
        if do_next {
            let before = ctx.verif_next_id();
            let ind = ctx.next_individual();
            if ind.id < before {
                n_reeval += 1;
            }
            let v = intern(ind.value.to_json().to_string());
            ops.push(format!("ANext {}%N {}%N {} {} {}%N", ind.id, v, ids(&ctx), snap_opt(&ctx, full), ctx.verif_next_id()));
            held.push(ind);
        } else {
            let i = r.below(held.len());
            let ind = held.remove(i);
            let id = ind.id;
            k += 1;
            let res: Option<f64> = if r.chance(1, 6) {
                None
            } else {
                Some(match val_mode {
                    0 => (r.unit() - 0.5) * 20.0,
                    1 => 100.0 - k as f64,
                    2 => *r.pick(&[0.0, -0.0, 1.0, 1.0, 2.0]),
                    3 => *r.pick(&[1e300, -1e300, 0.5]),
                    _ => (r.below(7) as f64) * 0.25,
                })
            };
            ctx.process_individual_eval(ind, res.map(|x| FiniteF64::new(x).unwrap()));
            let best = ctx.best_seen_final().map(|(x, v)| (x.get(), v.to_json().to_string()));
            let best_coq = match best {
                Some((x, v)) => format!("(Some ({}%Z, {}%N))", x.to_bits(), intern(v)),
                None => "None".to_string(),
            };
            max_pop = max_pop.max(ctx.verif_population().len());
            ops.push(format!(
                "ADone {}%N {} {} {} {}%N {}",
                id,
                match res {
                    Some(x) => format!("(Some {}%Z)", x.to_bits()),
                    None => "None".to_string(),
                },
                ids(&ctx),
                snap_opt(&ctx, full),
                ctx.verif_next_id(),
                best_coq
            ));
        }
    }
    let coq = format!(
        "Definition a{} : algo_obs := mkAlgoObs {} {}%nat {}%N [\n  {}].\n",
        idx,
        idx,
        ss,
        init_idx,
        ops.join(";\n  ")
    );
    let json = serde_json::json!({"stream": "algo", "idx": idx, "ss": ss, "ops": ops.len(), "reevaluations": n_reeval,
        "max_population": max_pop, "value_mode": val_mode, "max_held": max_held, "profile": profile});
    AlgoCase { coq, json }
}
